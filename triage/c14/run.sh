#!/bin/bash
# C14 triage: compile share.xml (two messages, same group count field and member tags, different order / required flags)
# with the repo's built f8c and show which trait table each message's group points to.
d=$(mktemp -d /var/tmp/c14.XXXXXX); trap 'rm -rf $d' EXIT
${F8_REPO:-/repo}/compiler/f8c -s -p Share -n SH -o $d "$(dirname "$0")/share.xml" >/dev/null 2>&1
grep -n "NoAllocs.*_traits" $d/Share_traits.cpp
if grep -q "NoAllocsV1_traits" $d/Share_traits.cpp; then echo "DEFECT: Alpha and Beta share one trait table although their NoAllocs definitions differ"; exit 1; else echo "HOLDS: separate tables"; fi
