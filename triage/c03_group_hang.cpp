// R03.4: a malformed token inside a repeating group whose definition has no mandatory field made decode_group loop
// for ever (allocating group elements). alarm(5) turns the hang into a failure.
#include "/repo/runtime/message.cpp"   // compiled into this TU so that the working-tree source is what runs
#include "utest_types.hpp"
#include "utest_router.hpp"
#include "utest_classes.hpp"
#include <signal.h>
using namespace FIX8::UTEST;
static void onalarm(int) { const char m[] = "DEFECT: decode did not return within 5 s (hang)\n"; write(1, m, sizeof m - 1); _exit(1); }
int main()
{
    signal(SIGALRM, onalarm); alarm(5);
    f8String body("35=D\00149=A\00156=B\00134=1\00152=20200101-00:00:00\00111=4\00121=1\00155=OC\00154=1\00160=20130305-02:19:46\00138=50\00140=2\00178=1\00179=ACC\001X=1\00180=5\001");
    std::ostringstream o; o << "8=FIX.4.2\0019=" << body.size() << '\001' << body;
    f8String s(o.str()); unsigned sum = 0; for (unsigned char c : s) sum += c;
    char cs[8]; snprintf(cs, sizeof cs, "10=%03u\001", sum % 256); s += cs;
    try { std::unique_ptr<Message> m(Message::factory(ctx(), s)); std::cout << "decoded" << std::endl; }
    catch (f8Exception& e) { std::cout << "rejected: " << e.what() << std::endl; }
    std::cout << "HOLDS (returned)" << std::endl;
    return 0;
}
