"""C26 — persisters honour the store contract."""
from ..facts import Program, AnalysisBroken
from .. import q
from . import c18, c27

CLAIM = {
    'text': 'Sibling-agreement, provenance and extent rules over MemoryPersister and FilePersister: the control-record put replaces an '
            'existing record and the control-record get reads the stored bytes (not the container object); message put refuses key 0 '
            'and an occupied key in both; last = greatest key; nearest-highest is an inclusive ascending scan returning the first hit; '
            'range retrieval obeys the shared protocol (same rule instances as C18/R18.2); every read into a fixed stack buffer is '
            'bounded by the buffer size through a dominating guard.',
    'note': 'Trusted: clang CFG, extractor, std::map semantics (unique ascending keys). Undecided: behaviour for concrete operation '
            'sequences; file-system effects (C27).',
    'technique': 'sibling agreement over overriders; provenance of out-parameters; loop-shape check; extent vs. guard interval',
}
UNITS = ['runtime/persist.cpp', 'runtime/filepersist.cpp']
EXPLANATION = (
    "Decided: R26.1 put(sender,target) is an upsert (erase-before-insert, or assign on hit / insert on miss) and get(sender&,target&) "
    "derives both results from the mapped value's content; R26.2 put(seq,bytes) returns false for seq 0 and for an occupied key (find hit "
    "or insert().second), get_last_seqnum is rbegin()->first or 0 when empty, find_nearest_highest_seqnum scans requested..last inclusive "
    "upwards and returns the first key found, else 0; R26.3 range get protocol (see C18); R26.4 each read(fd, local array, n) has n <= "
    "array size by constant or dominating guard. R26.5 FilePersister::put appends at lseek(_fod, 0, SEEK_END) (get repositions the same descriptor). NOT decided: operation sequences, I/O failures.")

IMPL = (('FIX8::MemoryPersister', '_store'), ('FIX8::FilePersister', '_index'))


def _map_calls(fn, cls, store, name):
    return [c for c in fn.calls() if c.callee is not None and c.callee.get('n') == name and c.obj is not None and
            q.refers_to_member(c.obj, cls + '::' + store)]


def nearest_rule(ctx, prog, cls, RID):
    """find_nearest_highest_seqnum(requested, last) = smallest stored key in [requested, last] (inclusive), 0 if none. Two idioms are recognised:
    (A) a for loop probing requested, requested+1, ... <= last with find(); (B) one lower_bound(requested) whose hit is accepted only if key <= last."""
    fh = prog.fn1(cls + '::find_nearest_highest_seqnum')
    ctx.saw(fh)
    preq, plast = fh.param_ids[0], fh.param_ids[1]
    loops = [n for n in fh.all_nodes() if n.k == 'ForStmt']
    lbs = [c for c in fh.calls() if c.callee is not None and c.callee.get('n') == 'lower_bound' and c.args and
           any(x.k == 'DeclRefExpr' and x.declid == preq for x in c.args[0].walk())]
    rets = [n for (v, kind, n) in fh.cfg.exits() if kind == 'return']
    if len(loops) == 1 and not lbs:
        okn = False
        lp = loops[0]
        init, cond, inc = lp.child('init'), lp.child('cond'), lp.child('inc')
        if init is not None and init.k == 'DeclStmt' and cond is not None and inc is not None:
            lv = init.r['decls'][0][0]
            iv = fh.node(init.r['decls'][0][1])
            c = cond.strip(casts=True)
            i2 = inc.strip(casts=True)
            okn = (q.refers_to_decl(iv, preq) and c.k == 'BinaryOperator' and c.op == '<=' and q.refers_to_decl(c.children[0], lv)
                   and q.refers_to_decl(c.children[1], plast) and i2.k == 'UnaryOperator' and i2.op == '++' and q.refers_to_decl(i2.children[0], lv))
            fnd = [x for x in lp.child('body').walk() if x.is_call and x.callee and x.callee.get('n') == 'find']
            okn = okn and len(fnd) == 1 and q.refers_to_decl(fnd[0].args[0], lv)
        ctx.check(okn, RID, cls + '::find_nearest_highest_seqnum#scan', fh.loc,
                  'ascending scan from `requested` to `last` inclusive, probing each number')
    elif lbs:
        hits = [r for r in rets if any(x.k == 'MemberExpr' and x.decl.get('n') == 'first' for x in r.walk())]
        ctx.need(hits, cls + '::find_nearest_highest_seqnum: no return of a found key')
        why = None
        for r in hits:
            atoms = q.controlling_atoms(fh, r)
            upper = None
            for a, pol in atoms:
                t = a.strip(casts=True)
                if t.k == 'BinaryOperator' and t.op in ('<', '<=', '>', '>=') and any(q.refers_to_decl(x, plast) for x in t.walk() if x.k == 'DeclRefExpr') and \
                        any(x.k == 'MemberExpr' and x.decl and x.decl.get('n') == 'first' for x in t.walk()):        # the FOUND key against last
                    left_last = any(q.refers_to_decl(x, plast) for x in t.children[0].walk() if x.k == 'DeclRefExpr')
                    op = t.op if not left_last else {'<': '>', '>': '<', '<=': '>=', '>=': '<='}[t.op]     # as  key OP last
                    if not pol:
                        op = {'<': '>=', '>': '<=', '<=': '>', '>=': '<'}[op]
                    upper = op
            if upper is None:
                why = 'the key found by lower_bound(requested) is returned without being compared with `last`: a stored number above the requested window is reported as being inside it'
            elif upper != '<=':
                why = 'the key found by lower_bound(requested) is accepted only if key %s last: the bound is inclusive (the newest stored message itself is a valid answer)' % upper
        ctx.check(why is None, RID, cls + '::find_nearest_highest_seqnum#scan', fh.loc, 'lower_bound(requested), accepted only when key <= last', why)
    else:
        raise AnalysisBroken(cls + '::find_nearest_highest_seqnum: neither the probing loop nor the lower_bound idiom recognised')
    ctx.check(any(q.return_value(r) == 0 for r in rets), RID, cls + '::find_nearest_highest_seqnum#miss0', fh.loc,
              'returns 0 when nothing in range is stored')


def run(ctx):
    prog = Program(UNITS)
    ctx.units.update(UNITS)
    for cls, store in IMPL:
        # ---------------- R26.1 control record
        put = prog.fn1(cls + '::put', sig='(const unsigned int, const unsigned int)')
        ctx.saw(put)
        pc = put.cfg
        ins = _map_calls(put, cls, store, 'insert')
        er = _map_calls(put, cls, store, 'erase')
        asg = [n for n in put.all_nodes() if n.is_call and n.r.get('op') == '=' or (n.k == 'BinaryOperator' and n.op == '=')]
        asg = [n for n in asg if any(x.k == 'MemberExpr' and x.decl and x.decl.get('n') == 'second' for x in (n.children[0] if n.k == 'BinaryOperator' else (n.obj or n)).walk())]
        upsert = False
        why = 'control-record put only inserts: map::insert keeps the first record stored under key 0'
        if ins and er and all(pc.dominates(pc.vertex_of(e), pc.vertex_of(i)) for e in er for i in ins) and \
                all(e.args and e.args[0].strip(casts=True).value == 0 for e in er):
            upsert = True
        elif ins and asg:
            hit = q.branches(put, lambda a: a.is_call and a.r.get('op') in ('==', '!=') and any(
                x.is_call and x.callee and x.callee.get('n') in ('end', 'cend') for x in a.walk()))
            if len(hit) == 1:
                miss_e = q.atom_edge(pc, hit[0], hit[0][1].r['op'] == '==')
                hit_e = q.atom_edge(pc, hit[0], hit[0][1].r['op'] != '==')
                iv, av = q.verts(pc, ins), q.verts(pc, asg)
                upsert = (q.reachable_any(pc, miss_e, iv) is not None and q.reachable_any(pc, hit_e, av) is not None and
                          q.reachable_any(pc, hit_e, iv) is None)
        elif _map_calls(put, cls, store, 'insert_or_assign') or _map_calls(put, cls, store, 'operator[]'):
            upsert = True
        ctx.check(upsert, 'R26.1', cls + '::put#control.upsert', put.loc, 'a later control record replaces the earlier one', why)
        for i in ins:
            key = i.args[0].strip(casts=True)
            k0 = [x for x in key.walk() if x.k == 'IntegerLiteral']
            ctx.check(any(x.value == 0 for x in k0[:1]), 'R26.1', cls + '::put#control.key0', i.loc, 'the control record lives under key 0')
        get = prog.fn1(cls + '::get', sig='(unsigned int &, unsigned int &)')
        ctx.saw(get)
        finds = _map_calls(get, cls, store, 'find')
        ctx.check(len(finds) == 1 and finds[0].args[0].strip(casts=True).value == 0, 'R26.1', cls + '::get#control.find0', get.loc,
                  'control get looks up key 0')
        okv = True
        why = ''
        for pi, pid in enumerate(get.param_ids):
            ws = [w for (w, kind, val) in q.local_defs(get, pid) if kind == 'assign']
            if not ws:
                okv, why = False, 'out-parameter %d is never assigned' % pi
                continue
            for w in ws:
                rhs = w.children[1]
                org = q.origins(get, rhs)
                srcs = []
                for (k, n) in org:
                    if n is None:
                        continue
                    # follow pointer locals through their initialiser (origins stops at deref of a local pointer)
                    srcs.append(n)
                txt = ' '.join(x.text() for x in srcs)
                bad_addr = any(x.k == 'UnaryOperator' and x.op == '&' and any(y.k == 'MemberExpr' and y.decl.get('n') == 'second' for y in x.walk())
                               for s_ in srcs for x in _deref_sources(get, s_))
                content = any((x.is_call and x.callee is not None and x.callee.get('n') in ('data', 'c_str')) or
                              (x.k == 'MemberExpr' and x.decl.get('n') in ('_offset', '_size'))
                              for s_ in srcs for x in _deref_sources(get, s_))
                if bad_addr or not content:
                    okv = False
                    why = 'out-parameter %d is read through `%s`: the address of the mapped std::string object, not its bytes' % (pi, txt) \
                        if bad_addr else 'out-parameter %d does not derive from the stored record (%s)' % (pi, txt)
        ctx.check(okv, 'R26.1', cls + '::get#control.bytes', get.loc, 'control get returns the two numbers held in the stored record', why)

        # ---------------- R26.2 message put / last / nearest
        mp = prog.fn1(cls + '::put', sig='const FIX8::f8String &)')
        ctx.saw(mp)
        mc = mp.cfg
        seqp = mp.param_ids[0]
        # (a) seq 0 refused: under seq == 0 only `false` is returned and no insert/write happens
        def zero(v, w, lab, _mp=mp, _mc=mc):
            if lab is None or not isinstance(lab[1], bool):
                return True
            a, pol = q.polar(_mc.cond_node(lab[0]), lab[1])
            s = a.strip(casts=True)
            if s.k == 'DeclRefExpr' and s.declid == seqp:
                return pol is False          # seqnum evaluates to false
            return True
        vz = q.valuation_edge_filter(mp, {seqp: 0})          # also whole conditions that are decided by seqnum == 0: !(_opened && seqnum)
        zero2 = lambda v, w, lab, _z=zero, _v=vz: _z(v, w, lab) and _v(v, w, lab)
        reach0 = mc.reach_from(mc.entry, edge_ok=zero2) | {mc.entry}
        rets0 = [n for (v, kind, n) in mc.exits() if kind == 'return' and v in reach0]
        def ret_can_be_true(r, edge):
            val = q.eval_int(r.children[0], {seqp: 0})
            return val != 0
        insv = q.verts(mc, _map_calls(mp, cls, store, 'insert'))
        ok0 = bool(rets0) and all(not ret_can_be_true(r, zero) for r in rets0)
        # ConditionalOperator form (`!seqnum ? false : insert`): evaluate with seqnum = 0
        ctx.check(ok0, 'R26.2', cls + '::put#refuse0', mp.loc, 'storing under sequence number 0 is refused')
        # (b) occupied key refused
        hitb = q.branches(mp, lambda a: a.is_call and a.r.get('op') in ('==', '!=') and any(
            x.is_call and x.callee and x.callee.get('n') == 'find' and x.args and q.refers_to_decl(x.args[0], seqp) for x in a.walk()))
        occ = False
        if hitb:
            he = q.atom_edge(mc, hitb[0], hitb[0][1].r['op'] == '!=')
            rs = q.reachable_returns(mc, he)
            occ = bool(rs) and all(q.return_value(r) == 0 for r in rs) and q.reachable_any(mc, he, insv) is None
        else:
            rets = [n for (v, kind, n) in mc.exits() if kind == 'return']
            occ = bool(rets) and all(any(x.k == 'MemberExpr' and x.decl.get('n') == 'second' and any(
                y.is_call and y.callee and y.callee.get('n') == 'insert' for y in x.walk()) for x in r.walk()) or q.return_value(r) == 0
                for r in rets)
        ctx.check(occ, 'R26.2', cls + '::put#refuse-occupied', mp.loc, 'storing under an occupied sequence number is refused (returns false, record kept)')
        for i in _map_calls(mp, cls, store, 'insert'):
            ctx.check(any(q.refers_to_decl(x, seqp) for x in i.args[0].walk() if x.k == 'DeclRefExpr'), 'R26.2', cls + '::put#key', i.loc,
                      'the record is inserted under the given sequence number')
        gl = prog.fn1(cls + '::get_last_seqnum')
        ctx.saw(gl)
        rets = [n for n in gl.all_nodes() if n.k == 'ReturnStmt']
        okl = False
        if len(rets) == 1:
            co = [x for x in rets[0].walk() if x.k == 'ConditionalOperator']
            if len(co) == 1:
                c_, t_, e_ = co[0].child('cond'), co[0].child('then'), co[0].child('else')
                okl = (any(x.is_call and x.callee and x.callee.get('n') == 'empty' and x.obj is not None and q.refers_to_member(x.obj, cls + '::' + store) for x in c_.walk())
                       and t_.strip(casts=True).value == 0 and
                       any(x.is_call and x.callee and x.callee.get('n') == 'rbegin' for x in e_.walk()) and
                       any(x.k == 'MemberExpr' and x.decl.get('n') == 'first' for x in e_.walk()))
        ctx.check(okl, 'R26.2', cls + '::get_last_seqnum#greatest', gl.loc, 'last sequence number = greatest key (rbegin()->first), 0 when empty')
        nearest_rule(ctx, prog, cls, 'R26.2')
        # single-record get
        sg = prog.fn1(cls + '::get', sig='(const unsigned int, FIX8::f8String &)')
        ctx.saw(sg)
        f1 = [c for c in _map_calls(sg, cls, store, 'find') if q.refers_to_decl(c.args[0], sg.param_ids[0])]
        ctx.check(len(f1) == 1, 'R26.2', cls + '::get#lookup', sg.loc, 'get(seq) looks up exactly the requested key')

    # ---------------- R26.3
    sess = Program(UNITS)
    c18.range_get_rules(ctx, prog, 'R26.3')

    # ---------------- R26.4 bounded reads into stack buffers
    n_reads = 0
    for f in prog.all_functions():
        if not (f.qp.startswith('FIX8::FilePersister::')):
            continue
        for c in f.calls():
            if c.callee_qp != 'read' or len(c.args) != 3:
                continue
            cap = q.array_capacity(c.args[1])
            if cap is None:
                continue                       # reading into an object (&iprec): sized by sizeof, checked under C27
            n_reads += 1
            ctx.saw(f)
            n = c.args[2]
            v = n.strip(casts=True).value
            if v is not None:
                ctx.check(v <= cap, 'R26.4', f.qp + '/%d#read.const' % len(f.param_ids), c.loc, 'read of %d bytes into a %d-byte buffer' % (v, cap))
                continue
            lo, hi = q.interval_from_guards(f, c, n)
            ctx.check(hi <= cap, 'R26.4', f.qp + '/%d#read.bound@' % len(f.param_ids) + n.text()[:40], c.loc,
                      'read length `%s` is bounded by the buffer (%d bytes) by a dominating guard' % (n.text(), cap),
                      'read(%s) of `%s` bytes into a %d-byte stack buffer without a dominating bound (a stored record longer than the '
                      'buffer overflows the stack)' % (c.args[1].text(), n.text(), cap))
    ctx.need(n_reads >= 2, 'expected >= 2 reads into stack buffers in FilePersister, found %d' % n_reads)
    # R26.5 'retrieving a number returns the bytes stored for it' with interleaved puts and gets: records are appended at the END of the data file
    cand = [f for f in prog.fns('FIX8::FilePersister::put') if 'basic_string' in f.sig or 'f8String' in f.sig]
    ctx.need(len(cand) == 1, 'FilePersister::put(seq, bytes) not found')
    fput = cand[0]
    ctx.saw(fput)
    dw = [c for c in fput.calls() if c.callee_qp == 'write' and c27._fd_is(c.args[0], '_fod')]
    ctx.need(len(dw) == 1, 'FilePersister::put: data write not found')
    c27.append_rule(ctx, fput, dw[0], 'R26.5')
    ctx.floor('R26.5', 1)
    ctx.floor('R26.1', 6)
    ctx.floor('R26.2', 12)


def _deref_sources(fn, n):
    """nodes of n plus, for pointer locals dereferenced in n, the nodes of their initialisers"""
    out = list(n.walk())
    for x in list(out):
        if x.k == 'DeclRefExpr' and x.decl and x.decl.get('sc') == 'local' and fn.tu.types[x.decl['t']]['k'] == 'ptr':
            for (dn, kind, val) in q.local_defs(fn, x.declid):
                if kind == 'init' and val is not None:
                    out += list(val.walk())
    return out
