// R27.1: a message stored before the first control record is overwritten by the first control store.
#include <fix8/f8includes.hpp>
using namespace FIX8;
int main()
{
    system("rm -rf c27s && mkdir c27s");
    { FilePersister fp; fp.initialise("c27s", "db", true); fp.put(1, "first"); fp.put(2u, 1u); }
    FilePersister fp; fp.initialise("c27s", "db", false);
    f8String s; bool g = fp.get(1, s);
    std::cout << "after reopen get(1)=" << g << " '" << s << "'" << std::endl;
    system("rm -rf c27s");
    std::cout << (g && s == "first" ? "HOLDS" : "DEFECT: message stored before the first control record is lost") << std::endl;
    return g && s == "first" ? 0 : 1;
}
