#!/usr/bin/env python3
"""development helper: the brief for a sub-agent that is asked for BEHAVIOUR-PRESERVING refactorings of the code a property is anchored in
(used to look for false alarms: the checks must stay silent, or at worst give up loudly with exit 2, on code where the property still holds).
Like the breaking brief it contains only the property text and a worktree path."""
import json
import sys

pid, wt = sys.argv[1], sys.argv[2]
p = [json.loads(l) for l in open('/verif/properties.jsonl') if l.strip()]
p = [x for x in p if x['id'] == pid][0]
mech = '\n'.join('  - %s (%s)' % (m['name'], m['where']) for m in p['anchors'].get('mechanism', []))
print(f"""You are helping to evaluate a verification effort for the open-source C++ FIX protocol engine fix8. Your job is to play the role
of a careful maintainer doing ordinary clean-up work. You work ONLY inside the scratch git worktree {wt} (a checkout of the fix8
repository, already configured and fully built in-tree with autotools; its 31 unit tests pass). Do not read or touch /repo or /verif or any
other worktree under /tmp/wt.

The code you will tidy up is the code this property is about (the property must STILL HOLD after your work - exactly as much as it does now):

  id: {p['id']}
  title: {p['title']}
  statement: {p['statement']}
  code it is anchored in: {', '.join(p['anchors']['files'])}
{mech}
  (line numbers are approximate; read the code)

WHAT TO PRODUCE: FOUR independent behaviour-preserving refactorings ("a", "b", "c", "d") of the anchored functions, each a separate patch
against the clean checkout, each of the kind a maintainer really commits:
  - rename locals / parameters; introduce a named local for a repeated sub-expression; inline a single-use local;
  - extract a block into a small static/inline helper function (or fold a trivial helper back into its caller);
  - restructure control flow without changing it: early return instead of nested if, if/else chain <-> switch, while <-> for,
    `a && b` split into nested ifs, De Morgan on a condition, swap the branches of an if together with negating its condition;
  - reorder statements that are genuinely independent; replace a hand-written loop by the equivalent std algorithm (or vice versa);
  - equivalent arithmetic / comparison forms (x > n-1 <-> x >= n for integers, `!(a < b)` <-> `a >= b`, i++ <-> ++i as statements);
  - const-correctness, `auto`, range-for <-> iterator loop, `nullptr`/0, brace vs paren initialisation, static_cast spelling.
Make each patch touch the property-relevant functions (not unrelated code), 5-40 changed lines, and make the four patches differ in kind.
The observable behaviour for EVERY input / history / schedule must be identical to the unmodified code - including in error paths and
boundary cases. If you are not sure a transformation is exactly behaviour-preserving, do not use it.

For each patch X:
  1. apply it, rebuild (`make -C runtime -j8 && make -C compiler -j8 && make -C utests -j8 check`; header changes: also one full `make -j8`),
     confirm all 31 tests pass (`make -k check`: 4 programs PASS);
  2. save `git diff -- runtime include compiler > {wt}/_seed/X/patch.diff`, then `git checkout -- runtime include compiler`;
  3. write {wt}/_seed/X/notes.md: what was changed and a short argument why behaviour is identical (mention every path you touched).
Each patch must apply on its own to the clean checkout with `git apply`.

No network. Do not install anything. Do not commit. Do not create files outside {wt} except mktemp scratch that you delete.

FINAL ANSWER: for each of a-d, two lines: what the refactoring is (file:function, kind) and the build/test result.
""")
