"""State carried between calls by a static / thread_local local of a function (a memo, a "last result" cache).

A cache is not wrong in itself.  What can be decided from the shape of the code, for the two idioms a one-entry cache is written in:

  first call     with every static at its initial value (its constant initialiser, or zero) the refresh condition must be true, or the
                 cached value is used before anything was computed into it.  Decided when substituting the initial values makes the
                 condition constant; when what remains is `key != E` with a zero-initialised key and E = x, x / N, x % N or x - x % N of an
                 input x, the first call with E == 0 uses the zero cache: a violation (0 is a value of E for the inputs of the property).
  staleness      when the refresh is skipped the key must be the key of the current input:
                   equality idiom   refresh condition has the disjunct `key != E`, and the refresh stores `key = E`;
                   floor idiom      the refresh stores `key = x - x % N` and the skipped branch implies 0 <= x - key <= N - 1
                                    (bounds read off the disjuncts of the refresh condition; a wider range reuses the cache for an input of
                                    the next bucket).
  completeness   every carried static is stored in the refresh branch.

Anything else about a carried static is not decided here: AnalysisBroken (exit 2), never a pass.  NOT decided even for the two idioms: that
the cached value depends on the input only through the key (a statement about the function cached, e.g. gmtime)."""
from .facts import AnalysisBroken, Node
from . import q


def statics(fn):
    """mutable static-storage locals of fn: [(decl id, decl, type, init node index, DeclStmt)]"""
    out = []
    for st in fn.all_nodes():
        if st.k == 'DeclStmt':
            for dd, init in st.r.get('decls', []):
                d = fn.tu.decls[dd]
                t = fn.tu.types[d['t']]
                if d.get('sc') == 'static_local' and not t.get('const'):
                    out.append((dd, d, t, init, st))
    return out


def _refs(fn, dd):
    return [n for n in fn.all_nodes() if n.k == 'DeclRefExpr' and n.declid == dd]


def _writes(fn, dd):
    return [(n, kind, val) for (n, kind, val) in q.local_defs(fn, dd) if kind != 'init' and fn.cfg.has_vertex(n)]


def carried(fn):
    """statics with a read that an in-call store does not dominate (the value of an earlier call is observable)"""
    cfg = fn.cfg
    out = []
    for (dd, d, t, init, st) in statics(fn):
        wv = {cfg.vertex_of(n) for (n, kind, val) in _writes(fn, dd)}
        wnodes = {n.i for (n, kind, val) in _writes(fn, dd)}
        exposed = []
        for r in _refs(fn, dd):
            if q.is_write_target(r) is not None and q.is_write_target(r).op == '=':
                continue
            if any(a.i in wnodes for a in r.ancestors()) and not any(a.k in ('BinaryOperator', 'CompoundAssignOperator') for a in r.ancestors() if a.i in wnodes):
                continue            # the reference is the out-argument of the storing call itself
            if not cfg.has_vertex(r):
                continue
            rv = cfg.vertex_of(r)
            if rv in cfg.reach_from(cfg.entry, avoid=wv - {rv}):
                exposed.append(r)
        if exposed:
            out.append((dd, d, t, init, exposed))
    return out


def _expand(fn, n, depth=0):
    """a single-assignment const local stands for its initialiser"""
    s = n.strip(casts=True)
    if depth < 4 and s.k == 'DeclRefExpr' and s.decl is not None and s.decl.get('sc') == 'local':
        defs = q.local_defs(fn, s.declid)
        if len(defs) == 1 and defs[0][1] == 'init' and defs[0][2] is not None:
            return _expand(fn, defs[0][2], depth + 1)
    return s


def _tri(f, val):
    """three-valued evaluation of a q.bool_atoms formula"""
    if f[0] == 'atom':
        return val(f[1])
    if f[0] == 'not':
        x = _tri(f[1], val)
        return None if x is None else (not x)
    a, b = _tri(f[1], val), _tri(f[2], val)
    if f[0] == 'and':
        if a is False or b is False:
            return False
        return True if a is True and b is True else None
    if a is True or b is True:
        return True
    return False if a is False and b is False else None


def _disjuncts(f):
    if f[0] == 'or':
        return _disjuncts(f[1]) + _disjuncts(f[2])
    return [f]


def _input_shape(fn, e):
    """E = x | x / N | x % N | x - x % N  (N a positive constant; x not a static): 0 is among its values whenever 0 <= x < N is"""
    s = _expand(fn, e)
    if s.k == 'BinaryOperator' and s.op in ('/', '%'):
        c = s.children[1].strip(casts=True).value
        return c is not None and c > 0
    if s.k == 'BinaryOperator' and s.op == '-':
        r = _expand(fn, s.children[1])
        return r.k == 'BinaryOperator' and r.op == '%' and q.same_expr(_expand(fn, r.children[0]), _expand(fn, s.children[0]))
    return s.k in ('DeclRefExpr', 'MemberExpr', 'CXXMemberCallExpr', 'CallExpr')


def memo_rule(ctx, fns, RID, what):
    """one obligation per function: no state is carried between calls, or the carried state is a one-entry cache of a decided idiom"""
    for fn in fns:
        ctx.saw(fn)
        inst = fn.q + '#state-between-calls'
        car = carried(fn)
        if not car:
            ctx.ok(RID, inst, fn.loc, '%s: no static or thread_local local carries a value from one call to the next (%d static local(s), all constant or stored before use)'
                   % (what, len([1 for st in fn.all_nodes() if st.k == 'DeclStmt' for dd, i in st.r.get('decls', []) if fn.tu.decls[dd].get('sc') == 'static_local'])))
            continue
        ids = {dd for (dd, d, t, init, ex) in car}
        names = {dd: d['n'] for (dd, d, t, init, ex) in car}
        # the refresh branch: the innermost IfStmt around every in-call store of a carried static
        ifs = {}
        for (dd, d, t, init, ex) in car:
            ws = _writes(fn, dd)
            if not ws:
                raise AnalysisBroken('%s: static `%s` is read but never stored in the function (%s)' % (fn.q, d['n'], fn.loc))
            for (n, kind, val) in ws:
                enc = [a for a in n.ancestors() if a.k == 'IfStmt']
                if not enc:
                    raise AnalysisBroken('%s: carried static `%s` stored unconditionally and read before the store: not a cache idiom (%s)' % (fn.q, d['n'], n.loc))
                ifs.setdefault(enc[0].i, []).append((dd, n, kind, val))
        if len(ifs) != 1:
            raise AnalysisBroken('%s: the carried statics %s are stored under %d different conditions: not a one-entry cache idiom' % (fn.q, sorted(names.values()), len(ifs)))
        (ifi, stores), = ifs.items()
        ifn = Node(fn, ifi)
        then = ifn.child('then')
        in_then = all(any(a == then for a in [n] + list(n.ancestors())) for (dd, n, kind, val) in stores)
        if not in_then or ifn.child('else') is not None:
            raise AnalysisBroken('%s: refresh of the carried statics is not the then-branch of an else-less if (%s)' % (fn.q, ifn.loc))
        missing = ids - {dd for (dd, n, kind, val) in stores}
        guard = q.bool_atoms(ifn.child('cond'))
        # ---- first call
        init_env = {}
        for (dd, d, t, init, ex) in car:
            if t['k'] in ('int', 'bool', 'enum', 'ptr'):
                v = 0
                if init >= 0:
                    v = Node(fn, init).strip(casts=True).value
                    if v is None:
                        v = q.eval_int(Node(fn, init), {})
                if v is not None:
                    init_env[dd] = v

        def val0(atom):
            if not any(x.k == 'DeclRefExpr' and x.declid in ids for x in atom.walk()):
                return None
            r = q.eval_int(atom, init_env)
            return None if r is None else bool(r)
        first = _tri(guard, val0)
        bad = None
        if first is not True:
            rest = [dj for dj in _disjuncts(guard) if _tri(dj, val0) is None]
            dec = False
            if len(rest) == 1 and rest[0][0] == 'atom':
                a = rest[0][1].strip(casts=True)
                if a.k == 'BinaryOperator' and a.op == '!=':
                    l, r = a.children
                    for (k, e) in ((l, r), (r, l)):
                        ks = k.strip(casts=True)
                        if ks.k == 'DeclRefExpr' and ks.declid in ids and init_env.get(ks.declid) == 0 and _input_shape(fn, e) and \
                                not any(x.k == 'DeclRefExpr' and x.declid in ids for x in _expand(fn, e).walk()):
                            bad = ('on the first call of a thread `%s` is still its initial 0, so an input with %s == 0 skips the refresh and the zero-initialised '
                                   'cache is used as if it had been computed (no validity flag, and 0 is a value of the key)' % (names[ks.declid], _expand(fn, e).text()))
                            dec = True
            if not dec and rest and all(dj[0] == 'atom' for dj in rest):
                # every undecided disjunct compares ONE input expression x with constants once the statics stand for their initial values: the refresh is
                # skipped exactly for the x that make all of them false.  Inputs are instants / counts: only x >= 0 is in the domain.
                envl = {dd_: q.Lin(v_) for dd_, v_ in init_env.items()}
                lo1, hi1, xs1, okform = -q.INF, q.INF, None, True
                for dj in rest:
                    a = dj[1].strip(casts=True)
                    if a.k != 'BinaryOperator' or a.op not in ('<', '>', '<=', '>='):
                        okform = False
                        break
                    dl = q.linear(a.children[0], env=envl, sym=lambda y: _expand(fn, y).text()) - q.linear(a.children[1], env=envl, sym=lambda y: _expand(fn, y).text())
                    if len(dl.t) != 1 or list(dl.t.values())[0] not in (1, -1):
                        okform = False
                        break
                    xn = list(dl.t)[0]
                    if xs1 is not None and xn != xs1:
                        okform = False
                        break
                    xs1 = xn
                    sgn = dl.t[xn]
                    op, c = (a.op, -dl.c) if sgn == 1 else ({'<': '>', '>': '<', '<=': '>=', '>=': '<='}[a.op], dl.c)
                    # the disjunct is FALSE:  not (x op c)
                    if op == '<':
                        lo1 = max(lo1, c)
                    elif op == '<=':
                        lo1 = max(lo1, c + 1)
                    elif op == '>':
                        hi1 = min(hi1, c)
                    elif op == '>=':
                        hi1 = min(hi1, c - 1)
                if okform and xs1 is not None:
                    dec = True
                    if max(lo1, 0) <= hi1:
                        bad = ('on the first call of a thread (statics at their initial values) the refresh is skipped for %s in [%s, %s], so the initial cache contents '
                               'are used as if they had been computed' % (xs1, max(lo1, 0), hi1))
            if not dec:
                raise AnalysisBroken('%s: refresh condition `%s` is not decided for the first call (statics at their initial values)' % (fn.q, ifn.child('cond').text()))
        # ---- staleness
        if bad is None:
            keys = [(dd, n, val) for (dd, n, kind, val) in stores if kind == 'assign' and val is not None and fn.tu.types[fn.tu.decls[dd]['t']]['k'] in ('int', 'enum')
                    and any(x.k == 'DeclRefExpr' and x.declid == dd for at in q.formula_atoms(guard) for x in at.walk())]
            if not keys:
                raise AnalysisBroken('%s: no key static (an integer stored in the refresh branch and tested in its condition) among %s' % (fn.q, sorted(names.values())))
            decided = False
            for (kd, kn, kval) in keys:
                kv = _expand(fn, kval)
                # equality idiom
                for dj in _disjuncts(guard):
                    if dj[0] != 'atom':
                        continue
                    a = dj[1].strip(casts=True)
                    if a.k == 'BinaryOperator' and a.op == '!=':
                        l, r = a.children
                        for (k, e) in ((l, r), (r, l)):
                            if q.refers_to_decl(k, kd) and q.same_expr(_expand(fn, e), kv):
                                decided = True
                if decided:
                    break
                # floor idiom  key = x - x % N
                if kv.k == 'BinaryOperator' and kv.op == '-':
                    x = _expand(fn, kv.children[0])
                    m = _expand(fn, kv.children[1])
                    N = m.children[1].strip(casts=True).value if (m.k == 'BinaryOperator' and m.op == '%') else None
                    if N and q.same_expr(_expand(fn, m.children[0]), x):
                        lo, hi = -q.INF, q.INF
                        xs = x.text()

                        def sym(y, _kd=kd, _xs=xs):
                            ye = _expand(fn, y)
                            if y.strip(casts=True).k == 'DeclRefExpr' and y.strip(casts=True).declid == _kd:
                                return 'K#'
                            return 'X#' if ye.text() == _xs else ye.text()
                        # a second carried static stored on refresh as key + c (`day_end = day_start + 86400`) stands for K# + c
                        envk = {}
                        for (dd2, n2, kind2, val2) in stores:
                            if dd2 != kd and kind2 == 'assign' and val2 is not None:
                                l2 = q.linear(val2, sym=sym)
                                if set(l2.t) == {'K#'} and l2.t['K#'] == 1:
                                    envk[dd2] = l2
                        for dj in _disjuncts(guard):
                            if dj[0] != 'atom':
                                continue
                            a = dj[1].strip(casts=True)
                            if a.k != 'BinaryOperator' or a.op not in ('<', '>', '<=', '>='):
                                continue
                            dl = q.linear(a.children[0], env=envk, sym=sym) - q.linear(a.children[1], env=envk, sym=sym)
                            if dl.t == {'X#': 1, 'K#': -1}:
                                op, c = a.op, -dl.c
                            elif dl.t == {'X#': -1, 'K#': 1}:
                                op, c = {'<': '>', '>': '<', '<=': '>=', '>=': '<='}[a.op], dl.c
                            else:
                                continue
                            # the disjunct is FALSE when the refresh is skipped:  not (x - key  op  c)
                            if op == '<':
                                lo = max(lo, c)
                            elif op == '<=':
                                lo = max(lo, c + 1)
                            elif op == '>':
                                hi = min(hi, c)
                            elif op == '>=':
                                hi = min(hi, c - 1)
                        decided = True
                        if lo < 0 or hi > N - 1:
                            bad = ('the refresh is skipped for %s - %s in [%s, %s], but the cached value is that of the bucket [%s, %s + %d): an input with %s - %s == %s is '
                                   'answered from the neighbouring bucket\'s cache' % (xs, names[kd], lo, hi, names[kd], names[kd], N, xs, names[kd], (hi if hi > N - 1 else lo)))
                        break
            if not decided:
                raise AnalysisBroken('%s: invalidation condition `%s` is not one of the decided cache idioms (key != E with key = E; key = x - x %% N with a range test)'
                                     % (fn.q, ifn.child('cond').text()))
        if bad is None and missing:
            bad = 'the carried static(s) %s are read but not stored in the refresh branch' % sorted(names[m] for m in missing)
        ctx.check(bad is None, RID, inst, ifn.loc,
                  '%s: one-entry cache in %s: the first call refreshes, a skipped refresh implies the key of the current input, every carried static is stored on refresh'
                  % (what, sorted(names.values())), bad)
