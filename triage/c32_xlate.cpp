// R32.1: character references are decoded more than once.
#include <fix8/f8includes.hpp>
#include <sstream>
using namespace FIX8;
int main()
{
    std::istringstream is("<a v1='&amp;lt;' v2='&amp;#65;' v3='&#38;#66;'/>");
    std::unique_ptr<XmlElement> root(XmlElement::Factory(is, "mem"));
    std::string v1, v2, v3;
    root->GetAttr("v1", v1); root->GetAttr("v2", v2); root->GetAttr("v3", v3);
    std::cout << "v1=[" << v1 << "] v2=[" << v2 << "] v3=[" << v3 << "]" << std::endl;
    bool ok = v1 == "&lt;" && v2 == "&#65;" && v3 == "&#66;";
    std::cout << (ok ? "HOLDS" : "DEFECT: references decoded twice") << std::endl;
    return ok ? 0 : 1;
}
