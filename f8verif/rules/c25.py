"""C25 — concurrent senders get unique consecutive sequence numbers."""
from ..facts import Program, AnalysisBroken
from .. import q
from . import c17

CLAIM = {
    'text': 'Lock-scope / who-may-call rules: Session::send_process (which assigns, persists and increments the send counter and owns '
            'the batch buffer) is called only from a frozen set of FIXWriter functions; in the non-pipelined models every such call lies '
            'inside the live range of an unconditional scoped guard on FIXWriter::_con_spl and is unreachable when the model is '
            'pipelined; in the pipelined model the only caller is the single writer thread FIXWriter::execute, fed through the queue; '
            'the batch buffer is touched nowhere else; every call through Session::_persist lies inside a guard on Session::_per_spl '
            'whose only disabling condition is the coroutine model, except one listed, reasoned exemption.',
    'note': 'Trusted: clang CFG and implicit-destructor placement (guard live ranges), extractor, the frozen caller/exemption tables. '
            'Undecided: interleavings, fairness of the spin lock, atomicity of counter updates from the reader thread.',
    'technique': 'who-may-call + RAII guard live-range (lock held) analysis over the clang CFG with implicit destructors; must-pass-through / forward dataflow on the writer queue\'s sub-queue push',
}
UNITS = ['runtime/connection.cpp', 'runtime/session.cpp']
EXPLANATION = (
    "Decided: R25.1 callers of Session::send_process = {FIXWriter::write(Message*,bool), write(Message&), write_batch, execute}; in the "
    "first three each call is inside a `f8_scoped_spin_lock guard(_con_spl)` (one-argument, i.e. unconditional) and cannot be reached "
    "with _pmodel == pm_pipeline; pipelined writes go to _msg_queue.try_push; execute() pops one message per iteration and is the queue's "
    "only consumer; R25.2 Session::_batchmsgs_buffer is referenced only in send_process; each `_persist->…` call is inside a guard on "
    "_per_spl (disabled only for pm_coro), exemption: handle_resend_request's `_persist->get` (taking the lock there self-deadlocks "
    "through retrans_callback → send → send_process). R25.4 the bytes stored under a number derive only from that message's encoder output and the store sits before the counter update (rules of C17). R25.5 the queue the pipelined writer hands messages through neither refuses nor loses an element (growable sub-queues, stored-before-true, segments registered: rules R30.6-R30.8 of C30). NOT decided: any interleaving.")

S = 'FIX8::Session::'
W = 'FIX8::FIXWriter::'
CALLERS = {W + 'write', W + 'write_batch', W + 'execute'}
# `_persist->X` call sites that are allowed outside a _per_spl guard: (function, callee name) -> reason
PERSIST_EXEMPT = {
    (S + 'handle_resend_request', 'get'): 'range get calls back into send()/send_process which takes _per_spl itself; the code notes the '
                                          'self-deadlock ("no no nanette!"). In the pipelined model this read is not serialised with the '
                                          'writer thread\'s put — suspected race, not reproduced, listed so that any other unguarded use is reported.',
}


def lock_rule(ctx, prog, RID):
    """every call of Session::send_process outside the writer thread holds FIXWriter::_con_spl through an unconditional scoped guard (whatever the process
    model: in the coroutine model the timer thread's heartbeat still sends)"""
    found = {}
    for f in prog.all_functions():
        for c in f.calls_to(S + 'send_process'):
            found.setdefault(f.qp, []).append((f, c))
    ctx.need(len(found) >= 3, 'fewer than 3 functions call Session::send_process')
    for fq, sites in sorted(found.items()):
        ctx.check(fq in CALLERS, RID, fq + '#caller', sites[0][1].loc, fq + ' is a listed caller of Session::send_process',
                  'new caller of Session::send_process: %s — outside the connection writer\'s locking discipline' % fq)
        if fq not in CALLERS or fq == W + 'execute':
            continue
        for (f, c) in sites:
            ctx.saw(f)
            cfg = f.cfg
            gr = q.guard_ranges(f, lock_member_qp=W + '_con_spl')
            cv = cfg.vertex_of(c)
            held = [g for g in gr if cv in g[3]]
            uncond = [g for g in held if g[4].is_call and len([a for a in g[4].args if a.k != 'CXXDefaultArgExpr']) == 1]
            ctx.check(bool(uncond), RID, '%s/%d#locked@%d' % (fq, len(f.param_ids), sites.index((f, c))), c.loc,
                      'send_process is called with FIXWriter::_con_spl held (unconditional scoped guard)',
                      'send_process is called without the connection spin lock held unconditionally (%s): two threads - an application sender and the heartbeat timer - can '
                      'be inside send_process together and use the same MsgSeqNum' % ('guard is disabled by its second argument `%s`' % held[0][4].args[1].text()
                                                                                       if held and len(held[0][4].args) > 1 else 'no guard'))


def run(ctx):
    prog = Program(UNITS)
    ctx.units.update(UNITS)
    pm = dict(prog.enum('FIX8::ProcessModel')['e'])

    # ---------------- R25.1
    found = {}
    for f in prog.all_functions():
        for c in f.calls_to(S + 'send_process'):
            found.setdefault(f.qp, []).append((f, c))
    ctx.need(len(found) >= 3, 'fewer than 3 functions call Session::send_process')
    for fq, sites in sorted(found.items()):
        ctx.check(fq in CALLERS, 'R25.1', fq + '#caller', sites[0][1].loc, fq + ' is a listed caller of Session::send_process',
                  'new caller of Session::send_process: %s — outside the connection writer\'s locking discipline' % fq)
        if fq not in CALLERS or fq == W + 'execute':
            continue
        for (f, c) in sites:
            ctx.saw(f)
            cfg = f.cfg
            gr = q.guard_ranges(f, lock_member_qp=W + '_con_spl')
            cv = cfg.vertex_of(c)
            held = [g for g in gr if cv in g[3]]
            uncond = [g for g in held if g[4].is_call and len([a for a in g[4].args if a.k != 'CXXDefaultArgExpr']) == 1]
            ctx.check(bool(uncond), 'R25.1', '%s/%d#locked@%d' % (fq, len(f.param_ids), sites.index((f, c))), c.loc,
                      'send_process is called with FIXWriter::_con_spl held (unconditional scoped guard)',
                      'send_process is called without the connection spin lock held')
            def pipelined(v, w, lab, _cfg=cfg):
                if lab is None or not isinstance(lab[1], bool):
                    return True
                a, pol = q.polar(_cfg.cond_node(lab[0]), lab[1])
                s = a.strip(casts=True)
                if s.k == 'BinaryOperator' and s.op in ('==', '!=') and q.reads_member(s, 'FIX8::AsyncSocket::_pmodel') and \
                        s.children[1].strip(casts=True).value == pm['pm_pipeline']:
                    return ((s.op == '==') == pol)
                return True
            reach = cfg.reach_from(cfg.entry, edge_ok=pipelined)
            ctx.check(cv not in reach, 'R25.1', '%s/%d#not-when-pipelined@%d' % (fq, len(f.param_ids), sites.index((f, c))), c.loc,
                      'in the pipelined model the calling thread never runs send_process itself',
                      'send_process is reachable from an application thread while the pipelined writer thread also runs it')
    # pipelined path: push to the queue
    for f in prog.fns(W + 'write') + prog.fns(W + 'write_batch'):
        pushes = [c for c in f.calls() if c.callee is not None and c.callee.get('n') == 'try_push']
        if f.qp == W + 'write' and len(f.param_ids) == 1:
            continue
        ctx.check(len(pushes) == 1 and q.refers_to_member(pushes[0].obj, 'FIX8::AsyncSocket::_msg_queue'), 'R25.1',
                  '%s/%d#pipeline.queue' % (f.qp, len(f.param_ids)), f.loc, 'pipelined sends are handed to the writer queue')
    ex = prog.fn1(W + 'execute')
    ctx.saw(ex)
    pops = [c for c in ex.calls() if c.callee is not None and c.callee.get('n') in ('pop', 'try_pop') and c.obj is not None and
            q.refers_to_member(c.obj, 'FIX8::AsyncSocket::_msg_queue')]
    sp = ex.calls_to(S + 'send_process')
    def from_pop(n, depth=0):
        for x in n.walk():
            if x.k == 'DeclRefExpr' and x.decl and x.decl.get('sc') == 'local':
                for (dn, kind, val) in q.local_defs(ex, x.declid):
                    if kind == 'out' and dn == pops[0]:
                        return True
                    if kind == 'init' and val is not None and depth < 4 and from_pop(val, depth + 1):
                        return True
        return False
    ctx.check(len(pops) == 1 and len(sp) == 1 and ex.cfg.dominates(ex.cfg.vertex_of(pops[0]), ex.cfg.vertex_of(sp[0])) and from_pop(sp[0].args[0]),
              'R25.1', W + 'execute#one-pop-one-send', ex.loc, 'the writer thread sends exactly the message it popped, one per iteration')
    consumers = [f.qp for f in prog.all_functions() for c in f.calls()
                 if c.callee is not None and c.callee.get('n') in ('pop', 'try_pop') and c.obj is not None and
                 q.refers_to_member(c.obj, 'FIX8::AsyncSocket::_msg_queue') and f.recp == 'FIX8::FIXWriter']
    ctx.check(set(consumers) == {W + 'execute'}, 'R25.1', W + '_msg_queue#single-consumer', ex.loc, 'FIXWriter::execute is the only consumer of the writer queue')

    # ---------------- R25.2
    users = {}
    for f in prog.all_functions():
        refs = q.member_refs(f, S + '_batchmsgs_buffer')
        if refs and f.kind != 'ctor':
            users[f.qp] = refs
    for fq, refs in users.items():
        ctx.check(fq == S + 'send_process', 'R25.2', fq + '#batchbuffer', refs[0].loc, 'the batch buffer is private to send_process',
                  '%s touches Session::_batchmsgs_buffer outside send_process' % fq)
    ctx.need(S + 'send_process' in users, 'send_process does not use _batchmsgs_buffer')
    n_p = 0
    for f in prog.all_functions():
        calls = [c for c in f.calls() if c.k == 'CXXMemberCallExpr' and c.obj is not None and q.refers_to_member(c.obj, S + '_persist')]
        if not calls:
            continue
        ctx.saw(f)
        cfg = f.cfg
        gr = q.guard_ranges(f, lock_member_qp=S + '_per_spl')
        for c in calls:
            n_p += 1
            name = c.callee.get('n') if c.callee else '?'
            key = '%s#persist.%s@%d' % (f.qp, name, [x for x in calls if (x.callee or {}).get('n') == name].index(c))
            if (f.qp, name) in PERSIST_EXEMPT:
                ctx.ok('R25.2', key + '.exempt', c.loc, 'exempt: ' + PERSIST_EXEMPT[(f.qp, name)])
                continue
            cv = cfg.vertex_of(c)
            held = [g for g in gr if cv in g[3]]
            good = False
            for g in held:
                args = [a for a in g[4].args if a.k != 'CXXDefaultArgExpr']
                if len(args) == 1:
                    good = True
                elif len(args) == 2:
                    dis = args[1]
                    coro = [x for x in dis.walk() if x.k == 'BinaryOperator' and x.op == '==' and x.children[1].strip(casts=True).value == pm['pm_coro'] and
                            any(y.is_call and y.callee_qp == 'FIX8::Connection::get_pmodel' for y in x.children[0].walk())]
                    others = [x for x in dis.walk() if x.k == 'BinaryOperator' and x.op in ('==', '!=', '||') and x not in coro]
                    good = bool(coro) and not [x for x in others if x.op == '||']
            ctx.check(good, 'R25.2', key, c.loc, '`_persist->%s` runs with Session::_per_spl held (disabled only for the coroutine model)' % name,
                      '`_persist->%s` in %s is not inside a guard on _per_spl (or the guard can be disabled outside the coroutine model)' % (name, f.qp))
    ctx.need(n_p >= 6, 'fewer than 6 `_persist->` call sites found (%d)' % n_p)
    # assignments to _persist (creation/deletion) also under the lock, outside constructors
    for f in prog.all_functions():
        if f.kind == 'ctor' or f.qp == S + 'set_persister':
            continue
        for (w, m) in q.member_writes(f, S + '_persist'):
            cfg = f.cfg
            gr = q.guard_ranges(f, lock_member_qp=S + '_per_spl')
            ctx.check(any(cfg.vertex_of(w) in g[3] for g in gr), 'R25.2', f.qp + '#persist.assign', w.loc,
                      'the persister pointer is replaced only with _per_spl held')
    # R25.4 'the stored copy under each number is the transmitted message': provenance and placement of the store (rules of C17)
    c17.rules(ctx, prog, 'R25.4', 'R25.4')
    # ---------------- R25.5 the pipelined writer hands messages to its thread through f8_concurrent_queue<Message*>, i.e. ff::uMPMC_Ptr_Queue over growable
    # single-producer sub-queues: a sub-queue that refuses or loses an element loses a message that already has its sequence number (C30's R30.6-R30.8)
    from .c30 import subqueue_rules
    subqueue_rules(ctx, prog, 'R25.5')
    ctx.floor('R25.5', 3)
    ctx.floor('R25.4', 6)
    ctx.floor('R25.1', 10)
    ctx.floor('R25.2', 8)
