// R19.5: a too-low sequence number without PossDupFlag in an established session must end it with a Logout.
#include "sess.hpp"
int main()
{
    Fix f; f.logon();
    f.ss->process(f.order(f.rseq++));      // 2: in sequence
    f.out();
    f.ss->process(f.order(1));             // too low, no PossDup
    auto o = f.out();
    bool logout = false;
    for (auto s : o) { if (s.find("\00135=5\001") != std::string::npos) logout = true; for (auto& c : s) if (c == 1) c = '|'; std::cout << "out: " << s << std::endl; }
    std::cout << "delivered=" << f.ss->delivered << " state=" << f.ss->getState() << " logout_sent=" << logout << std::endl;
    bool ok = logout && f.ss->delivered == 1;
    std::cout << (ok ? "HOLDS" : "DEFECT: session ended without a Logout") << std::endl;
    return ok ? 0 : 1;
}
