// R01.4: a float field decoded from text with more fraction digits than FIX8_DEFAULT_PRECISION must re-encode identically.
#include <fix8/f8includes.hpp>
#include "utest_types.hpp"
#include "utest_router.hpp"
#include "utest_classes.hpp"
using namespace FIX8; using namespace FIX8::UTEST;
int main()
{
    bool ok = true;
    for (const char *txt : {"1.2345", "400.5", "0.000125", "12.0", "-3.75", "99.123456789"})
    {
        Price p(txt); char buf[64]; buf[p.print(buf)] = 0;
        std::cout << txt << " -> " << buf << std::endl;
        if (f8String(buf) != txt) ok = false;
    }
    std::cout << (ok ? "HOLDS" : "DEFECT: decoded float does not re-encode to the same text") << std::endl;
    return ok ? 0 : 1;
}
