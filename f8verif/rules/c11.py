"""C11 — cloning and field transfer preserve message content."""
from ..facts import Program, AnalysisBroken, WITNESS_FIELDS
from .. import q

CLAIM = {
    'text': 'Copy-completeness and path rules: every user-written copy constructor of the Field<T,N> value types initialises each data member '
            'of the class from the same member of its argument, and copy() returns a new object copy-constructed from *this; '
            'Message::clone creates a deep instance and calls copy_legal for body, header and trailer without force on its only path; '
            'copy_legal copies a present repeating group element by element (recursively) before the count field and counts each field; '
            'move_legal transfers the group and field pointers, nulls the source slots and clears the source position index; both use '
            'the same field-selection predicate.',
    'note': 'Trusted: clang CFG, extractor. Informational (not failed): realm pointers and the permissive-mode pass-through buffer are not '
            'copied. Undecided: equality of encodings for concrete messages.',
    'technique': 'copy-constructor member coverage (initialiser lists), must-pass-through, sibling predicate agreement',
}
UNITS = ['runtime/message.cpp', WITNESS_FIELDS]
EXPLANATION = (
    "Decided: R11.1 per instantiated Field<T,N>: copy constructor member-initialisers cover all data members with `from.member`, copy() "
    "is `new Field(*this)`; R11.2 clone(): _create._do(true) then copy_legal(msg), _header->copy_legal(msg->_header), "
    "_trailer->copy_legal(msg->_trailer), all with force=false, on every path; copy_legal: group loop (create_group(true), recursive "
    "copy_legal, append) dominates the count field's copy; move_legal: source group slot and field slot := nullptr after the transfer, "
    "clear_positions() on every path; R11.3 copy_legal and move_legal test the same selection predicate. R11.4 add_field(BaseField*) refuses a field only when has() is false, never on its position. R11.5 the present bit of a tag is set only after a field object was stored into the same object's _fields (the transfer primitives branch on it). NOT decided: byte equality.")

MB = 'FIX8::MessageBase::'


def run(ctx):
    prog = Program(UNITS)
    ctx.units.update(UNITS)
    # ---------------- R11.1
    n_cc = 0
    recs = {}
    for t in prog.tus:
        for r in t.records:
            if r['q'].startswith('FIX8::Field<') and r.get('tmpl') == 'inst':
                recs[r['q']] = (t, r)
    ctx.need(len(recs) >= 12, 'fewer than 12 instantiated Field<T,N> records (%d)' % len(recs))
    for rq, (t, r) in sorted(recs.items()):
        fields = [x['n'] for x in r['fields']]
        ccs = [f for f in prog.all_functions() if f.kind == 'ctor' and f.rec == rq and len(f.param_ids) == 1 and
               f.tu.types[f.params[0]['t']].get('k') == 'ref' and f.tu.types[f.tu.types[f.params[0]['t']]['pointee']].get('rec') == rq]
        cps = [f for f in prog.all_functions() if f.rec == rq and f.qp == 'FIX8::Field::copy']
        if ccs:
            cc = ccs[0]
            ctx.saw(cc)
            n_cc += 1
            covered = set()
            for (m, e, it) in cc.inits:
                if m is not None and it.get('written'):
                    src = [x for x in e.walk() if x.k == 'MemberExpr' and x.decl['n'] == m['n'] and any(q.refers_to_decl(y, cc.param_ids[0]) for y in x.walk() if y.k == 'DeclRefExpr')]
                    if src:
                        covered.add(m['n'])
            # assignments in the body also count
            for f_ in fields:
                for (w, mm) in q.member_writes(cc, rq.split('<')[0] + '::' + f_):
                    covered.add(f_)
            missing = [x for x in fields if x not in covered]
            ctx.check(not missing, 'R11.1', rq + '#copy-ctor', cc.loc, 'copy constructor copies every data member %s' % fields,
                      'copy constructor of %s does not copy member(s) %s: a copied field loses part of its value' % (rq, missing))
        for cp in cps[:1]:
            ctx.saw(cp)
            news = [n for n in cp.all_nodes() if n.k == 'CXXNewExpr']
            ok = len(news) == 1 and news[0].child('init') is not None and any(x.k == 'CXXThisExpr' for x in news[0].child('init').walk()) and \
                cp.tu.types[news[0].r['alloc']].get('rec') == rq
            ctx.check(ok, 'R11.1', rq + '#copy()', cp.loc, 'copy() returns a new field copy-constructed from *this')
    ctx.need(n_cc >= 7, 'fewer than 7 user-written Field copy constructors found (%d)' % n_cc)

    # ---------------- R11.2 clone
    cl = prog.fn1('FIX8::Message::clone')
    ctx.saw(cl)
    ccfg = cl.cfg
    cps = cl.calls_to(MB + 'copy_legal')
    ctx.need(len(cps) == 3, 'clone(): expected three copy_legal calls')
    def part(c):
        if c.obj is None or c.obj.strip(casts=True).k == 'CXXThisExpr':
            return 'body'
        return 'header' if q.reads_member(c.obj, 'FIX8::Message::_header') else 'trailer' if q.reads_member(c.obj, 'FIX8::Message::_trailer') else '?'
    parts = {part(c): c for c in cps}
    ctx.check(set(parts) == {'body', 'header', 'trailer'}, 'R11.2', 'FIX8::Message::clone#three-parts', cl.loc, 'body, header and trailer are each copied')
    for nm, c in parts.items():
        forced = c.args[1].strip(casts=True).value if len(c.args) > 1 else None
        if len(c.args) > 1 and c.args[1].k == 'CXXDefaultArgExpr':
            forced = c.args[1].children[-1].strip(casts=True).value if c.args[1].children else 0
        tgt_ok = (nm == 'body' and c.args[0].strip(casts=True).k == 'DeclRefExpr') or \
                 (nm != 'body' and q.reads_member(c.args[0], 'FIX8::Message::_' + nm))
        ctx.check(forced == 0 and tgt_ok and q.escape_path(ccfg, [ccfg.entry], {ccfg.vertex_of(c)}) is None, 'R11.2', 'FIX8::Message::clone#%s' % nm, c.loc,
                  '%s: copy_legal(into the clone\'s %s, force=false) on every path' % (nm, nm))
    mk = [n for n in cl.all_nodes() if n.is_call and n.k != 'CXXConstructExpr' and
          any(x.strip(casts=True).k == 'MemberExpr' and x.strip(casts=True).decl['n'] == '_do' for x in ([n.obj] if n.obj is not None else []) + n.children[:1])]
    ctx.check(len(mk) == 1 and mk[0].args and mk[0].args[0].strip(casts=True).value == 1, 'R11.2', 'FIX8::Message::clone#deep', cl.loc,
              'the clone is created deep (with header, trailer and group containers)')
    # copy_legal
    cp = prog.fn1(MB + 'copy_legal')
    ctx.saw(cp)
    pc = cp.cfg
    fcopy = [c for c in cp.calls() if c.callee_qp == 'FIX8::BaseField::copy']
    rec = [c for c in cp.calls_to(MB + 'copy_legal')]
    mkg = [c for c in cp.calls() if c.callee is not None and c.callee.get('n') == 'create_group']
    app = [c for c in cp.calls() if c.callee is not None and c.r.get('op') in ('+=', '<<') and c.callee.get('rec', '').endswith('GroupBase')]
    ctx.need(len(fcopy) == 1 and len(rec) == 1 and len(mkg) == 1, 'copy_legal: field copy / recursion / create_group not found')
    ctx.check(mkg[0].args and mkg[0].args[0].strip(casts=True).value == 1 and pc.dominates(pc.vertex_of(mkg[0]), pc.vertex_of(rec[0])) and
              q.refers_to_decl(rec[0].args[0], [d for n in cp.all_nodes() if n.k == 'DeclStmt' for d, i in n.r['decls'] if i >= 0 and mkg[0] in list(cp.node(i).walk())][0]),
              'R11.2', MB + 'copy_legal#group-element', rec[0].loc, 'each group element is copied into a freshly created deep element')
    ctx.check(len(app) >= 1 and pc.dominates(pc.vertex_of(rec[0]), pc.vertex_of(app[0])), 'R11.2', MB + 'copy_legal#group-append', rec[0].loc,
              'the copied element is appended to the target group')
    # group loop before the count field copy: no path from the field copy back into this iteration's group loop
    loopv = pc.vertex_of(rec[0])
    fv = pc.vertex_of(fcopy[0])
    ctx.check(fv in pc.reach_from(loopv), 'R11.2', MB + 'copy_legal#group-then-count', fcopy[0].loc, 'the group elements are copied before the count field')
    addf = [c for c in cp.calls() if c.callee_qp == MB + 'add_field' or (c.callee is not None and c.callee.get('n') == 'replace')]
    newf = [d for n in cp.all_nodes() if n.k == 'DeclStmt' for d, i in n.r['decls'] if i >= 0 and fcopy[0] in list(cp.node(i).walk())]
    ctx.check(newf and all(any(q.refers_to_decl(a, newf[0]) for a in c.args) for c in addf) and len(addf) == 2 and
              q.escape_path(pc, [fv], q.verts(pc, addf), exit_kinds=('return', 'falloff')) is None or
              (newf and pc.path(fv, lambda x: x == pc.vertex_of([n for n in cp.all_nodes() if n.k == 'UnaryOperator' and n.op == '++'][0]), avoid=q.verts(pc, addf)) is None),
              'R11.2', MB + 'copy_legal#store-copy', fcopy[0].loc, 'the copy is stored in the target (added or replacing) before it is counted')
    # move_legal
    mv = prog.fn1(MB + 'move_legal')
    ctx.saw(mv)
    mc = mv.cfg
    nulls = [n for n in mv.all_nodes() if n.k == 'BinaryOperator' and n.op == '=' and n.children[1].strip(casts=True).k == 'CXXNullPtrLiteralExpr' and
             n.children[0].strip(casts=True).k == 'MemberExpr' and n.children[0].strip(casts=True).decl['n'] == 'second']
    xfer = [c for c in mv.calls() if c.callee_qp == MB + 'add_field' or (c.callee is not None and c.callee.get('n') == 'replace') or
            (c.callee is not None and c.r.get('op') == '+=')]
    ctx.check(len(nulls) == 2 and len(xfer) == 4, 'R11.2', MB + 'move_legal#shape', mv.loc, 'group pointer and field pointer are each transferred (add or replace) and the source slot nulled')
    for nl in nulls:
        before = [c for c in xfer if mc.vertex_of(nl) in mc.reach_from(mc.vertex_of(c))]
        ctx.check(len(before) >= 2, 'R11.2', MB + 'move_legal#null-after-transfer@%d' % nl.line, nl.loc, 'the source slot is nulled only after the pointer was handed to the target')
    clr = mv.calls_to(MB + 'clear_positions')
    ctx.check(len(clr) == 1 and q.escape_path(mc, [mc.entry], {mc.vertex_of(clr[0])}) is None, 'R11.2', MB + 'move_legal#clear-positions', mv.loc,
              'the source position index is cleared on every path')
    # ---------------- R11.3 same predicate, as a truth table: under which valuations of (source field present, force, target has the tag, target already
    # holds a value) is the transfer reached?  Decided from the flow graph of each function (whatever the condition is written as: one `if`, early
    # `continue`s, a predicate helper), compared between the two functions and with the stated selection P && (F || (H && !G)).
    def classify(a, fn):
        s_ = a.strip(casts=True)
        if s_.k == 'DeclRefExpr' and s_.decl is not None and s_.decl.get('sc') == 'param' and (s_.type or {}).get('k') == 'bool':
            return 'F'
        names = {x.decl.get('n') for x in s_.walk() if x.k == 'DeclRefExpr' and x.decl is not None}
        if ((s_.k == 'BinaryOperator' and s_.op == '&') or (s_.k == 'CXXOperatorCallExpr' and s_.r.get('op') == '&')) and 'present' in names:
            return 'P'
        if s_.is_call and s_.callee_qp == 'FIX8::FieldTraits::has':
            return 'H'
        if s_.is_call and s_.callee_qp == 'FIX8::FieldTraits::get' and len([x for x in s_.args if x.k != 'CXXDefaultArgExpr']) == 1:
            return 'G'
        return None

    def atom_value(a, fn, v, depth=0):
        """truth of a branch atom under valuation v, None when the atom is not part of the selection"""
        k = classify(a, fn)
        if k is not None:
            return v[k]
        s_ = a.strip(casts=True)
        if depth < 2 and s_.is_call and s_.callee_qp and not s_.callee_qp.startswith('FIX8::FieldTraits::'):
            for h in prog.fns(s_.callee_qp):
                rr = [x for x in h.all_nodes() if x.k == 'ReturnStmt' and x.children]
                if h.tu is fn.tu and len(rr) == 1 and any(classify(x, h) for x in rr[0].walk()):
                    r_ = q.eval_int(rr[0].children[0], {}, atom=lambda n_, _h=h: (lambda kk: None if kk is None else int(v[kk]))(classify(n_, _h)))
                    if r_ is None:
                        raise AnalysisBroken('selection helper %s: return expression not evaluated' % h.q)
                    ctx.saw(h)
                    return bool(r_)
        return None

    def table(fn, sites):
        cfg_ = fn.cfg
        tv = q.verts(cfg_, sites)
        rows = {}
        import itertools as _it
        for bits in _it.product((False, True), repeat=4):
            v = dict(zip('PFHG', bits))

            def eo(v_, w_, lab, _v=v):
                if lab is None or not isinstance(lab[1], bool):
                    return True
                cn = cfg_.cond_node(lab[0])
                if cn is None:
                    return True
                a_, pol_ = q.polar(cn, lab[1])
                # the three-argument get() of the replace-or-add decision sits behind the selection: not an atom of it
                val = atom_value(a_, fn, _v)
                return True if val is None else (val == pol_)
            rows[bits] = bool(cfg_.reach_from(cfg_.entry, edge_ok=eo) & tv)
        return rows
    mv_sites = [c for c in mv.calls() if c.callee_qp == MB + 'add_field' or (c.callee is not None and c.callee.get('n') == 'replace')]
    tcopy, tmove = table(cp, fcopy), table(mv, mv_sites)
    spec = {bits: (bits[0] and (bits[1] or (bits[2] and not bits[3]))) for bits in tcopy}
    diff = [b for b in tcopy if tcopy[b] != tmove[b]]
    offspec = [b for b in tcopy if tcopy[b] != spec[b]]
    show = lambda b: 'present=%s force=%s target-has=%s target-set=%s' % b
    ctx.check(not diff, 'R11.3', MB + 'copy_legal|move_legal#predicate', cp.loc,
              'copy_legal and move_legal transfer a field under the same 16-row truth table of (present, force, target has, target set)',
              'selection differs: for %s copy_legal %s the field and move_legal %s it' % (show(diff[0]) if diff else '', 'copies' if diff and tcopy[diff[0]] else 'skips',
                                                                                     'moves' if diff and tmove[diff[0]] else 'skips'))
    ctx.check(not offspec, 'R11.3', MB + 'copy_legal#selection', cp.loc,
              'a field is transferred exactly when it is present and (force, or the target knows the tag and holds no value for it)',
              'for %s copy_legal %s the field' % (show(offspec[0]) if offspec else '', 'copies' if offspec and tcopy[offspec[0]] else 'skips'))
    # ---------------- R11.4 the field transfer primitive accepts every LEGAL field: legality is membership in the trait table, not a position
    # (the position-less user fields of a schema built with -F are legal and have position 0)
    afs = [g for g in prog.fns(MB + 'add_field') if len(g.param_ids) == 1 and 'BaseField *' in g.sig]
    ctx.need(len(afs) == 1, 'MessageBase::add_field(BaseField*) not found')
    af = afs[0]
    ctx.saw(af)
    thr = [n for n in af.all_nodes() if n.k == 'CXXThrowExpr' and af.cfg.has_vertex(n)]
    ctx.need(thr, 'add_field(BaseField*): InvalidField throw not found')
    pos_dep = None
    has_gate = False
    for t in thr:
        for a, pol in q.controlling_atoms(af, t):
            if any(x.is_call and x.callee is not None and x.callee.get('n') == 'has' for x in a.walk()) and pol is False:
                has_gate = True
            reads_pos = any(x.is_call and x.callee is not None and x.callee.get('n') == 'getPos' for x in a.walk())
            for x in a.walk():
                if x.k == 'DeclRefExpr' and x.decl and x.decl.get('sc') == 'local':
                    for (dn, kind, val) in q.local_defs(af, x.declid):
                        if val is not None and any(y.is_call and y.callee is not None and y.callee.get('n') == 'getPos' for y in val.walk()):
                            reads_pos = True
            if reads_pos:
                pos_dep = a
    ctx.check(has_gate and pos_dep is None, 'R11.4', MB + 'add_field/BaseField*#legal-by-membership', thr[0].loc,
              'a field is refused only when the trait table does not contain it (has() false)',
              'add_field(BaseField*) refuses a field on `%s`: getPos() is 0 for a legal field without a position (the -F user fields 9991/9999), so clone, copy_legal and '
              'move_legal of a message carrying one throw InvalidField' % (pos_dep.text() if pos_dep is not None else 'a test other than has()'))
    # ---------------- R11.5 "present" means "a field object for this tag is in _fields": the transfer primitives (add_field, replace) decide between adding and
    # replacing on that bit.  Every place of MessageBase that sets the bit has, on the way there, stored a field into the same object's _fields (insert/emplace,
    # `it->second = f` on an iterator into it, or add_field).  A setter that only touches _groups makes the next add_field take the replace branch, find nothing to
    # replace, and drop the field (the NoXXX count of a moved group).
    RAW_SETTERS = {MB + 'set': 'the public raw trait setter (hands any trait bit through; not a transfer primitive)'}
    n_set = 0
    for g in prog.all_functions():
        if not (g.qp or '').startswith(MB) or 'cfg' not in g.raw or g.tmpl == 'pattern':
            continue
        gcfg = g.cfg
        for c in g.calls():
            if c.callee_qp != 'FIX8::FieldTraits::set' or c.obj is None or not gcfg.has_vertex(c):
                continue
            if not any(x.k == 'MemberExpr' and x.decl.get('n') == '_fp' for x in c.obj.walk()):
                continue
            last = c.args[-1].strip(casts=True) if c.args else None
            if last is None or not any(x.k == 'DeclRefExpr' and x.decl is not None and x.decl.get('n') == 'present' for x in last.walk()):
                continue
            if g.qp in RAW_SETTERS:
                continue
            fpm = [x for x in c.obj.walk() if x.k == 'MemberExpr' and x.decl.get('n') == '_fp'][0]
            base = fpm.children[0].strip(casts=True).text() if fpm.children else 'this'
            n_set += 1
            cv = gcfg.vertex_of(c)

            def same_base(n_):
                ms = [x for x in n_.walk() if x.k == 'MemberExpr' and x.decl.get('n') == '_fields']
                return any((m_.children[0].strip(casts=True).text() if m_.children else 'this') == base for m_ in ms)
            stores = []
            for d in g.calls():
                if not gcfg.has_vertex(d):
                    continue
                nm = d.callee.get('n') if d.callee is not None else None
                if nm in ('insert', 'emplace', 'emplace_hint') and d.obj is not None and same_base(d.obj):
                    stores.append(d)
                if nm == 'add_field' and ((d.obj is None and base == 'this') or (d.obj is not None and d.obj.strip(casts=True).text() == base)):
                    stores.append(d)
            for w in g.all_nodes():
                if w.k == 'BinaryOperator' and w.op == '=' and gcfg.has_vertex(w):
                    l = w.children[0].strip(casts=True)
                    if l.k == 'MemberExpr' and l.decl.get('n') == 'second':
                        its = [x for x in l.walk() if x.k == 'DeclRefExpr' and x.decl is not None and x.decl.get('sc') == 'local']
                        for it in its:
                            for (dn, kind, val) in q.local_defs(g, it.declid):
                                if val is not None and any(y.is_call and y.callee is not None and y.callee.get('n') == 'find' and y.obj is not None and same_base(y.obj) for y in val.walk()):
                                    stores.append(w)
            ok = any(gcfg.dominates(gcfg.vertex_of(st_), cv) for st_ in stores)
            ctx.check(ok, 'R11.5', g.qp + '#present-means-stored@%d' % c.line, c.loc,
                      'the present bit is set only after a field was stored into the same object\'s _fields',
                      '`%s` sets the present bit of a tag without storing a field for it (%s touches no _fields entry on the way): the next add_field for that tag '
                      'takes its replace-duplicate branch, finds nothing to replace and drops the field — a moved repeating group loses its count field and is not '
                      'encoded' % (c.text()[:70], g.qp))
    ctx.need(n_set >= 5, 'fewer than 5 sites setting the present bit found in MessageBase (%d)' % n_set)
    ctx.floor('R11.5', 5)
    ctx.floor('R11.4', 1)
    ctx.floor('R11.1', 16)
    ctx.floor('R11.2', 10)
