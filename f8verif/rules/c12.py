"""C12 — metadata lookup tables behave as exact maps."""
import os
from ..facts import Program, AnalysisBroken, VERIF
from .. import q, tv, gen
from . import c10

CLAIM = {
    'text': 'Exact-map preconditions: (translation validation) every generated message table, field table and field-trait array is strictly '
            'sorted under the comparison its lookup uses, every hash array is built over its own table with the table\'s length, counts '
            'passed to constructors equal table lengths; a lookup reports a hit only when the element found equals the key (binary search '
            '+ equality; direct-index lookups test both the index bound and the stored key); the insertable sorted set returns iterators '
            'into its current storage on every path of insert (no pointer computed before a reallocation survives it), refuses a duplicate, '
            'and its emptiness/size bookkeeping is consistent; the reverse name tables are std::map with a strcmp-based strict order.',
    'note': 'Trusted: clang CFG, extractor, std::equal_range/lower_bound/std::map. Generated tables are validated for the schemas compiled '
            '(quick: FIX42UTEST, FIX42PERF). Undecided: behaviour under arbitrary operation sequences of the set.',
    'technique': 'translation validation of sortedness/counts; hit-means-equal control dependence; sibling agreement over find overloads; '
                 'pointer provenance across delete[] on the CFG',
}
WIT = os.path.join(VERIF, 'witness', 'inst_sets.cpp')
UNITS = ['runtime/message.cpp', WIT]
EXPLANATION = (
    "Decided: R12.1 generated tables (see C13 machinery) sorted / counted / hashed consistently; R12.2 GeneratedTable::_find hit ⇒ equal; "
    "R12.3 every Presence::find overload with a hash-array branch tests `key < _sz` and `arr[idx]._fnum == key`, the others use "
    "equal_range with first != second; FieldTrait_Hash_Array sizes itself by the greatest tag + 1 and maps tag → row index; R12.4 "
    "presorted_set::insert (class template and FieldTrait specialisation): the returned iterator is not derived from a pointer obtained "
    "before `delete[] _arr`; duplicate → (end(), false); R12.5 reverse tables: std::map<const char*, …, c_str_compare> whose comparator is "
    "strcmp(a,b) < 0; R12.6 in both branches of insert the tail [where, end) is copied to insertion index + 1. R12.7 both direct-index arrays are cleared over their whole length before the keys are entered; R12.8 the tag -> row index has slots of at least 16 bits. NOT decided: arbitrary histories.")
extra = {}


def extra_coverage(ctx):
    return extra


def run(ctx):
    prog = Program(UNITS)
    ctx.units.update(['runtime/message.cpp', 'witness/inst_sets.cpp'])
    # ---------------- R12.1
    tot = {'definitions': 0, 'fields': 0}
    for n in ['utest', 'perf'] + (['myfix'] if ctx.tier == 'thorough' else []):
        st, m, sc = tv.validate(ctx, n, rid='R12.1', gid='R12.1')
        tot['definitions'] += st['definitions']
        tot['fields'] += st['fields']
        ctx.units.add(gen.targets()[n]['schema'])
    extra.update({'programs': 2, 'validated': tot})
    # ---------------- R12.2
    gt = [f for f in prog.fns('FIX8::GeneratedTable::_find') if f.tmpl == 'inst']
    ctx.need(gt, 'GeneratedTable::_find instantiation not found')
    for f in gt[:4]:
        ctx.saw(f)
        lbs = [c for c in f.calls() if c.callee_qp == 'std::lower_bound']
        ctx.need(len(lbs) == 1, f.q + ': lower_bound not found')
        for (n, ok, detail) in c10._found_returns_guarded(f, lbs):
            ctx.check(ok, 'R12.2', f.q + '#hit-means-equal', n.loc, 'a table hit is reported only when the element found is not greater than the key')
        cmpf = lbs[0].args[3] if len(lbs[0].args) > 3 else None
        ctx.check(cmpf is not None and 'Less' in cmpf.text(), 'R12.2', f.q + '#same-order', lbs[0].loc, 'search and equality test use the same order (Pair::Less)')
    # ---------------- R12.3 find overloads of the FieldTrait specialisation
    P = 'FIX8::presorted_set<unsigned short, FIX8::FieldTrait, FIX8::FieldTrait::Compare>'
    finds = [f for f in prog.all_functions() if f.rec == P and f.qp.endswith('::find')]
    ctx.need(len(finds) >= 6, 'fewer than 6 find overloads of the FieldTrait set (%d)' % len(finds))
    n_h = 0
    for f in finds:
        ctx.saw(f)
        br = q.branches(f, lambda a: a.strip(casts=True).k == 'MemberExpr' and a.strip(casts=True).decl['n'] == '_ftha')
        key = '%s/%s' % (f.qp, f.sig.split('(')[1].split(')')[0].replace(' ', ''))
        er = [c for c in f.calls() if c.callee_qp == 'std::equal_range']
        deleg = [c for c in f.calls() if c.callee_qp and c.callee_qp.endswith('::find') and c.callee.get('rec') == P]
        if br:
            n_h += 1
            cfg = f.cfg
            hv = set()
            for t in q.atom_edge(cfg, br[0], True):
                hv |= cfg.reach_from(t, avoid={cfg.block_in[cfg.V[v].block] for v in []}) | {t}
            # atoms evaluated on the hash branch before equal_range
            erv = q.verts(cfg, er)
            region = set()
            for t in q.atom_edge(cfg, br[0], True):
                region |= cfg.reach_from(t, avoid=erv) | {t}
            nodes = [cfg.V[v].node for v in region if cfg.V[v].node is not None]
            # the probe condition may live in a member predicate of the same class (ftha_hit(key)): include the nodes of its body
            for n_ in list(nodes):
                if n_.is_call and n_.callee_qp and n_.callee_qp.startswith('FIX8::presorted_set::') and n_.callee_qp != f.qp:
                    for h in prog.fns(n_.callee_qp):
                        if h.rec == f.rec:
                            nodes += list(h.all_nodes())
            bound = any(n.k == 'BinaryOperator' and n.op == '<' and any(x.k == 'MemberExpr' and x.decl['n'] == '_sz' and
                        any(y.k == 'MemberExpr' and y.decl['n'] == '_ftha' for y in x.walk()) for x in n.children[1].walk()) for n in nodes)
            same = any(n.k == 'BinaryOperator' and n.op == '==' and any(x.k == 'MemberExpr' and x.decl['n'] == '_fnum' and
                       any(y.k == 'MemberExpr' and y.decl['n'] == '_arr' and any(z.k == 'MemberExpr' and z.decl['n'] == '_ftha' for z in y.walk()) for y in x.walk())
                       for x in n.children[0].walk()) for n in nodes)
            ctx.check(bound and same, 'R12.3', key + '#hash-branch', f.loc, 'direct-index lookup tests the index bound and that the row found carries the key',
                      'hash-array branch of %s lacks %s' % (key, 'the index bound test' if not bound else 'the stored-key equality test'))
            ctx.check(len(er) == 1, 'R12.3', key + '#fallback', f.loc, 'without a hash array the lookup falls back to equal_range')
        elif er:
            ne = [n for n in f.all_nodes() if (n.k == 'BinaryOperator' and n.op == '!=') and any(x.k == 'MemberExpr' and x.decl['n'] == 'first' for x in n.walk()) and
                  any(x.k == 'MemberExpr' and x.decl['n'] == 'second' for x in n.walk())]
            ctx.check(len(ne) == 1, 'R12.3', key + '#equal-range', f.loc, 'hit iff equal_range is non-empty (first != second)')
        elif deleg:
            ctx.ok('R12.3', key + '#delegates', f.loc, 'delegates to another find overload')
        else:
            ctx.fail('R12.3', key + '#unknown-idiom', f.loc, 'find overload uses neither the hash array, equal_range nor delegation')
    ctx.need(n_h >= 4, 'fewer than 4 hash-array find overloads (%d)' % n_h)
    ha = prog.fn1('FIX8::FieldTrait_Hash_Array::FieldTrait_Hash_Array')
    ctx.saw(ha)
    szi = [e for (m, e, it) in ha.inits if m is not None and m['n'] == '_sz']
    okh = False
    if len(szi) == 1:
        lf = q.linear(szi[0], sym=lambda x: 'LASTTAG' if (x.strip(casts=True).k == 'MemberExpr' and x.strip(casts=True).decl['n'] == '_fnum') else x.text())
        okh = lf.t == {'LASTTAG': 1} and lf.c == 1 and any(x.k == 'BinaryOperator' and x.op == '-' and x.children[1].strip(casts=True).value == 1 for x in szi[0].walk())
    st = [n for n in ha.all_nodes() if n.k == 'BinaryOperator' and n.op == '=' and n.children[0].strip().k == 'UnaryOperator' and n.children[0].strip().op == '*']
    okh = okh and len(st) == 1 and any(x.k == 'MemberExpr' and x.decl['n'] == '_fnum' for x in st[0].children[0].walk()) and st[0].children[1].strip(casts=True).k == 'DeclRefExpr'
    ctx.check(okh, 'R12.3', 'FIX8::FieldTrait_Hash_Array#build', ha.loc, 'hash array has (greatest tag + 1) slots and stores row index at slot [tag] (needs the table sorted: R12.1)')
    # ---------------- R12.4 insert
    G = 'FIX8::presorted_set<unsigned int, f8verif_witness::Elem, f8verif_witness::Elem::Compare>'
    n_ins = 0
    for rec in (P, G):
        ins = [f for f in prog.all_functions() if f.rec == rec and f.qp.endswith('::insert') and len(f.param_ids) == 1]
        ctx.need(len(ins) == 1, 'insert(const_iterator) of %s not found' % rec)
        f = ins[0]
        ctx.saw(f)
        n_ins += 1
        cfg = f.cfg
        dels = [cfg.vertex_of(n) for n in f.all_nodes() if n.k == 'CXXDeleteExpr' and q.reads_member(n, rec.split('<')[0] + '::_arr') and cfg.has_vertex(n)]
        dels += [cfg.vertex_of(n) for n in f.all_nodes() if n.k == 'CXXDeleteExpr' and any(x.k == 'MemberExpr' and x.decl['n'] == '_arr' for x in n.walk()) and cfg.has_vertex(n)]
        ctx.need(dels, rec + '::insert: delete[] _arr not found')
        bad = []
        for r in [n for n in f.all_nodes() if n.k == 'ReturnStmt']:
            rv = cfg.vertex_of(r)
            for x in r.walk():
                if x.k == 'DeclRefExpr' and x.decl.get('sc') == 'local' and (x.type or {}).get('k') == 'ptr':
                    for (dn, kind, val) in q.reaching_defs(f, x.declid, x):
                        if dn is None or not cfg.has_vertex(dn):
                            continue
                        dv = cfg.vertex_of(dn)
                        for d in dels:
                            if d in cfg.reach_from(dv) and rv in cfg.reach_from(d):
                                bad.append((r, x.decl['n']))
        key = rec.split('<')[0] + ('<FieldTrait>' if rec == P else '<K,T,Comp>')
        ctx.check(not bad, 'R12.4', key + '::insert#iterator-after-realloc', f.loc,
                  'no returned iterator is derived from a pointer taken before delete[] _arr',
                  'insert returns `%s`, obtained before the array was reallocated and deleted: the caller receives a dangling iterator' % (bad[0][1] if bad else ''))
        dup = q.branches(f, lambda a: a.strip(casts=True).k == 'DeclRefExpr' and (a.type or {}).get('k') == 'bool')
        okd = False
        for br in dup:
            rs = q.reachable_returns(cfg, q.atom_edge(cfg, br, True))
            okd = okd or (len(rs) == 1 and any(x.is_call and x.callee is not None and x.callee.get('n') == 'end' for x in rs[0].walk()) and
                          any(x.k == 'CXXBoolLiteralExpr' and x.value == 0 for x in rs[0].walk()))
        ctx.check(okd, 'R12.4', key + '::insert#duplicate-refused', f.loc, 'an element already present yields (end(), false) and nothing is inserted')
        # R12.6 element placement, the same in both branches: the tail [where, end) moves one slot up, the new element lands at where's index
        pw = None
        for n in f.all_nodes():
            if n.k == 'DeclStmt':
                for dd, init in n.r.get('decls', []):
                    nm = f.tu.decls[dd]['n']
                    if nm == 'where':
                        pw = dd
        locs = {f.tu.decls[dd]['n']: dd for n in f.all_nodes() if n.k == 'DeclStmt' for dd, init in n.r.get('decls', [])}
        ctx.need('where' in locs, key + '::insert: insertion point local `where` not found')
        wd = locs['where']
        idx = [dd for nm, dd in locs.items() for (dn, kind, val) in q.local_defs(f, dd)
               if kind == 'init' and val is not None and val.strip(casts=True).k == 'BinaryOperator' and val.strip(casts=True).op == '-' and
               q.refers_to_decl(val.strip(casts=True).children[0], wd)]
        ctx.need(idx, key + '::insert: index of the insertion point (where - _arr) not found')
        def sym(x):
            if q.refers_to_decl(x, wd):
                return 'WHERE'
            if x.strip(casts=True).k == 'DeclRefExpr' and x.strip(casts=True).declid in idx:
                return 'IDX'
            return 'BASE:' + x.text()
        copies = [c for c in f.calls() if c.callee_qp in ('memcpy', 'memmove', 'std::memcpy', 'std::memmove') and len(c.args) == 3]
        ctx.need(len(copies) >= 3, key + '::insert: memcpy/memmove calls not found')
        tails = [c for c in copies if q.refers_to_decl(c.args[1], wd)]
        ctx.need(tails, key + '::insert: no copy of the tail starting at the insertion point')
        for i, c in enumerate(tails):
            lf = q.linear(c.args[0], sym=sym)
            t = dict(lf.t)
            bases = [k for k in t if k.startswith('BASE:')]
            good = (t == {'WHERE': 1} and lf.c == 1) or (len(bases) == 1 and t.get('IDX') == 1 and len(t) == 2 and t[bases[0]] == 1 and lf.c == 1)
            ctx.check(good, 'R12.6', key + '::insert#tail-shifts-by-one@%d' % i, c.loc, 'the tail is copied to (insertion index + 1)',
                      'the tail starting at the insertion point is copied to `%s` — not to insertion index + 1: the element that was at the insertion point is '
                      'overwritten by the new one' % c.args[0].text())
    # ---------------- R12.5 reverse tables
    recs = prog.records('FIX8::F8MetaCntx')
    ctx.need(recs, 'F8MetaCntx record not found')
    t, r = recs[0]
    for fld in ('_reverse_msgtable', '_reverse_fieldtable'):
        ff = [x for x in r['fields'] if x['n'] == fld]
        ty = t.types[ff[0]['t']]['c'] if ff else ''
        ctx.check(ty.startswith('std::map<const char *const, ') and 'std::function<bool (const char *, const char *)>' in ty, 'R12.5', 'FIX8::F8MetaCntx::%s#type' % fld, r['file'].split('/')[-1],
                  '%s is a std::map keyed by C string with an explicit comparator' % fld, '%s has type %s' % (fld, ty))
    comp = [f for f in prog.all_functions() if f.qp == 'FIX8::F8MetaCntx::_comp']
    ctor = [f for f in prog.all_functions() if f.kind == 'ctor' and f.rec == 'FIX8::F8MetaCntx']
    wired = any(m is not None and m['n'] in ('_reverse_msgtable', '_reverse_fieldtable') and any(x.k == 'DeclRefExpr' and x.decl.get('n') == '_comp' for x in e.walk())
                for c in ctor for (m, e, it) in c.inits)
    okc = False
    for f in comp:
        rets = [n for n in f.all_nodes() if n.k == 'ReturnStmt']
        if len(rets) == 1:
            s = rets[0].children[0].strip(casts=True)
            okc = okc or (s.k == 'BinaryOperator' and s.op == '<' and s.children[1].strip(casts=True).value == 0)
    ctx.check(okc and wired, 'R12.5', 'FIX8::F8MetaCntx::_comp#strict-order', r['file'].split('/')[-1], 'the comparator is strcmp(a, b) < 0 (a strict weak order)')
    # ---------------- R12.7 / R12.8 the two direct-index arrays (tag -> entry in F8MetaCntx::_flu, tag -> row in FieldTrait_Hash_Array::_arr)
    for recq, arr, szm in (('FIX8::F8MetaCntx', '_flu', '_flu_sz'), ('FIX8::FieldTrait_Hash_Array', '_arr', '_sz')):
        ctors = [g for g in prog.all_functions() if g.kind == 'ctor' and g.rec == recq and len(g.param_ids) >= 2]
        ctx.need(ctors, recq + ': constructor not found')
        g = ctors[0]
        ctx.saw(g)
        clears = [c for c in g.calls() if c.callee_qp in ('std::fill', 'std::fill_n', 'memset', 'std::memset') and
                  any(x.k == 'MemberExpr' and x.decl and x.decl.get('n') == arr for x in c.args[0].walk())]
        ctx.need(len(clears) == 1, recq + ': initialisation of %s not found' % arr)
        c = clears[0]
        if c.callee_qp == 'std::fill':
            lf = q.linear(c.args[1], sym=lambda x: 'ARR' if (x.strip(casts=True).k == 'MemberExpr' and x.strip(casts=True).decl.get('n') == arr) else
                          'SZ' if (x.strip(casts=True).k == 'MemberExpr' and x.strip(casts=True).decl.get('n') == szm) else x.text())
            whole = dict(lf.t) == {'ARR': 1, 'SZ': 1} and lf.c == 0
            how = 'std::fill(%s, %s + %s, …)' % (arr, arr, szm)
        else:
            n3 = c.args[2]
            has_sizeof = any(x.k == 'UnaryExprOrTypeTraitExpr' for x in n3.walk())
            reads_sz = any(x.k == 'MemberExpr' and x.decl and x.decl.get('n') == szm for x in n3.walk())
            whole = has_sizeof and reads_sz
            how = '%s(…, %s)' % (c.callee_qp, n3.text())
        ctx.check(whole, 'R12.7', recq + '::' + arr + '#cleared-whole', c.loc, 'every slot of the index is cleared before the present keys are entered (%s)' % how,
                  'the index array %s is cleared by `%s`, which does not cover all %s slots (an element count used as a byte count): a slot of an absent key keeps '
                  'whatever the heap held and the lookup reports a hit' % (arr, c.text(), szm))
    ha_rec = [r for (t, r) in prog.records('FIX8::FieldTrait_Hash_Array')]
    ctx.need(ha_rec, 'FieldTrait_Hash_Array record not found')
    fld = [x for x in ha_rec[0]['fields'] if x['n'] == '_arr']
    ty = prog.tus[0].types[fld[0]['t']] if fld else {}
    pointee = prog.tus[0].types[ty['pointee']] if 'pointee' in ty else {}
    ctx.check(pointee.get('bits', 0) >= 16, 'R12.8', 'FIX8::FieldTrait_Hash_Array::_arr#index-width', ha_rec[0]['file'].split('/')[-1],
              'a slot of the tag -> row index is at least 16 bits wide (a message may have more than 255 fields)',
              'a slot of the tag -> row index is %s bits wide: rows above 255 are truncated, the field is looked up at the wrong row and reported absent' % pointee.get('bits'))
    # ---------------- R12.9 the reverse name tables are ordered by the whole key: the comparator handed to both maps is strcmp(p1, p2) < 0 over its two parameters.
    # A bounded comparison (strncmp/memcmp with a length) makes two names that agree in their first N characters one key: a name that is not in the schema
    # is then reported as a hit.
    cmpf = prog.fn1('FIX8::F8MetaCntx::_comp')
    ctx.saw(cmpf)
    rr = [x for x in cmpf.all_nodes() if x.k == 'ReturnStmt' and x.children]
    ctx.need(len(rr) == 1, 'F8MetaCntx::_comp: single return expected')
    e9 = rr[0].children[0].strip(casts=True)
    cc = [c for c in q.calls_in(e9) if c.callee is not None and c.callee.get('n') in ('strcmp', 'strncmp', 'memcmp', 'strcasecmp', 'strncasecmp', 'strcoll')]
    if len(cc) != 1:
        raise AnalysisBroken('F8MetaCntx::_comp: `%s` is not a comparison through one C string comparison function' % e9.text())
    nm9 = cc[0].callee.get('n')
    whole = nm9 == 'strcmp' and len(cc[0].args) == 2 and {a.strip(casts=True).declid for a in cc[0].args if a.strip(casts=True).k == 'DeclRefExpr'} == set(cmpf.param_ids) and \
        e9.k == 'BinaryOperator' and e9.op == '<' and e9.children[1].strip(casts=True).value == 0
    if not whole and nm9 not in ('strncmp', 'memcmp', 'strcasecmp', 'strncasecmp'):
        raise AnalysisBroken('F8MetaCntx::_comp: `%s` not decided' % e9.text())
    ctx.check(whole, 'R12.9', 'FIX8::F8MetaCntx::_comp#whole-key', cmpf.loc, 'the reverse name maps are ordered by strcmp over the whole key',
              'the reverse name maps are ordered by `%s`: keys that agree %s are one key, so reverse_find_* reports a hit for a name that is not in the schema '
              '(e.g. a 32-character field name followed by more characters)' % (e9.text(), 'in their first %s characters' % cc[0].args[2].strip(casts=True).value
                                                                                  if nm9 in ('strncmp', 'memcmp', 'strncasecmp') and len(cc[0].args) > 2 else 'up to letter case'))
    # both maps are built with it
    ctors = [g for g in prog.all_functions() if g.rec == 'FIX8::F8MetaCntx' and g.kind == 'ctor' and g.inits]
    ok_maps = any(sum(1 for (m, e, it) in g.inits if m is not None and m['n'] in ('_reverse_msgtable', '_reverse_fieldtable') and
                      any(x.k == 'DeclRefExpr' and x.decl is not None and x.decl.get('n') == '_comp' for x in e.walk())) == 2 for g in ctors)
    ctx.check(ok_maps, 'R12.9', 'FIX8::F8MetaCntx::F8MetaCntx#maps-use-comparator', cmpf.loc, 'both reverse maps are constructed with that comparator')
    # ---------------- R12.10 growth of the sorted sets: insert() copies _sz + 1 elements into an array of _sz + calc_reserve(_sz, _reserve) elements, so the helper
    # must return at least 1 whenever the set holds an element.  Decided by evaluating the helper's flow graph for sz = 1..300 (and two large values) x the
    # reserve percentages 1, the default, 100.
    n_cr = 0
    seen_cr = set()
    for g in prog.all_functions():
        if not (g.qp or '').endswith('::calc_reserve') or g.tmpl == 'pattern' or 'cfg' not in g.raw or g.loc in seen_cr:
            continue
        seen_cr.add(g.loc)
        ctx.saw(g)
        n_cr += 1
        psz, pres = g.param_ids
        locs_ = [dd for n_ in g.all_nodes() if n_.k == 'DeclStmt' for dd, _i in n_.r.get('decls', [])]
        bad = None
        for res_ in (1, 30, 100):
            for sz_ in list(range(1, 301)) + [1000, 1000000]:
                kind, val, env_ = q.follow(g, lambda a: None, track=locs_, env={psz: sz_, pres: res_})
                if kind != 'return' or val is None:
                    raise AnalysisBroken('%s: not evaluated for sz=%d res=%d' % (g.q, sz_, res_))
                if val < 1 and bad is None:
                    bad = (sz_, res_, val)
        ctx.check(bad is None, 'R12.10', g.q.split('(')[0] + '#grows-by-at-least-one', g.loc,
                  'calc_reserve(sz, res) >= 1 for every sz in 1..300, 1000, 10^6 and res in {1, 30, 100}',
                  ('calc_reserve(%d, %d) = %d: insert() into a set of %d element(s) allocates %d + %d slots and copies %d elements into them (heap overflow)'
                   % (bad[0], bad[1], bad[2], bad[0], bad[0], bad[2], bad[0] + 1)) if bad else None)
    ctx.need(n_cr >= 2, 'fewer than 2 calc_reserve helpers found (%d)' % n_cr)
    ctx.floor('R12.9', 2)
    ctx.floor('R12.10', 2)
    ctx.floor('R12.7', 2)
    ctx.floor('R12.3', 7)
    ctx.floor('R12.4', 4)
    ctx.floor('R12.6', 2)
