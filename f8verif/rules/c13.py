"""C13 — schema compiler output implements the schema (translation validation)."""
from ..facts import Program, AnalysisBroken
from .. import q, tv, gen

LEVEL = 'translation_validation'
CLAIM = {
    'text': 'Translation validation of the schema compiler on concrete schemas: the current tree\'s f8c is built and run (the repository\'s '
            'own build step) and its OUTPUT is compared statically with an independent reading of the schema XML: per field tag ↔ name ↔ '
            'C++ value type ↔ type code ↔ enumerated values and descriptions; per message type ↔ class ↔ admin flag; per message, header, '
            'trailer and group definition (nested to any depth): member set, order, mandatory and group bits, counts, nested group '
            'classes and their factories; every table strictly sorted under the comparison the runtime searches with. Plus a table '
            'agreement check inside the compiler: every FIX type it accepts maps to a C++ type that the runtime declares.',
    'note': 'Validates the compiler\'s output for the schemas compiled (quick: FIX42UTEST + extra fields, FIX42PERF; thorough: also FIX50SP2 + '
            'FIXT11 and every stock schema with and without --noshared) — not the compiler for all schemas. The generated codec\'s '
            'round trip is not decided. Trusted: clang front end, extractor, the independent schema reader (xml.etree) and its type table.',
    'technique': 'translation validation: generated tables (clang AST) vs. independent schema reading; table agreement inside the compiler',
}
UNITS = ['compiler/f8c.cpp']
EXPLANATION = (
    "Decided: R13.1 for each compiled schema, every disagreement between generated metadata and the schema (fields, realms, messages, "
    "definitions, sortedness, counts, factories) is reported by schema element and generated symbol; R13.2 FieldSpec::_baseTypeMap ⊆ "
    "keys of FieldSpec::_typeToCPP, and each C++ type named there is a builtin or an alias declared in namespace FIX8 of field.hpp. "
    "R13.3 the tag -> row index the generated classes are looked up through has slots of at least 16 bits (rule of C12 R12.8). NOT decided: schemas not compiled here; the generated codec's run-time behaviour.")
extra = {}


def extra_coverage(ctx):
    return extra


def run(ctx):
    names = ['utest', 'perf'] + (['myfix'] if ctx.tier == 'thorough' else [])
    totals = {'definitions': 0, 'shared': 0, 'fields': 0, 'realms': 0, 'messages': 0}
    progs = 0
    samples = []
    for n in names:
        st, m, sc = tv.validate(ctx, n, rid='R13.1', gid='R13.1')
        progs += 1
        for k in totals:
            totals[k] += st[k]
        samples.append({'schema': gen.targets()[n]['schema'], 'stats': st})
        ctx.units.add(gen.targets()[n]['schema'])
    # a self-made schema with components: optional/required components containing groups with required members, nested components,
    # components inside groups (the build's own schemas have no components; the stock FIX4.4+/5.x ones are in the thorough tier)
    import os
    comp = gen.custom_target(os.path.join(os.path.dirname(os.path.dirname(os.path.dirname(os.path.abspath(__file__)))), 'triage', 'c13', 'comp.xml'),
                             'Comp', 'CP', second=False)
    tri = os.path.join(os.path.dirname(os.path.dirname(os.path.dirname(os.path.abspath(__file__)))), 'triage', 'c14')
    # ... and the self-made schemas of C14 whose group definitions collide under the compiler's merge key (reuse across messages)
    customs = [(comp, 'triage/c13/comp.xml'), (gen.custom_target(os.path.join(tri, 'share.xml'), 'Share', 'SH'), 'triage/c14/share.xml'),
               (gen.custom_target(os.path.join(tri, 'collide.xml'), 'Collide', 'CO'), 'triage/c14/collide.xml'),
               (gen.custom_target(os.path.join(tri, 'chain.xml'), 'Chain', 'CH'), 'triage/c14/chain.xml'),
               (gen.custom_fixt_target(os.path.join(tri, 'fixt', 'app.xml'), os.path.join(tri, 'fixt', 'transport.xml'), 'Pair', 'PR'), 'triage/c14/fixt/{app,transport}.xml')]
    gen.generate([t for t, _ in customs])
    for t, label in customs:
        st, m, sc = tv.validate(ctx, t['prefix'], target=t, rid='R13.1', gid='R13.1')
        progs += 1
        for k in totals:
            totals[k] += st[k]
        samples.append({'schema': label + ' (self-made)', 'stats': st})
        ctx.units.add('verif:' + label)
    if ctx.tier == 'thorough':
        import glob
        stock = sorted(glob.glob(os.path.join(gen.REPO, 'schema', 'FIX*.xml'))) + sorted(glob.glob(os.path.join(gen.REPO, 'test', 'FIX44*.xml')))
        batch = []
        for path in stock:
            rel = os.path.relpath(path, gen.REPO)
            if rel in ('schema/FIXT11.xml', 'schema/FIX42UTEST.xml', 'schema/FIX42PERF.xml'):
                continue
            batch += [gen.stock_target(rel, True), gen.stock_target(rel, False)]
        gen.generate(batch)          # one scratch build for all of them
        for path in stock:
            rel = os.path.relpath(path, gen.REPO)
            if rel in ('schema/FIXT11.xml', 'schema/FIX42UTEST.xml', 'schema/FIX42PERF.xml'):
                continue
            for shared in (True, False):
                t = gen.stock_target(rel, shared)
                try:
                    st, m, sc = tv.validate(ctx, t['prefix'], target=t, rid='R13.1', gid='R13.1')
                except AnalysisBroken as e:
                    ctx.fail('R13.1', '%s#compiles' % t['prefix'], rel, 'f8c output for %s (%s) could not be produced/parsed: %s' % (rel, 'shared' if shared else 'noshared', str(e)[:300]))
                    continue
                progs += 1
                for k in totals:
                    totals[k] += st[k]
                samples.append({'schema': rel, 'shared': shared, 'stats': st})
                ctx.units.add(rel)
    extra.update({'programs': progs, 'disagreements_checked': len(ctx.obl), 'validated': totals, 'schemas': samples})
    ctx.need(totals['definitions'] >= 80, 'fewer than 80 definitions validated (%d)' % totals['definitions'])

    # ---------------- R13.2 compiler tables
    prog = Program(UNITS)
    ctx.units.update(UNITS)
    bt = prog.vars('FIX8::FieldSpec::_baseTypeMap')
    tc = prog.vars('FIX8::FieldSpec::_typeToCPP')
    ctx.need(len(bt) == 1 and len(tc) == 1, 'compiler type tables not found')
    from ..gentab import _elems, _lit
    base = {}
    for e in _elems(bt[0].init):
        parts = _elems(e)
        if len(parts) >= 2:
            base[_lit(parts[0])] = _lit(parts[1])
    cpp = {}
    for e in _elems(tc[0].init):
        parts = _elems(e)
        if len(parts) >= 2:
            strs = [x.r.get('s') for x in parts[1].walk() if x.k == 'StringLiteral']
            cpp[_lit(parts[0])] = strs
    ctx.need(len(base) >= 35 and len(cpp) >= 30, 'compiler type tables too small (%d, %d)' % (len(base), len(cpp)))
    ftn = {v: k for k, v in prog.enum('FIX8::FieldTrait::FieldType')['e']}
    aliases = {a['n'] for t in prog.tus for a in t.aliases if a['q'].startswith('FIX8::') and a['q'].count('::') == 1}
    builtin = {'int', 'char', 'unsigned', 'double', 'float'}
    for xmltype, code in sorted(base.items()):
        ok = code in cpp
        names = cpp.get(code, [])
        decl = ok and names and (names[0] in builtin or names[0] in aliases or names[0] in ('f8String', 'fp_type'))
        ctx.check(ok and decl, 'R13.2', 'f8c:type/%s#cpp-declared' % xmltype, bt[0].file.split('/')[-1],
                  'schema type %s → %s → C++ type `%s` declared by the runtime' % (xmltype, ftn.get(code, code), names[0] if names else '?'),
                  'schema type %s is accepted by the compiler and emitted as Field<%s, N>, but field.hpp declares no type `%s`: generated code for such a schema does not compile'
                  % (xmltype, names[0] if names else '?', names[0] if names else '?'))
    # ---------------- R13.3 the generated trait tables are looked up through FieldTrait_Hash_Array (one per generated message / group class): a slot of that
    # tag -> row index must be able to name every row a schema can produce (field counts are unsigned short in the generated code; FIX50SP2 has a message
    # with 326 members) — the C12 rule R12.8 re-stated for the generated code's only way to its members
    progr = Program(['runtime/message.cpp'])
    ctx.units.add('runtime/message.cpp')
    ha_rec = [r for (t, r) in progr.records('FIX8::FieldTrait_Hash_Array')]
    ctx.need(ha_rec, 'FieldTrait_Hash_Array record not found')
    fld_ = [x for x in ha_rec[0]['fields'] if x['n'] == '_arr']
    ty_ = progr.tus[0].types[fld_[0]['t']] if fld_ else {}
    pointee_ = progr.tus[0].types[ty_['pointee']] if 'pointee' in ty_ else {}
    ctx.check(pointee_.get('bits', 0) >= 16, 'R13.3', 'FIX8::FieldTrait_Hash_Array::_arr#index-width', ha_rec[0]['file'].split('/')[-1],
              'a slot of the tag -> row index the generated classes are looked up through is at least 16 bits wide',
              'a slot of the tag -> row index is %s bits wide: a generated message or group with more than 255 members does not know its members from row 256 on '
              '(reported as not belonging to the message)' % pointee_.get('bits'))
    ctx.floor('R13.2', 35)
