#!/bin/bash
# C13 triage: comp.xml message Gamma uses <component name='Outer' required='N'> which contains ClOrdID (required='Y') and
# <component name='Instrument' required='Y'> (Symbol required='Y'). Outer is optional, so neither ClOrdID nor Symbol may be mandatory
# for the message. Prints the generated trait rows of Gamma: bit 0 of the last column is the mandatory flag.
d=$(mktemp -d /var/tmp/c13.XXXXXX); trap 'rm -rf $d' EXIT
R=${F8_REPO:-/repo}
LD_LIBRARY_PATH=$R/runtime/.libs $R/compiler/.libs/f8c -p Comp -n CP -o $d "$(dirname "$0")/comp.xml" >/dev/null 2>&1
grep -A3 "Gamma::_traits\[\]" $d/Comp_traits.cpp
if grep -A3 "Gamma::_traits\[\]" $d/Comp_traits.cpp | grep -q "{  55,15,  2,  1,0x15}"; then echo "DEFECT: Symbol(55), reached through a required component nested in the optional component Outer, is generated mandatory (ClOrdID(11), a direct member of Outer, is not)"; exit 1; else echo "HOLDS: Symbol is optional like every other member of the optional component"; fi
