// R19.3: Session::process takes the sequence number from the first "34=" substring of the raw message.
#include "sess.hpp"
int main()
{
    Fix f; f.logon();
    NewOrderSingle *nos(new NewOrderSingle); f.recv_header(nos->Header(), f.rseq);
    *nos->Header() << new OnBehalfOfCompID("X34=9");
    *nos << new TransactTime("20130305-02:19:46.108") << new OrderQty(50) << new Price(400.5) << new ClOrdID("4")
         << new HandlInst(HandlInst_AUTOMATED_EXECUTION_ORDER_PRIVATE_NO_BROKER_INTERVENTION) << new OrdType(OrdType_LIMIT)
         << new Side(Side_BUY) << new Symbol("OC") << new TimeInForce(TimeInForce_DAY);
    f8String m = f.enc(nos);
    std::string shown(m); for (auto& c : shown) if (c == 1) c = '|';
    std::cout << "in: " << shown << std::endl;
    f.ss->process(m);
    auto o = f.out();
    std::cout << "delivered=" << f.ss->delivered << " outputs=" << o.size() << std::endl;
    for (auto s : o) { for (auto& c : s) if (c == 1) c = '|'; std::cout << "out: " << s << std::endl; }
    bool ok = f.ss->delivered == 1 && o.empty();
    std::cout << (ok ? "HOLDS" : "DEFECT: in-sequence message not delivered / spurious ResendRequest") << std::endl;
    return ok ? 0 : 1;
}
