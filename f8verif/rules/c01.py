"""C01 — message encode/decode round trip preserves every field (symmetry conditions)."""
from ..facts import Program, AnalysisBroken, WITNESS_FIELDS
from .. import q
from . import c08, c09, c02

CLAIM = {
    'text': 'Symmetry conditions without which decode cannot invert encode, whatever the values: the five consumers of a repeating-group '
            'count field (section decoder, group decoder, both encoders, printer) descend into the group under the same predicate; every '
            'value type of Field<T,N> has a renderer that writes something on every path and a text constructor that reads its argument '
            '(unimplemented types are reported by name); the integer renderer/parser agree on the sign alphabet; what the float parser '
            'stores as precision derives from the decoded text, so that re-rendering can reproduce it.',
    'note': 'Trusted: clang CFG, extractor. Undecided: equality of values and bytes for any concrete message; the floating conversions '
            'themselves (C08); timestamps rendered without milliseconds are re-rendered with them.',
    'technique': 'sibling agreement of group predicates, renderer/parser pair coverage per value type, provenance of the stored precision',
}
UNITS = ['runtime/message.cpp', WITNESS_FIELDS]
EXPLANATION = (
    "Decided: R01.1 decode, decode_group, encode(char*), encode(ostream&), print: the descent into a group is control-dependent on "
    "`group trait` ∧ has_group_count(field); R01.2 for each instantiated Field<T,N>: print(char*) stores through its argument or calls a "
    "renderer on every path (TZTimeOnly/TZTimestamp are stubs: reported, not part of FIX42UTEST/FIX44), Field(const char*) reads its "
    "argument; R01.3 integer sign alphabet (same rule as C08); R01.4 Field<fp_type,N>(text)._precision derives from the text. R01.7 Message::decode runs the header, body and trailer decoders on every path, chained through their returned offsets, and returns the trailer decoder's result. NOT "
    "decided: value equality.")

MB = 'FIX8::MessageBase::'
STUB_OK = {'FIX8::Field<FIX8::EnumType<26>,', 'FIX8::Field<FIX8::EnumType<27>,'}   # TZTimeOnly, TZTimestamp: declared TODO in the library


def run(ctx):
    prog = Program(UNITS)
    ctx.units.update(UNITS)
    # ---------------- R01.1
    sites = [(MB + 'decode', None, MB + 'decode_group'), (MB + 'decode_group', None, MB + 'decode_group'),
             (MB + 'encode', '(char *)', MB + 'encode_group'), (MB + 'encode', 'std::ostream &', MB + 'encode_group'), (MB + 'print', None, MB + 'print_group')]
    for fq, sig, callee in sites:
        f = prog.fn1(fq, sig=sig)
        ctx.saw(f)
        cs = f.calls_to(callee)
        ctx.need(cs, '%s: no call of %s' % (fq, callee))
        for c in cs:
            atoms = q.controlling_atoms(f, c)
            cnt = any(a.is_call and a.callee_qp == MB + 'has_group_count' and p for a, p in atoms)
            grp = any(p and ((a.is_call and a.callee is not None and a.callee.get('n') == 'is_group') or
                             (a.is_call and a.callee is not None and a.callee.get('n') == 'has' and a.args and a.args[0].strip(casts=True).text().endswith('group')))
                      for a, p in atoms)
            ctx.check(cnt and grp, 'R01.1', '%s%s#group-descent' % (fq, '/' + sig if sig else ''), c.loc,
                      'descends into the group exactly when the field has the group trait and a non-zero count',
                      'group descent in %s is not guarded by (group trait ∧ has_group_count): writer and reader disagree about when elements follow' % fq)
    # ---------------- R01.2
    recs = sorted({f.rec for f in prog.all_functions() if (f.rec or '').startswith('FIX8::Field<') and f.tmpl == 'inst' and ', 90' in f.rec})
    ctx.need(len(recs) >= 12, 'fewer than 12 witness Field instantiations (%d)' % len(recs))
    for r in recs:
        fs = [f for f in prog.all_functions() if f.rec == r]
        pr = [f for f in fs if f.qp == 'FIX8::Field::print' and f.sig.startswith('size_t (char *)')]
        ct = [f for f in fs if f.kind == 'ctor' and f.sig.startswith('void (const char *')]
        ctx.need(pr and ct, r + ': print(char*) / text constructor not found')
        p, c = pr[0], ct[0]
        ctx.saw(p), ctx.saw(c)
        to = p.param_ids[0]
        writes = [n for n in p.all_nodes() if (n.k == 'BinaryOperator' and n.op == '=' and any(q.refers_to_decl(x, to) for x in n.children[0].walk() if x.k == 'DeclRefExpr'))
                  or (n.is_call and n.callee is not None and any(q.refers_to_decl(a, to) for a in n.args))]
        stub = not writes
        if stub and any(r.startswith(s) for s in STUB_OK):
            ctx.note('%s::print(char*) is a stub (returns 0, writes nothing): the type cannot round-trip; not used by FIX42UTEST/FIX44' % r)
            ctx.ok('R01.2', r + '#render', p.loc, 'stub renderer (declared TODO; type absent from the compiled schemas) — reported')
        else:
            okw = bool(writes) and q.escape_path(p.cfg, [p.cfg.entry], q.verts(p.cfg, writes)) is None
            ctx.check(okw, 'R01.2', r + '#render', p.loc, 'print(char*) writes the value on every path', '%s::print(char*) can return without writing anything' % r)
        frm = c.param_ids[0]
        reads = any(q.refers_to_decl(x, frm) for (m, e, it) in c.inits for x in e.walk() if x.k == 'DeclRefExpr') or \
            any(q.refers_to_decl(x, frm) for x in c.body.walk() if x.k == 'DeclRefExpr')
        if not reads and any(r.startswith(s) for s in STUB_OK):
            ctx.ok('R01.2', r + '#parse', c.loc, 'stub parser (declared TODO) — reported')
        else:
            ctx.check(reads, 'R01.2', r + '#parse', c.loc, 'the text constructor reads its argument', '%s(const char*) ignores its argument' % r)
    # ---------------- R01.3
    c08.sign_rule(ctx, prog, 'R01.3')
    # R01.5 date/time fields: text -> ticks uses time_to_epoch, ticks -> text uses gmtime_r; the two are inverse only if the leap-day
    # correction of time_to_epoch is the calendar's (same rule as C09 R09.4)
    te = prog.fn1('FIX8::time_to_epoch')
    ctx.saw(te)
    c09.leap_rule(ctx, prog, te, 'R01.5')
    # ---------------- R01.4
    fl = [f for f in prog.all_functions() if f.kind == 'ctor' and (f.rec or '').startswith('FIX8::Field<double,') and f.tmpl == 'inst' and
          (f.sig.startswith('void (const char *') or f.sig.startswith('void (const FIX8::f8String &'))]
    ctx.need(len(fl) == 2, 'Field<fp_type,N> text constructors not found (%d)' % len(fl))
    for c in fl:
        ctx.saw(c)
        frm = c.param_ids[0]
        pi = [e for (m, e, it) in c.inits if m is not None and m['n'] == '_precision']
        ctx.need(len(pi) == 1, '_precision initialiser not found')
        derives = any(q.refers_to_decl(x, frm) for x in pi[0].walk() if x.k == 'DeclRefExpr')
        ctx.check(derives, 'R01.4', c.q + '/%s#precision-from-text' % ('cstr' if 'char *' in c.sig else 'str'), c.loc,
                  'the precision used to re-render a decoded float derives from the decoded text',
                  'Field<fp_type,N>(text) sets _precision to the constant `%s`: text with more fraction digits cannot re-encode to identical bytes (44=1.2345 → 44=1.23)' % pi[0].text())
    ctx.floor('R01.1', 5)
    ctx.floor('R01.2', 24)
    # R01.6 every present field is encoded: the position index keeps all fields that share a position (rule of C02 R02.5)
    c02.pos_type_rule(ctx, prog, 'R01.6')
    ctx.floor('R01.5', 2)
    # ---------------- R01.7 Message::decode chains the three section decoders on EVERY path: header at the caller's offset, body where the header decoder
    # stopped, trailer where the body decoder stopped, and returns what the trailer decoder returns (the factory compares that with the position of the CheckSum;
    # `ignore` only says how many bytes at the end are not the decoders' business, it never excuses the trailer).
    mds = [g for g in prog.fns('FIX8::Message::decode') if len(g.param_ids) == 4]
    ctx.need(len(mds) == 1, 'Message::decode(from, offset, ignore, permissive) not found')
    md = mds[0]
    ctx.saw(md)
    mc = md.cfg
    secs = [c for c in md.calls() if c.callee_qp == MB + 'decode' and mc.has_vertex(c)]

    def owner(c):
        o = c.obj.strip(casts=True) if c.obj is not None else None
        if o is None or o.k == 'CXXThisExpr':
            return 'body'
        for x in o.walk():
            if x.k == 'MemberExpr' and x.decl.get('n') in ('_header', '_trailer'):
                return x.decl['n'][1:]
        return 'body'
    by = {owner(c): c for c in secs}
    ctx.need(set(by) == {'header', 'body', 'trailer'} and len(secs) == 3, 'Message::decode: the three section decode calls were not found (%s)' % sorted(by))
    hv, bv, tv = (mc.vertex_of(by[k]) for k in ('header', 'body', 'trailer'))
    every = all(q.escape_path(mc, [mc.entry], {v}) is None for v in (hv, bv, tv))
    order = mc.dominates(hv, bv) and mc.dominates(bv, tv)

    def from_result(arg, call):
        a = arg.strip(casts=True)
        if a == call:
            return True
        if a.k == 'DeclRefExpr' and a.decl is not None and a.decl.get('sc') == 'local':
            ds = q.local_defs(md, a.declid)
            return len(ds) == 1 and ds[0][2] is not None and ds[0][2].strip(casts=True) == call
        return False
    chained = q.refers_to_decl(by['header'].args[1], md.param_ids[1]) and from_result(by['body'].args[1], by['header']) and from_result(by['trailer'].args[1], by['body'])
    rets7 = [n for (v, kind, n) in mc.exits() if kind == 'return' and n.children]
    returns_trailer = bool(rets7) and all(from_result(n.children[0], by['trailer']) for n in rets7)
    why = None
    if not every:
        why = 'a path through Message::decode skips one of the three section decoders (e.g. the trailer when `ignore` is non-zero): trailer fields such as ' \
              'SignatureLength/Signature are then never decoded and the strict factory rejects a message the library encoded itself'
    elif not order or not chained:
        why = 'the section decoders are not chained header -> body -> trailer through their returned offsets'
    elif not returns_trailer:
        why = 'Message::decode does not return the trailer decoder\'s result on every path (`%s`)' % (rets7[0].children[0].text() if rets7 else '')
    ctx.check(why is None, 'R01.7', 'FIX8::Message::decode#section-chain', md.loc,
              'header, body and trailer are decoded on every path, each from the offset the previous one returned; the trailer decoder\'s result is returned', why)
    ctx.floor('R01.7', 1)
