// R18.3: gap fills sent while answering a ResendRequest must carry the first number of the gap as MsgSeqNum.
#include "sess.hpp"
static f8String stored_order(Fix& f, unsigned seq)
{
    NewOrderSingle *nos(static_cast<NewOrderSingle*>(f.out_order()));
    *nos->Header() << new msg_seq_num(seq) << new sender_comp_id("A12345B") << new target_comp_id("COMPARO") << new sending_time();
    return f.enc(nos);
}
static unsigned tagval(const f8String& s, const char *tag)
{
    auto p = s.find(f8String("\001") + tag + "=");
    return p == f8String::npos ? 0 : atoi(s.c_str() + p + 2 + strlen(tag));
}
int main()
{
    Fix f; f.logon();
    f.ss->set_nss(8);                      // we have sent 1..7
    for (unsigned s : {2u, 4u, 6u}) f.per->put(s, stored_order(f, s));
    ResendRequest *rr(new ResendRequest); f.recv_header(rr->Header(), f.rseq++);
    *rr << new BeginSeqNo(2) << new EndSeqNo(0);
    f.ss->process(f.enc(rr));
    bool ok = true; unsigned expect = 2;
    for (auto s : f.out())
    {
        unsigned seq = tagval(s, "34"), nsn = tagval(s, "36");
        bool gap = s.find("\00135=4\001") != f8String::npos;
        std::cout << (gap ? "GapFill " : "Resent  ") << "MsgSeqNum=" << seq << (gap ? " NewSeqNo=" + std::to_string(nsn) : "") << std::endl;
        if (seq != expect) ok = false;
        expect = gap ? nsn : seq + 1;
    }
    std::cout << "next_send=" << f.ss->nss() << " covered up to " << expect << std::endl;
    if (expect != 8 || f.ss->nss() != 8) ok = false;
    std::cout << (ok ? "HOLDS" : "DEFECT: replay does not cover the range with correctly numbered gap fills") << std::endl;
    return ok ? 0 : 1;
}
