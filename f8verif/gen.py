"""Generated sources: the repo's own build runs compiler/f8c on schema files. The checks that read generated tables
rebuild them from the CURRENT working tree: rsync /repo (without .git, doc, tests) to a scratch directory, `make` runtime
and compiler there (incremental — only what the edited sources invalidate), run the freshly built f8c with the command lines of
utests/Makefile.am and test/Makefile.am into a cache directory keyed by the tree hash, delete the scratch directory.
Running the schema compiler is the build step the repository itself performs; the deciding step is the static comparison of its
output with the schema (translation validation)."""
import os
import re
import shutil
import subprocess
import tempfile

from .facts import REPO, VERIF, CACHE, AnalysisBroken, tree_key, extract, TU, RESOURCE_INC, BIN

EXTRA_FIELDS_DEFAULT = ("<field number='9999' name='SampleUserField'  type='STRING' messages='NewOrderSingle:N ExecutionReport:N OrderCancelRequest:Y' />"
                        "<field number='9991' name='SampleUserField2' type='STRING' messages='NewOrderSingle:N ExecutionReport:N OrderCancelRequest:Y' />")


def _extra_fields():
    try:
        txt = open(os.path.join(REPO, 'utests/Makefile.am')).read().replace('\\\n', ' ')
        m = re.search(r'^EXTRA_FIELDS\s*=\s*"(.*)"\s*$', txt, re.M)
        if m:
            return re.sub(r'\s+<', '<', m.group(1)).strip()
    except OSError:
        pass
    return EXTRA_FIELDS_DEFAULT


def targets():
    """name -> dict(args after f8c (schema paths relative to repo), prefix, ns, schema, fixt, extra, shared, realm)"""
    t = {
        'utest': dict(args=['-sVp', 'utest', '-n', 'UTEST', 'schema/FIX42UTEST.xml', '-F', _extra_fields()], prefix='utest', ns='UTEST',
                      schema='schema/FIX42UTEST.xml', fixt=None, extra=_extra_fields(), realm=True, shared=True, second=True),
        'perf': dict(args=['--second', '--verbose', '--noconst', '--prefix', 'Perf', '--norealm', '--namespace', 'TEX', 'schema/FIX42PERF.xml'], prefix='Perf', ns='TEX',
                     schema='schema/FIX42PERF.xml', fixt=None, extra=None, realm=False, shared=True, second=True),
        'myfix': dict(args=['--verbose', '--retain', '--namespace', 'TEX', 'schema/FIX50SP2.xml', '--fixt', 'schema/FIXT11.xml'], prefix='Myfix', ns='TEX',
                      schema='schema/FIX50SP2.xml', fixt='schema/FIXT11.xml', extra=None, realm=True, shared=True, second=False),
    }
    return t


def stock_target(xml, shared=True):
    """thorough tier: any stock schema; FIX5x need the FIXT transport schema"""
    base = os.path.basename(xml).replace('.xml', '')
    pre = re.sub(r'[^A-Za-z0-9]', '', base) + ('' if shared else 'NS')
    fixt = 'schema/FIXT11.xml' if base.startswith('FIX50') else None
    args = ['--verbose', '--prefix', pre, '--namespace', 'GEN', xml]
    if not shared:
        args.insert(0, '--noshared')
    if fixt:
        args += ['--fixt', fixt]
    return dict(args=args, prefix=pre, ns='GEN', schema=xml, fixt=fixt, extra=None, realm=True, shared=shared, second=False)


def custom_target(xml_abs, prefix, ns='CU', second=True):
    """a schema outside the repository (self-made inputs under /verif/triage); second=True: FIX4.2 style without components,
    second pass only; second=False: both passes (schemas with components)"""
    return dict(args=(['-s'] if second else []) + ['-p', prefix, '-n', ns, xml_abs], prefix=prefix, ns=ns, schema=xml_abs, fixt=None, extra=None, realm=True,
                shared=True, second=second)


def custom_fixt_target(app_abs, fixt_abs, prefix, ns='CF'):
    """a self-made application schema compiled together with a self-made transport (FIXT) schema"""
    return dict(args=['-p', prefix, '-n', ns, app_abs, '--fixt', fixt_abs], prefix=prefix, ns=ns, schema=app_abs, fixt=fixt_abs, extra=None, realm=True,
                shared=True, second=False)


def _gen_root():
    return os.path.join(CACHE, tree_key(), 'gen')


def _build_scratch():
    """returns (scratch dir, f8c binary, env). Caller removes the scratch dir."""
    d = tempfile.mkdtemp(prefix='f8gen.', dir='/var/tmp')
    ex = ['--exclude=.git', '--exclude=/doc', '--exclude=/test', '--exclude=/utests', '--exclude=/msvc', '--exclude=/stocklib', '--exclude=/contrib',
          '--exclude=/util', '--exclude=autom4te.cache']
    p = subprocess.run(['rsync', '-a'] + ex + [REPO.rstrip('/') + '/', d + '/'], capture_output=True, text=True)
    if p.returncode != 0:
        shutil.rmtree(d, ignore_errors=True)
        raise AnalysisBroken('rsync of the repository failed: ' + p.stderr[-500:])
    for sub in ('runtime', 'compiler'):
        p = subprocess.run(['make', '-C', os.path.join(d, sub), '-j16'], capture_output=True, text=True)
        if p.returncode != 0:
            tail = (p.stdout + p.stderr)[-1500:]
            shutil.rmtree(d, ignore_errors=True)
            raise AnalysisBroken('building %s of the current tree failed (the tree does not compile?):\n%s' % (sub, tail))
    f8c = os.path.join(d, 'compiler', '.libs', 'f8c')
    if not os.path.exists(f8c):
        f8c = os.path.join(d, 'compiler', 'f8c')
    env = dict(os.environ, LD_LIBRARY_PATH=os.path.join(d, 'runtime', '.libs') + ':' + os.environ.get('LD_LIBRARY_PATH', ''))
    return d, f8c, env


def generate(names_or_targets):
    """ensure generated sources exist for the given targets; returns {name: (dir, target)}"""
    tg = targets()
    want = {}
    for n in names_or_targets:
        if isinstance(n, str):
            want[n] = tg[n]
        else:
            want[n['prefix']] = n
    root = _gen_root()
    todo = {n: t for n, t in want.items() if not os.path.exists(os.path.join(root, n, '.done'))}
    lockf = None
    if todo:
        # two checks started together (C13 and C14 share targets) must not generate into the same directory: one process at a time per tree
        import fcntl
        os.makedirs(root, exist_ok=True)
        lockf = open(os.path.join(root, '.lock'), 'w')
        fcntl.flock(lockf, fcntl.LOCK_EX)
        todo = {n: t for n, t in want.items() if not os.path.exists(os.path.join(root, n, '.done'))}
    if todo:
        scratch, f8c, env = _build_scratch()
        try:
            for n, t in todo.items():
                out = os.path.join(root, n)
                shutil.rmtree(out, ignore_errors=True)
                os.makedirs(out)
                args = []
                for a in t['args']:
                    args.append(os.path.join(REPO, a) if a.startswith('schema/') or a.startswith('test/') else a)      # schemas are inputs: read in place (absolute paths as given)
                for extra in ('test/FIX44.xml', 'test/FIX44TEST.xml'):
                    pass
                p = subprocess.run([f8c] + args + ['-o', out], capture_output=True, text=True, env=env, cwd=out)
                ok = p.returncode == 0 and os.path.exists(os.path.join(out, t['prefix'] + '_traits.cpp'))
                with open(os.path.join(out, 'f8c.log'), 'w') as f:
                    f.write(p.stdout + '\n' + p.stderr)
                with open(os.path.join(out, '.done'), 'w') as f:
                    f.write('ok' if ok else 'failed rc=%s' % p.returncode)
        finally:
            shutil.rmtree(scratch, ignore_errors=True)
    if lockf is not None:
        lockf.close()
    res = {}
    for n, t in want.items():
        out = os.path.join(root, n)
        st = open(os.path.join(out, '.done')).read()
        res[n] = (out, t, st == 'ok', open(os.path.join(out, 'f8c.log')).read())
    return res


def load_generated(name_dir, target):
    """facts of the three generated TUs of one target: {'types': TU, 'traits': TU, 'classes': TU}"""
    out = {}
    jobs = []
    for part in ('types', 'traits', 'classes'):
        src = os.path.join(name_dir, '%s_%s.cpp' % (target['prefix'], part))
        if not os.path.exists(src):
            raise AnalysisBroken('generated file missing: ' + src)
        js = src + '.facts.json'
        jobs.append((part, src, js))

    def run(job):
        part, src, js = job
        if not os.path.exists(js):
            tmpj = '%s.%d.tmp' % (js, os.getpid())
            cmd = [BIN, '--out=' + tmpj, '--root=' + name_dir.rstrip('/') + '/', '--fn-root=' + name_dir.rstrip('/') + '/', '--no-patterns', src, '--',
                   '-x', 'c++', '-std=gnu++17', '-DHAVE_CONFIG_H', '-I' + name_dir, '-I' + REPO, '-I' + os.path.join(REPO, 'include'), '-UNDEBUG',
                   '-I' + RESOURCE_INC, '-Wno-everything']
            p = subprocess.run(cmd, capture_output=True, text=True)
            if p.returncode != 0 or not os.path.exists(tmpj):
                raise AnalysisBroken('generated code does not parse: %s\n%s' % (src, p.stderr[-1500:]))
            os.replace(tmpj, js)
        return part, js
    from concurrent.futures import ThreadPoolExecutor
    with ThreadPoolExecutor(max_workers=3) as ex:
        for part, js in ex.map(run, jobs):
            out[part] = TU(os.path.basename(js), js)
    return out
