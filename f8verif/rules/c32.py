"""C32 — XML configuration parser preserves element trees."""
from ..facts import Program, AnalysisBroken
from .. import q

CLAIM = {
    'text': 'Single-pass decoding rule on XmlElement::InplaceXlate: a search-and-replace loop that restarts its search at offset 0 must not '
            'be able to match again inside text it has just produced, and text produced by an earlier loop must not be matchable by a '
            'later loop. Decided from the code: which loops restart at 0 (offset argument of SearchString), the replacement alphabet of '
            'each loop (values of the static entity table / arbitrary byte for numeric references) and the first literal character of each '
            'pattern (constructor arguments of the static RegExp objects).',
    'note': 'Only the reference-decoding clause of the property is decided. Undecided: the tree-building state machine, attribute '
            'parsing, path lookup, memory safety on arbitrary bytes.',
    'technique': 'table agreement: replacement alphabet vs. pattern first-characters, plus loop restart offset (AST of static initialisers and call arguments)',
}
UNITS = ['runtime/xml.cpp']
EXPLANATION = (
    "Decided: R32.1 for each decoding loop in InplaceXlate: (a) does the search resume after the replaced text (offset argument derived from "
    "the match) or restart at 0; (b) can its replacement alphabet contain the first character of its own pattern or of a pattern applied "
    "later. A loop that restarts at 0 with such an alphabet decodes its own output again (`&amp;lt;` → `&lt;` → `<`). NOT decided: anything "
    "else about trees or arbitrary input.")

X = 'XmlElement::'


def run(ctx):
    prog = Program(UNITS)
    ctx.units.update(UNITS)
    f = prog.fn1(X + 'InplaceXlate')
    ctx.saw(f)
    # patterns of the static RegExp objects
    pats = {}
    for name in ('rCX_', 'rCE_', 'rEn_', 'rEv_'):
        vs = prog.vars(X + name)
        ctx.need(len(vs) == 1, 'static RegExp %s not found' % name)
        lits = [x for x in vs[0].init.walk() if x.k == 'StringLiteral']
        ctx.need(len(lits) == 1, 'pattern literal of %s not found' % name)
        pats[name] = lits[0].r.get('s') or bytes.fromhex(lits[0].r['hex']).decode('latin1')
    # entity table values
    tab = prog.vars(X + 'stringtochar_')
    ctx.need(len(tab) == 1, 'stringtochar_ not found')
    values = set()
    n_ent = 0
    for x in tab[0].init.walk():
        if x.k in ('InitListExpr', 'CXXConstructExpr') and len(x.children) == 2:
            a, b = x.children[0].strip(casts=True), x.children[1].strip(casts=True)
            if any(y.k == 'StringLiteral' for y in a.walk()) and b.value is not None:
                values.add(b.value)
                n_ent += 1
    ctx.need(n_ent >= 30, 'entity table has %d entries, expected >= 30' % n_ent)
    loops = [n for n in f.all_nodes() if n.k == 'WhileStmt']
    decoders = []
    for l in loops:
        ss = [c for c in q.calls_in(l.child('cond')) if c.callee_qp == 'FIX8::RegExp::SearchString']
        if len(ss) != 1:
            continue
        obj = ss[0].obj.strip(casts=True)
        name = obj.decl['n'] if obj.k in ('MemberExpr', 'DeclRefExpr') else None
        reps = [c for c in l.child('body').walk() if c.is_call and c.callee_qp == 'FIX8::RegExp::Replace']
        decoders.append((l, ss[0], name, reps))
    ctx.need(len(decoders) == 2 and [d[2] for d in decoders] == ['rCX_', 'rCE_'], 'expected the two decoding loops (named, then numeric references)')

    def first_char(p):
        return p[1] if p[0] == '\\' else p[0]
    alph = {}
    for (l, ss, name, reps) in decoders:
        off = ss.args[3] if len(ss.args) > 3 else None
        restarts = off is None or off.k == 'CXXDefaultArgExpr' or off.strip(casts=True).value == 0
        if name == 'rCX_':
            a = set(values) | {ord('?')}
        else:
            a = set(range(256))
        alph[name] = a
        later = [d[2] for d in decoders[decoders.index((l, ss, name, reps)):]]
        rematch = [p for p in later if ord(first_char(pats[p])) in a]
        ctx.check(not (restarts and name in rematch), 'R32.1', X + 'InplaceXlate#%s.self' % name, l.loc,
                  'the %s loop cannot decode its own output' % name,
                  'the %s loop restarts its search at offset 0 after every replacement and its replacement text can contain %r, the first '
                  'character of its own pattern %r: references are decoded twice (e.g. %s)'
                  % (name, first_char(pats[name]), pats[name], '&amp;lt; → &lt; → <' if name == 'rCX_' else '&#38;#65; → &#65; → A'))
        others = [p for p in rematch if p != name]
        ctx.check(not others, 'R32.1', X + 'InplaceXlate#%s.later' % name, l.loc,
                  'text produced by the %s loop cannot be matched by a later decoding loop' % name,
                  'text produced by the %s loop can start a match of the later pattern(s) %s (e.g. &amp;#65; → &#65; → A)' % (name, others))
    ctx.floor('R32.1', 3)
