"""Translation validation (K13): generated tables (AST) vs. the schema read independently."""
from .facts import AnalysisBroken, Program
from . import gen, gentab, schema

# independent statement of the FIX type system as fix8 models it: XML type -> (FieldType enumerator, C++ value type of Field<T,N>)
E = lambda name: ('ENUM', name)
TYPE_SPEC = {
    'INT': ('ft_int', 'int'), 'LENGTH': ('ft_Length', E('ft_Length')), 'TAGNUM': ('ft_TagNum', E('ft_TagNum')), 'SEQNUM': ('ft_SeqNum', E('ft_SeqNum')),
    'NUMINGROUP': ('ft_NumInGroup', E('ft_NumInGroup')), 'DAYOFMONTH': ('ft_DayOfMonth', E('ft_DayOfMonth')),
    'FLOAT': ('ft_float', 'double'), 'QTY': ('ft_Qty', 'double'), 'QUANTITY': ('ft_Qty', 'double'), 'PRICE': ('ft_Price', 'double'), 'PRICEOFFSET': ('ft_PriceOffset', 'double'),
    'AMT': ('ft_Amt', 'double'), 'PERCENTAGE': ('ft_Percentage', 'double'),
    'CHAR': ('ft_char', 'char'), 'BOOLEAN': ('ft_Boolean', E('ft_Boolean')),
    'STRING': ('ft_string', 'STR'), 'MULTIPLEVALUECHAR': ('ft_MultipleCharValue', 'STR'), 'MULTIPLECHARVALUE': ('ft_MultipleCharValue', 'STR'),
    'MULTIPLESTRINGVALUE': ('ft_MultipleStringValue', 'STR'), 'MULTIPLEVALUESTRING': ('ft_MultipleStringValue', 'STR'),
    'COUNTRY': ('ft_Country', 'STR'), 'CURRENCY': ('ft_Currency', 'STR'), 'EXCHANGE': ('ft_Exchange', 'STR'),
    'MONTHYEAR': ('ft_MonthYear', E('ft_MonthYear')), 'UTCTIMESTAMP': ('ft_UTCTimestamp', E('ft_UTCTimestamp')), 'UTCTIME': ('ft_UTCTimeOnly', E('ft_UTCTimeOnly')),
    'UTCTIMEONLY': ('ft_UTCTimeOnly', E('ft_UTCTimeOnly')), 'UTCDATE': ('ft_UTCDateOnly', E('ft_UTCDateOnly')), 'UTCDATEONLY': ('ft_UTCDateOnly', E('ft_UTCDateOnly')),
    'LOCALMKTDATE': ('ft_LocalMktDate', E('ft_LocalMktDate')), 'TZTIMEONLY': ('ft_TZTimeOnly', E('ft_TZTimeOnly')), 'TZTIMESTAMP': ('ft_TZTimestamp', E('ft_TZTimestamp')),
    'XMLDATA': ('ft_XMLData', 'STR'), 'DATA': ('ft_data', 'STR'), 'PATTERN': ('ft_pattern', 'STR'), 'LANGUAGE': ('ft_Language', 'STR'), 'TENOR': ('ft_Tenor', 'STR'),
    'RESERVED100PLUS': ('ft_Reserved100Plus', 'STR'), 'RESERVED1000PLUS': ('ft_Reserved1000Plus', 'STR'), 'RESERVED4000PLUS': ('ft_Reserved4000Plus', 'STR'),
}
M_MANDATORY, M_GROUP = 0x01, 0x08


def _cpp_of(spec, ftcodes):
    if spec == 'STR':
        return 'std::basic_string<char>'
    if isinstance(spec, tuple):
        return 'FIX8::EnumType<%d>' % ftcodes[spec[1]]
    return spec


def _runtime_sorted(vals, elem_type):
    """strictly ascending under the comparison the runtime uses for this element type"""
    if 'char' == elem_type.replace('const ', '') or elem_type.replace('const ', '') in ('int', 'unsigned int', 'double'):
        return all(a < b for a, b in zip(vals, vals[1:]))
    return all(str(a) < str(b) for a, b in zip(vals, vals[1:]))      # std::string operator<: bytewise


def ftcodes_from_repo():
    prog = Program(['runtime/traits.cpp'])
    return dict(prog.enum('FIX8::FieldTrait::FieldType')['e'])


def validate(ctx, name, target=None, rid='R13.1', only_groups=False, gid='R14.1', only_fields=False):
    """compare one generated target with its schema; returns stats dict"""
    res = gen.generate([target or name])
    key = (target or {'prefix': name})['prefix'] if target else name
    d, t, ok, log = res[key]
    if not ok:
        raise AnalysisBroken('f8c failed on %s:\n%s' % (t['schema'], log[-800:]))
    g = gen.load_generated(d, t)
    m = gentab.GenModel(g, t)
    repo = gen.REPO
    import os
    spath = t['schema'] if os.path.isabs(t['schema']) else repo + '/' + t['schema']
    sc = schema.Schema(spath, fixt=((t['fixt'] if os.path.isabs(t['fixt']) else repo + '/' + t['fixt']) if t['fixt'] else None), extra_fields=t.get('extra'))
    ft = ftcodes_from_repo()
    stats = {'definitions': 0, 'shared': 0, 'fields': 0, 'realms': 0, 'messages': 0}
    ns = m.ns
    tag = key

    def check_def(df, members, where, is_group):
        stats['definitions'] += 1
        if df.shared:
            stats['shared'] += 1
        r_id = gid if is_group else rid
        if only_groups and not is_group:
            pass
        exp = schema.definition_rows(members)
        got = sorted((r[0], r[2], bool(r[4] & M_MANDATORY), bool(r[4] & M_GROUP)) for r in df.rows)
        # positions: compare the ORDER (ranks), which is what the encoder uses
        def ranks(rows):
            order = sorted(rows, key=lambda r: r[1])
            return [r[0] for r in order]
        problems = []
        if [r[0] for r in got] != [r[0] for r in exp]:
            problems.append('member tags differ: generated %s, schema %s' % (sorted(set(r[0] for r in got) - set(r[0] for r in exp)), sorted(set(r[0] for r in exp) - set(r[0] for r in got))))
        else:
            if ranks(got) != ranks(exp):
                problems.append('field order differs: generated %s…, schema %s…' % (ranks(got)[:8], ranks(exp)[:8]))
            for gr, er in zip(got, exp):
                if gr[2] != er[2]:
                    problems.append('tag %d mandatory=%s, schema says %s' % (gr[0], gr[2], er[2]))
                if gr[3] != er[3]:
                    problems.append('tag %d group bit=%s, schema says %s' % (gr[0], gr[3], er[3]))
            for r in df.rows:
                f = sc.fields.get(r[0])
                if f and f['type'] in TYPE_SPEC:
                    want = ft[TYPE_SPEC[f['type']][0]] if not bool(r[4] & M_GROUP) else ft['ft_int']
                    if r[1] != want:
                        problems.append('tag %d has type code %s, schema type %s is %s' % (r[0], r[1], f['type'], want))
        nums = [r[0] for r in df.rows]
        if nums != sorted(nums) or len(set(nums)) != len(nums):
            problems.append('trait rows are not strictly sorted by tag (binary search precondition)')
        if df.fieldcnt is not None and df.fieldcnt != len(df.rows):
            problems.append('_fieldcnt %s != %d rows' % (df.fieldcnt, len(df.rows)))
        if df.ftha is None or df.ftha[1] != len(df.rows) or df.ftha[0] != df.traits_var:
            problems.append('hash array built over %s with n=%s, table %s has %d rows' % (df.ftha[0] if df.ftha else None, df.ftha[1] if df.ftha else None, df.traits_var, len(df.rows)))
        egroups = {mm.num: mm for mm in members if mm.group is not None}
        if set(df.groups) != set(egroups):
            problems.append('nested group classes %s, schema groups %s' % (sorted(df.groups), sorted(egroups)))
        fac = {k: v for k, v in df.nested_factory.items()}
        if egroups and set(fac) != set(egroups):
            problems.append('create_nested_group handles %s, schema groups %s' % (sorted(fac), sorted(egroups)))
        for k, cls in fac.items():
            if k in df.groups and df.groups[k].cls != cls:
                problems.append('create_nested_group(%s) creates %s, group class is %s' % (k, cls, df.groups[k].cls))
        is_message = any(b.get('q') == 'FIX8::Message' for b in m.records.get(df.cls, {}).get('bases', []))
        if is_message and egroups and set(df.ctor_groups) != set(egroups):
            problems.append('deep constructor registers groups %s, schema groups %s' % (sorted(df.ctor_groups), sorted(egroups)))
        if (not is_message) and df.elem_groups is not None:
            if set(df.elem_groups) != set(egroups):
                problems.append('create_group(deep) registers nested groups %s, schema groups %s' % (sorted(df.elem_groups), sorted(egroups)))
            for k, cls in df.elem_groups.items():
                if k in df.groups and df.groups[k].cls != cls:
                    problems.append('create_group(deep) creates %s for %s, nested group class is %s' % (cls, k, df.groups[k].cls))
        if not (only_groups and not is_group):
            ctx.check(not problems, r_id, '%s:%s#definition' % (tag, where), t['schema'],
                      '%s: %d members, order, mandatory/group bits, type codes, counts and %d nested group(s) agree with the schema%s'
                      % (where, len(df.rows), len(egroups), ' (shared table %s)' % df.traits_var.split('::')[-1] if df.shared else ''),
                      '%s: generated metadata differs from the schema: %s' % (where, '; '.join(problems[:4])), problems)
        for k, mm in egroups.items():
            if k in df.groups:
                check_def(df.groups[k], mm.group, where + '/' + mm.name, True)

    # header / trailer / messages
    for nm, members in (() if only_fields else (('header', sc.header), ('trailer', sc.trailer))):
        cls = ns + nm
        if cls in m.records:
            check_def(m.definition(cls), members, nm, False)
    table = {mt: (cls, n) for (mt, cls, n) in m.msgtable}
    if not only_groups and not only_fields:
        mts = [x[0] for x in m.msgtable]
        pseudo = {'header', 'trailer'}      # the generated table also carries the two framing pseudo-messages
        ctx.check(all(a.encode('latin1') < b.encode('latin1') for a, b in zip(mts, mts[1:])), rid, tag + ':msgtable#sorted', t['schema'],
                  'message table (%d entries) is strictly sorted by message type (strcmp order)' % len(mts))
        ctx.check(set(mts) - pseudo == set(sc.messages), rid, tag + ':msgtable#keys', t['schema'], 'message table keys = schema message types',
                  'message types differ: generated-only %s, schema-only %s' % (sorted(set(mts) - set(sc.messages))[:5], sorted(set(sc.messages) - set(mts))[:5]))
    for mt, info in sc.messages.items():
        if mt not in table or only_fields:
            continue
        cls, n = table[mt]
        stats['messages'] += 1
        if not only_groups:
            probs = []
            if n != info['name'] or not cls.endswith('::' + info['name']):
                probs.append('message type %s maps to class %s / name %s, schema name %s' % (mt, cls, n, info['name']))
            if m.admin.get(cls, False) != info['admin']:
                probs.append('is_admin() = %s, schema msgcat says admin=%s' % (m.admin.get(cls, False), info['admin']))
            ctx.check(not probs, rid, '%s:%s#message' % (tag, info['name']), t['schema'], 'message %s (%s): class, name and admin flag agree' % (info['name'], mt), '; '.join(probs))
        check_def(m.definition(cls), info['members'], info['name'], False)
    if only_groups:
        return stats, m, sc
    # fields
    used = set()
    def collect(ms):
        for mm in ms:
            used.add(mm.num)
            if mm.group is not None:
                collect(mm.group)
    collect(sc.header), collect(sc.trailer)
    for info in sc.messages.values():
        collect(info['members'])
    ftab = {num: (cpp, nm, rlm) for (num, cpp, nm, rlm) in m.fldtable}
    nums = [x[0] for x in m.fldtable]
    ctx.check(nums == sorted(nums) and len(set(nums)) == len(nums), rid, tag + ':fldtable#sorted', t['schema'], 'field table (%d entries) strictly sorted by tag' % len(nums))
    missing = sorted(u for u in used if u not in ftab)
    ctx.check(not missing, rid, tag + ':fldtable#covers-used', t['schema'], 'every field used by a message is in the field table', 'used fields missing from the field table: %s' % missing[:10])
    for num, (cpp, nm, rlm) in sorted(ftab.items()):
        f = sc.fields.get(num)
        stats['fields'] += 1
        probs = []
        if f is None:
            probs.append('tag %d is not defined by the schema' % num)
        else:
            if nm != f['name']:
                probs.append('name %s, schema %s' % (nm, f['name']))
            spec = TYPE_SPEC.get(f['type'])
            if spec is None:
                probs.append('schema type %s unknown to the type system' % f['type'])
            elif cpp is None or cpp[1] != num or cpp[0] != _cpp_of(spec[1], ft):
                probs.append('C++ type Field<%s, %s>, schema type %s requires Field<%s, %d>' % (cpp[0] if cpp else None, cpp[1] if cpp else None, f['type'], _cpp_of(spec[1], ft), num))
            has_vals = bool(f['values'])
            if t['realm'] and has_vals != (rlm is not None):
                probs.append('realm %s, schema has %d value(s)' % ('present' if rlm is not None else 'absent', len(f['values'])))
            if rlm is not None and f['values'] and rlm < len(m.realmbases):
                rb = m.realmbases[rlm]
                stats['realms'] += 1
                vals, et = m.realm_arrays.get(rb['realm'], ([], ''))
                descr = m.descr_arrays.get(rb['descr'], [])
                is_range = any(v[2] in ('lower', 'upper') for v in f['values'])
                def conv(e):
                    base = spec[1] if spec else 'STR'
                    if base in ('int',) or isinstance(base, tuple) and base[1] in ('ft_Length', 'ft_TagNum', 'ft_SeqNum', 'ft_NumInGroup', 'ft_DayOfMonth'):
                        try:
                            return int(e)
                        except ValueError:
                            return e
                    if base == 'char':
                        return ord(e[0]) if e else 0
                    if isinstance(base, tuple) and base[1] == 'ft_Boolean':
                        return ord(e[0]) if e else 0
                    if base == 'double':
                        try:
                            return float(e)
                        except ValueError:
                            return e
                    return e
                exp_pairs = {}
                for (e, dsc, rng) in f['values']:
                    exp_pairs.setdefault(conv(e), dsc)
                got_pairs = dict(zip(vals, descr))
                if len(vals) != len(descr) or rb['sz'] != len(vals):
                    probs.append('realm arrays: %d values, %d descriptions, _sz %s' % (len(vals), len(descr), rb['sz']))
                if not _runtime_sorted(vals, et):
                    probs.append('realm values not strictly ascending under the runtime comparison: %s' % vals[:8])
                if set(got_pairs) != set(exp_pairs):
                    probs.append('realm values %s…, schema values %s…' % (sorted(map(str, set(got_pairs) - set(exp_pairs)))[:5], sorted(map(str, set(exp_pairs) - set(got_pairs)))[:5]))
                else:
                    bad = [k for k in exp_pairs if _ident(exp_pairs[k]) != _ident(got_pairs[k])]
                    if bad:
                        probs.append('description of value %r is %r, schema %r' % (bad[0], got_pairs[bad[0]], exp_pairs[bad[0]]))
                if (rb['dtype'] == 0) != is_range and rb['dtype'] is not None:
                    probs.append('realm kind %s, schema %s' % (rb['dtype'], 'range' if is_range else 'set'))
                if is_range and len(vals) != 2:
                    probs.append('range realm with %d bounds' % len(vals))
        ctx.check(not probs, rid, '%s:field/%d#entry' % (tag, num), t['schema'], 'field %d %s: name, C++ type and enumerated domain agree' % (num, nm), '; '.join(probs[:3]), probs)
    return stats, m, sc


def _ident(s):
    """descriptions are emitted as identifiers: compare modulo the characters an identifier cannot carry"""
    import re
    return re.sub(r'[^A-Za-z0-9]', '_', str(s)).strip('_').upper()
