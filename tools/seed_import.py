#!/usr/bin/env python3
"""development helper: copy a sub-agent's candidate change /tmp/wt/<P>/_seed/{a,b} to /verif/seeded/<P>{a,b}/ (patch, demo, notes)
and write a meta.json skeleton; `confirm` results are merged into meta.json by tools/seeded.py confirm --record."""
import json, os, shutil, sys
V = os.path.dirname(os.path.dirname(os.path.abspath(__file__)))
r2 = '--round2' in sys.argv
r3 = '--round3' in sys.argv
# seed_import.py --tree <dir> [--round2] P        the candidates are in <dir>/_seed/{a,b}
# seed_import.py --tree <dir> --refactor P        behaviour-preserving patches <dir>/_seed/{a..d} -> seeded/refactor/P{a..d}/
tree = sys.argv[sys.argv.index('--tree') + 1] if '--tree' in sys.argv else None
if '--refactor' in sys.argv:
    P = [a for a in sys.argv[1:] if not a.startswith('--') and a != tree][0]
    for x in 'abcd':
        src = os.path.join(tree, '_seed', x)
        dst = os.path.join(V, 'seeded', 'refactor', P + x)
        if not os.path.exists(os.path.join(src, 'patch.diff')) or os.path.getsize(os.path.join(src, 'patch.diff')) == 0 or os.path.exists(dst):
            print('skip', src)
            continue
        os.makedirs(dst)
        for f in ('patch.diff', 'notes.md'):
            if os.path.exists(os.path.join(src, f)):
                shutil.copy(os.path.join(src, f), dst)
        print('imported', dst)
    sys.exit(0)
for P in [a for a in sys.argv[1:] if not a.startswith('--') and a != tree]:
    for x in 'ab':
        src = os.path.join(tree, '_seed', x) if tree else '/tmp/wt/%s%s/_seed/%s' % ('r2_' if r2 else '', P, x)
        if not os.path.exists(os.path.join(src, 'patch.diff')) or os.path.getsize(os.path.join(src, 'patch.diff')) == 0:
            print('skip', src)
            continue
        dst = os.path.join(V, 'seeded', P + ({'a': 'e', 'b': 'f'}[x] if r3 else {'a': 'c', 'b': 'd'}[x] if r2 else x))
        if os.path.exists(dst):
            print('exists', dst)
            continue
        os.makedirs(dst)
        for f in os.listdir(src):
            p = os.path.join(src, f)
            if os.path.isfile(p) and os.path.getsize(p) < 200000 and not f.endswith(('.o', '.log')) and f not in ('demo',):
                shutil.copy(p, dst)
        # demo.sh default root: make it /repo-agnostic (argument required by our tooling)
        meta = {'property': P, 'origin': 'independent sub-agent given only the property text and a private worktree (tools/seed_prompt.py%s)' % (', round-2 brief, third independent run' if r3 else ', round-2 brief' if r2 else ''),
                'summary': '', 'needs_to_manifest': '', 'confirmed': None, 'expected': None}
        json.dump(meta, open(os.path.join(dst, 'meta.json'), 'w'), indent=1)
        print('imported', dst)
