// Explicit instantiation of the generic FIX8::presorted_set class template (include/fix8/f8types.hpp) so that its member
// functions are analysed on a real instantiation; the FieldTrait specialisation (traits.hpp) is an ordinary class.
// Parsed by f8facts with the repo's flags; never compiled or run.
#include <fix8/f8includes.hpp>
namespace f8verif_witness {
struct Elem
{
	unsigned _k = 0;
	int _payload = 0;
	Elem() = default;
	Elem(unsigned k) : _k(k) {}
	struct Compare { bool operator()(const Elem& a, const Elem& b) const { return a._k < b._k; } };
};
}
namespace FIX8 {
template class presorted_set<unsigned, f8verif_witness::Elem, f8verif_witness::Elem::Compare>;
}
