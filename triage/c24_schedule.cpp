// R24.1/R24.2: weekly schedule starting and ending on the same weekday is never active; a weekly window that wraps the
// week (start day > end day) is still active after its end time on the end day.
#include <fix8/f8includes.hpp>
using namespace FIX8;
int main()
{
    Tickval now(true);
    const tm t(now.get_tm());
    const Tickval::ticks tod(now.get_ticks() % Tickval::day);
    bool ok = true;
    {   // same weekday, now inside [start, end]
        Schedule s(Tickval(tod - 60 * Tickval::second), Tickval(tod + 60 * Tickval::second), Tickval(), 0, t.tm_wday, t.tm_wday);
        bool a = s.test(false);
        std::cout << "same-day window, inside: test(false)=" << a << " (expected 1)" << std::endl;
        if (!a) ok = false;
    }
    if (t.tm_wday < 6)
    {   // window wraps: starts tomorrow-or-later, ended today a minute ago; it was active until then
        Schedule s(Tickval(tod - 120 * Tickval::second), Tickval(tod - 60 * Tickval::second), Tickval(), 0, t.tm_wday + 1, t.tm_wday);
        bool a = s.test(true);
        std::cout << "wrapping window, end day after end time: test(true)=" << a << " (expected 0)" << std::endl;
        if (a) ok = false;
    }
    std::cout << (ok ? "HOLDS" : "DEFECT") << std::endl;
    return ok ? 0 : 1;
}
