"""Model of what f8c generated, read from the AST facts of the generated translation units (never from their text)."""
import re
from .facts import VarInit, Node, AnalysisBroken


def _lit(n):
    """constant carried by an initialiser node: int / str / None"""
    s = n.strip(casts=True)
    if s.k == 'StringLiteral':
        return s.r.get('s') if 's' in s.r else bytes.fromhex(s.r.get('hex', '')).decode('latin1')
    if s.value is not None:
        return s.value
    if s.k == 'FloatingLiteral':
        return s.r.get('fv')
    if s.k in ('CXXConstructExpr', 'CXXTemporaryObjectExpr', 'InitListExpr', 'CXXFunctionalCastExpr', 'CXXStdInitializerListExpr') or s.k.endswith('CastExpr'):
        real = [a for a in (s.args if s.is_call else s.children) if a.k != 'CXXDefaultArgExpr']
        for a in real:
            v = _lit(a)
            if v is not None:
                return v
    if s.k == 'UnaryOperator' and s.op == '-':
        v = _lit(s.children[0])
        return -v if isinstance(v, (int, float)) else None
    return None


def _elems(n):
    """elements of an array / aggregate initialiser"""
    s = n.strip(casts=True)
    while s.k in ('CXXConstructExpr', 'CXXStdInitializerListExpr', 'ExprWithCleanups', 'MaterializeTemporaryExpr') and len(s.children) == 1:
        s = s.children[0].strip(casts=True)
    if s.k == 'InitListExpr':
        return s.children
    if s.is_call:
        real = [a for a in s.args if a.k != 'CXXDefaultArgExpr']
        if len(real) == 1 and real[0].strip(casts=True).k in ('CXXStdInitializerListExpr', 'InitListExpr', 'MaterializeTemporaryExpr'):
            return _elems(real[0])
        return real
    return []


class Definition:
    def __init__(self, cls):
        self.cls = cls            # qualified class name
        self.rows = []            # (num, ftype, pos, comp, bits)
        self.traits_var = None    # name of the array finally used
        self.shared = False
        self.fieldcnt = None
        self.ftha = None          # (array var name, n)
        self.msgtype = None
        self.groups = {}          # num -> Definition
        self.fnum = None
        self.nested_factory = {}  # num -> class created by create_nested_group
        self.ctor_groups = {}     # num -> class inserted by the deep constructor
        self.elem_groups = None   # num -> class inserted by create_group(deepctor) of a group class (None: no such function seen)


class GenModel:
    def __init__(self, g, target):
        self.t = target
        self.ns = 'FIX8::' + target['ns'] + '::'
        tr, cl, ty = g['traits'], g['classes'], g['types']
        self.tus = g
        # ---- arrays of FieldTrait by variable name
        self.arrays, self.ptrs, self.fthas, self.msgtypes = {}, {}, {}, {}
        for tu in (tr, cl):
            for v in tu.vars:
                vi = VarInit(tu, v)
                tc = tu.types[v['t']]
                c = tc['c']
                if tc['k'] == 'array' and tu.types[tc['elem']]['c'].replace('const ', '') == 'FIX8::FieldTrait':
                    rows = []
                    for e in _elems(vi.init):
                        vals = [_lit(x) for x in _elems(e)][:5]
                        if len(vals) == 5:
                            rows.append(tuple(vals))
                    self.arrays[v['q']] = rows
                elif c.replace('const ', '') in ('FIX8::FieldTrait *', 'FIX8::FieldTrait *const'):
                    d = [x for x in vi.init.walk() if x.k == 'DeclRefExpr']
                    if d:
                        self.ptrs[v['q']] = d[0].decl['q']
                elif 'FieldTrait_Hash_Array' in c:
                    a = _elems(vi.init)
                    refs = [x for x in vi.init.walk() if x.k == 'DeclRefExpr' and x.decl.get('k') == 'Var']
                    if c.endswith('&') and refs:
                        self.fthas[v['q']] = ('&', refs[0].decl['q'])
                    elif len(a) >= 2:
                        arr = [x for x in a[0].walk() if x.k == 'DeclRefExpr']
                        n = _lit(a[1])
                        if n is None:
                            dr = [x for x in a[1].walk() if x.k == 'DeclRefExpr']
                            n = dr[0].decl.get('cv') if dr else None
                        self.fthas[v['q']] = (arr[0].decl['q'] if arr else None, n)
                elif v['n'].endswith('_msgtype'):
                    s = _lit(vi.init)
                    refs = [x for x in vi.init.walk() if x.k == 'DeclRefExpr' and x.decl.get('k') == 'Var']
                    if isinstance(s, str):
                        self.msgtypes[v['q']] = s
                    elif refs:
                        self.msgtypes[v['q']] = ('&', refs[0].decl['q'])
        # ---- classes
        self.records = {r['q']: r for r in cl.records}
        self.fieldcnt = {}
        for d in cl.decls:
            if d and d.get('n') == '_fieldcnt' and 'cv' in d:
                self.fieldcnt[d['q'].rsplit('::', 1)[0]] = d['cv']
        for d in tr.decls:
            if d and d.get('n') == '_fieldcnt' and 'cv' in d:
                self.fieldcnt.setdefault(d['q'].rsplit('::', 1)[0], d['cv'])
        self.fnums = {}
        for e in cl.enums:
            for n, v in e['e']:
                if n == '_fnum':
                    self.fnums[e['q'].rsplit('::', 1)[0] if '::' in e['q'] else e['q']] = v
        # enum names of unnamed enums print like 'X::(unnamed enum at …)': recover the class prefix
        for e in cl.enums:
            for n, v in e['e']:
                if n == '_fnum':
                    m = re.match(r'^(.*)::\(unnamed', e['q'])
                    if m:
                        self.fnums[m.group(1)] = v
        self.admin = {}
        self.factories = {}
        self.ctor_groups = {}
        self.elem_groups = {}      # group class -> {num: class} registered by create_group(deepctor)
        for f in cl.functions:
            if f.q.endswith('::is_admin'):
                rets = [n for n in f.all_nodes() if n.k == 'ReturnStmt']
                if len(rets) == 1:
                    self.admin[f.rec] = bool(rets[0].children[0].strip(casts=True).value)
            if f.q.endswith('::create_nested_group'):
                m = {}
                news = [n for n in f.all_nodes() if n.k == 'CXXNewExpr']
                for nw in news:
                    cls = f.tu.types[nw.r['alloc']].get('rec') or f.tu.types[nw.r['alloc']]['c']
                    key = None
                    for a in nw.ancestors():
                        if a.k == 'ConditionalOperator':
                            c = a.child('cond').strip(casts=True)
                            if c.k == 'BinaryOperator' and c.op == '==':
                                key = c.children[1].strip(casts=True).value
                            break
                        if a.k == 'CaseStmt':
                            key = Node(f, a.r['lhs']).strip(casts=True).value
                            break
                    m[key] = cls
                self.factories[f.rec] = m
            if (f.kind == 'ctor' or f.q.endswith('::create_group')) and f.rec in self.records:
                m = {}
                for nw in [n for n in f.all_nodes() if n.k == 'CXXNewExpr']:
                    cls = f.tu.types[nw.r['alloc']].get('rec') or f.tu.types[nw.r['alloc']]['c']
                    if not any(b.get('q') == 'FIX8::GroupBase' for b in self.records.get(cls, {}).get('bases', [])):
                        continue          # only `new <group class>`
                    # the pair {num, new X}
                    p = nw.parent
                    key = None
                    while p is not None and key is None:
                        if p.k in ('InitListExpr', 'CXXConstructExpr', 'CXXTemporaryObjectExpr'):
                            vals = [x.strip(casts=True).value for x in (p.children if p.k == 'InitListExpr' else p.args)]
                            ints = [v for v in vals if isinstance(v, int)]
                            if ints:
                                key = ints[0]
                        p = p.parent
                    m[key] = cls
                if m and f.kind == 'ctor':
                    self.ctor_groups[f.rec] = m
                elif f.kind != 'ctor':
                    self.elem_groups[f.rec] = m
        # ---- message table
        self.msgtable = []          # (msgtype, class, name)
        for v in cl.vars:
            if v['n'] == 'msgpairs':
                vi = VarInit(cl, v)
                for e in _elems(vi.init):
                    parts = _elems(e)
                    if len(parts) < 2:
                        continue
                    mt = _lit(parts[0])
                    inner = _elems(parts[1])
                    clsn, nm = None, None
                    for x in parts[1].walk():
                        if x.type and x.type.get('c', '').startswith('FIX8::Type2Type<') and clsn is None:
                            m = re.match(r'^FIX8::Type2Type<(.*?)(?:, .*)?>$', x.type['c'])
                            if m:
                                clsn = m.group(1)
                        if x.k == 'StringLiteral' and nm is None:
                            nm = x.r.get('s')
                    self.msgtable.append((mt, clsn, nm))
        # ---- field table & realms
        self.realm_arrays, self.descr_arrays = {}, {}
        for v in ty.vars:
            vi = VarInit(ty, v)
            if v['n'].endswith('_realm'):
                self.realm_arrays[v['q']] = ([_lit(e) for e in _elems(vi.init)], ty.types[ty.types[v['t']].get('elem', v['t'])]['c'] if ty.types[v['t']]['k'] == 'array' else '')
            elif v['n'].endswith('_descriptions'):
                self.descr_arrays[v['q']] = [_lit(e) for e in _elems(vi.init)]
        self.realmbases = []
        self.fldtable = []
        for v in ty.vars:
            vi = VarInit(ty, v)
            if v['n'] == 'realmbases':
                for e in _elems(vi.init):
                    a = _elems(e)
                    refs0 = [x for x in a[0].walk() if x.k == 'DeclRefExpr'] if a else []
                    refs4 = [x for x in a[4].walk() if x.k == 'DeclRefExpr'] if len(a) > 4 else []
                    self.realmbases.append({'realm': refs0[0].decl['q'] if refs0 else None, 'dtype': _lit(a[1]) if len(a) > 1 else None,
                                            'ftype': _lit(a[2]) if len(a) > 2 else None, 'sz': _lit(a[3]) if len(a) > 3 else None,
                                            'descr': refs4[0].decl['q'] if refs4 else None})
            elif v['n'] == 'fldpairs':
                for e in _elems(vi.init):
                    parts = _elems(e)
                    if len(parts) < 2:
                        continue
                    num = _lit(parts[0])
                    ftype_cpp, nm, rlm = None, None, None
                    for x in parts[1].walk():
                        if x.type and x.type.get('c', '').startswith('FIX8::Type2Type<FIX8::Field<') and ftype_cpp is None:
                            m = re.match(r'^FIX8::Type2Type<FIX8::Field<(.*), (\d+)>(?:, (.*))?>$', x.type['c'])
                            if m:
                                ftype_cpp = (m.group(1), int(m.group(2)))
                        if x.k == 'StringLiteral' and nm is None:
                            nm = x.r.get('s')
                        if x.k == 'ArraySubscriptExpr' and rlm is None:
                            rlm = x.children[1].strip(casts=True).value
                    self.fldtable.append((num, ftype_cpp, nm, rlm))
        self.compnames = []
        for tu in (tr, cl, ty):
            for v in tu.vars:
                if v['n'] in ('comp_names', '_cn', 'cn') and not self.compnames:
                    self.compnames = [_lit(e) for e in _elems(VarInit(tu, v).init)]

    # ------------------------------------------------------------------
    def definition(self, cls):
        """Definition of message/group class `cls` (qualified), recursively"""
        d = Definition(cls)
        tv = cls + '::_traits'
        if tv in self.arrays:
            d.rows, d.traits_var = self.arrays[tv], tv
        elif tv in self.ptrs and self.ptrs[tv] in self.arrays:
            d.rows, d.traits_var, d.shared = self.arrays[self.ptrs[tv]], self.ptrs[tv], True
        else:
            raise AnalysisBroken('no trait table found for generated class ' + cls)
        d.fieldcnt = self.fieldcnt.get(cls)
        f = self.fthas.get(cls + '::_ftha')
        if f and f[0] == '&':
            f = self.fthas.get(f[1])
        d.ftha = f
        mt = self.msgtypes.get(cls + '::_msgtype')
        if isinstance(mt, tuple):
            mt = self.msgtypes.get(mt[1])
        d.msgtype = mt
        d.fnum = self.fnums.get(cls)
        d.nested_factory = self.factories.get(cls, {})
        d.ctor_groups = self.ctor_groups.get(cls, {})
        d.elem_groups = self.elem_groups.get(cls)
        for q, r in self.records.items():
            if q.startswith(cls + '::') and '::' not in q[len(cls) + 2:] and any(b.get('q') == 'FIX8::GroupBase' for b in r['bases']):
                g = self.definition(q)
                d.groups[g.fnum] = g
        return d
