// R28.6: an accepted empty line must not be taken for the stop sentinel (which is also an empty string).
#include <fix8/f8includes.hpp>
#include <fstream>
using namespace FIX8;
int main()
{
    const char *fn = "c28_empty.log";
    unlink(fn);
    Logger::LogFlags flags; flags << Logger::sequence;
    unsigned accepted = 0;
    {
        FileLogger lg(fn, flags, Logger::Levels(Logger::All));
        for (const char *s : { "one", "two", "", "three", "four" })
            if (lg.send(s)) ++accepted;
        hypersleep<h_milliseconds>(50);
        lg.stop();
    }
    std::ifstream in(fn); std::string l; unsigned lines = 0, nonempty = 0;
    while (std::getline(in, l)) { ++lines; if (l.find("one") != std::string::npos || l.find("two") != std::string::npos || l.find("three") != std::string::npos || l.find("four") != std::string::npos) ++nonempty; }
    unlink(fn);
    std::cout << "accepted=" << accepted << " lines in file=" << lines << " of which the four texts=" << nonempty << std::endl;
    bool ok = accepted == 5 && nonempty == 4;
    std::cout << (ok ? "HOLDS" : "DEFECT: lines accepted after an empty line are never written (the empty line ended the logger thread)") << std::endl;
    return ok ? 0 : 1;
}
