#!/usr/bin/env python3
"""development helper: seed_meta.py <id> <summary> <needs>  - fill the descriptive fields of seeded/<id>/meta.json"""
import json, os, sys
V = os.path.dirname(os.path.dirname(os.path.abspath(__file__)))
i, summ, needs = sys.argv[1:4]
p = os.path.join(V, 'seeded', i, 'meta.json')
m = json.load(open(p))
m['summary'], m['needs_to_manifest'] = summ, needs
json.dump(m, open(p, 'w'), indent=1)
