// R16.3: a send with a custom sequence number (gap fill) does not advance the send counter, but the
// control record is written as counter+1.
#include "sess.hpp"
int main()
{
    Fix f; f.logon();
    f.ss->send(f.ss->generate_sequence_reset(9, true), true, 5);
    unsigned s1, r1; f.per->get(s1, r1);
    std::cout << "session next_send=" << f.ss->nss() << " next_receive=" << f.ss->nrs() << " persisted=(" << s1 << "," << r1 << ")" << std::endl;
    bool ok = r1 == f.ss->nrs() && s1 == f.ss->nss();
    std::cout << (ok ? "HOLDS" : "DEFECT: control record differs from the counters after a custom-seqnum send") << std::endl;
    return ok ? 0 : 1;
}
