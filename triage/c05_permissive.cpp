// R05.2 / R05.3: permissive decode then re-encode.
#include "/repo/runtime/message.cpp"
#include "utest_types.hpp"
#include "utest_router.hpp"
#include "utest_classes.hpp"
using namespace FIX8::UTEST;
static f8String frame(const f8String& body35on)
{
    std::ostringstream o; o << "8=FIX.4.2\0019=" << body35on.size() << '\001' << body35on;
    f8String s(o.str()); unsigned sum = 0; for (unsigned char c : s) sum += c;
    char cs[8]; snprintf(cs, sizeof cs, "10=%03u\001", sum % 256); return s + cs;
}
static std::string show(std::string s) { for (auto& c : s) if (c == 1) c = '|'; return s; }
int main()
{
    int bad = 0;
    {   // unknown tag in the body
        f8String in(frame("35=A\00134=1\00149=CLIENT\00156=SERVER\00152=20130304-02:44:30.000\001108=30\00198=0\0011234=blah\001"));
        std::unique_ptr<Message> m(Message::factory(ctx(), in, false, true));
        f8String out; m->encode(out);
        std::cout << "in : " << show(in) << std::endl << "out: " << show(out) << std::endl;
        size_t n = 0, p = 0; while ((p = out.find("1234=blah", p)) != f8String::npos) { ++n; ++p; }
        size_t c10 = 0; p = 0; while ((p = out.find("\00110=", p)) != f8String::npos) { ++c10; ++p; }
        if (n != 1 || c10 != 1) { ++bad; std::cout << "  DEFECT: unknown field emitted " << n << " time(s), CheckSum field " << c10 << " time(s)" << std::endl; }
    }
    {   // unknown tag inside a repeating group
        f8String in(frame("35=B\00149=A\00156=B\00134=78\00152=20131125-02:19:46.108\001148=news\00133=2\00158=line one\0011234=zz\00158=line two\001"));
        std::unique_ptr<Message> m(Message::factory(ctx(), in, false, true));
        const GroupBase *g(m->find_group(33));
        std::cout << "group elements decoded: " << (g ? g->size() : 0) << " (expected 2)" << std::endl;
        if (!g || g->size() != 2) { ++bad; std::cout << "  DEFECT: a known group field was lost" << std::endl; }
    }
    std::cout << (bad ? "DEFECT" : "HOLDS") << std::endl;
    return bad ? 1 : 0;
}
