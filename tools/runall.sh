#!/bin/bash
# development helper: run every registered quick check, one line each
cd "$(dirname "$0")/.."
for p in $(python3 -c "import json;print(' '.join(c['property_id'] for c in json.load(open('MANIFEST.json'))['checks']))") "$@"; do
  out=$(./check $p 2>&1); rc=$?
  echo "rc=$rc $(echo "$out" | tail -1)"
done
