// R03.6: Message::factory on a message whose MsgType text is "header" or "trailer": the generated message table has entries for these
// two pseudo messages whose factories build a MessageBase, not a Message.
#include <fix8/f8includes.hpp>
#include "utest_types.hpp"
#include "utest_router.hpp"
#include "utest_classes.hpp"
#include <sys/wait.h>
using namespace FIX8;
static std::string frame(const std::string& mt)
{
    std::string body = "35=" + mt + "\00149=A\00156=B\00134=1\00152=20130305-00:00:00\001";
    std::string m = "8=FIX.4.2\0019=" + std::to_string(body.size()) + "\001" + body;
    unsigned s = 0; for (unsigned char c : m) s += c;
    char cs[16]; snprintf(cs, sizeof cs, "10=%03u\001", s % 256);
    return m + cs;
}
int main()
{
    bool ok = true;
    for (const char *mt : { "0", "ZZ", "header", "trailer" })
    {
        pid_t pid = fork();
        if (pid == 0)
        {
            try { Message *m = Message::factory(UTEST::ctx(), frame(mt)); delete m; }
            catch (f8Exception& e) {}
            catch (std::exception& e) {}
            _exit(0);
        }
        int st; waitpid(pid, &st, 0);
        if (WIFSIGNALED(st)) { ok = false; std::cout << "35=" << mt << ": Message::factory killed by signal " << WTERMSIG(st) << std::endl; }
        else std::cout << "35=" << mt << ": returned or threw" << std::endl;
    }
    std::cout << (ok ? "HOLDS" : "DEFECT: decoding a message whose MsgType is the name of a pseudo message crashes") << std::endl;
    return ok ? 0 : 1;
}
