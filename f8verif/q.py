"""Reusable queries over facts: member reads/writes, definitions of locals, reaching definitions,
RAII guard ranges, boolean-formula extraction, linear forms."""
from .facts import Node, AnalysisBroken, TRANSPARENT, EXPLICIT_CASTS

ASSIGN_OPS = {'=', '+=', '-=', '*=', '/=', '%=', '<<=', '>>=', '&=', '|=', '^='}
INCDEC = {'++', '--'}


def refers_to_member(n, qp):
    """node (after stripping) is a MemberExpr naming the field/method with plain qualified name qp"""
    s = n.strip()
    return s.k == 'MemberExpr' and s.decl is not None and s.decl.get('qp') == qp


def refers_to_decl(n, declid, casts=True):
    s = n.strip(casts=casts)
    return s.k == 'DeclRefExpr' and s.declid == declid


def member_refs(fn, qp):
    return [n for n in fn.all_nodes() if n.k == 'MemberExpr' and n.decl is not None and n.decl.get('qp') == qp]


def is_write_target(n):
    """Is node n (a DeclRefExpr/MemberExpr/…) used as the target of a store? returns the storing node
    or None. Recognises =, op=, ++/--, overloaded operator=/++/op= on class types (f8_atomic,
    std::string), and non-const method calls are NOT counted (see mutating_call)."""
    p = n.parent
    cur = n
    while p is not None and (p.k in TRANSPARENT or p.k == 'ParenExpr'):
        cur, p = p, p.parent
    if p is None:
        return None
    if p.k in ('BinaryOperator', 'CompoundAssignOperator') and p.op in ASSIGN_OPS:
        if p.children and p.children[0] == cur:
            return p
    if p.k == 'UnaryOperator' and p.op in INCDEC:
        return p
    if p.k == 'CXXOperatorCallExpr' and p.r.get('op') in (ASSIGN_OPS | INCDEC):
        o = p.obj
        if o is not None and o == cur:
            return p
        if o is None and p.args and p.args[0] == cur:
            return p
    return None


def member_writes(fn, qp):
    """stores to member qp inside fn: [(storing node, member ref node)]"""
    out = []
    for m in member_refs(fn, qp):
        w = is_write_target(m)
        if w is not None:
            out.append((w, m))
    return out


def local_defs(fn, declid, definite_out_calls=()):
    """Definitions of local/param `declid` in fn: [(node, kind, value node or None)]
    kind: 'init' (DeclStmt), 'assign', 'incdec', 'out' (address or non-const reference handed to a
    call — a may-definition unless the callee is in definite_out_calls)."""
    out = []
    tu = fn.tu
    for n in fn.all_nodes():
        if n.k == 'DeclStmt':
            for d, init in n.r.get('decls', []):
                if d == declid:
                    dn = n
                    if len(n.r.get('decls', [])) > 1 and 'cfg' in fn.raw and d in fn.cfg.decl_vertex:
                        dn = fn.cfg.V[fn.cfg.decl_vertex[d]].node      # the per-declarator DeclStmt clang synthesised
                    out.append((dn, 'init', Node(fn, init) if init >= 0 else None))
        elif n.k == 'DeclRefExpr' and n.declid == declid:
            w = is_write_target(n)
            if w is not None:
                if w.k == 'UnaryOperator' or (w.k == 'CXXOperatorCallExpr' and w.r.get('op') in INCDEC):
                    out.append((w, 'incdec', None))
                else:
                    rhs = w.children[1] if w.k != 'CXXOperatorCallExpr' else (w.args[-1] if w.args else None)
                    out.append((w, 'assign' if w.op == '=' or w.r.get('op') == '=' else 'opassign', rhs))
                continue
            # address taken / bound to non-const reference parameter of a call
            p, cur = n.parent, n
            addr = False
            while p is not None and (p.k in TRANSPARENT or (p.k == 'UnaryOperator' and p.op == '&')):
                if p.k == 'UnaryOperator':
                    addr = True
                cur, p = p, p.parent
            if p is not None and p.is_call and p.callee is not None:
                args = p.args
                if cur in args:
                    ai = args.index(cur)
                    pts = p.callee.get('pt', [])
                    if ai < len(pts):
                        pt = tu.types[pts[ai]]
                        outp = False
                        if addr and pt['k'] == 'ptr' and not tu.types[pt['pointee']].get('const'):
                            outp = True
                        if not addr and pt['k'] == 'ref' and not tu.types[pt['pointee']].get('const'):
                            outp = True
                        if outp:
                            kind = 'out!' if p.callee_qp in definite_out_calls else 'out'
                            out.append((p, kind, None))
    return out


def reaching_defs(fn, declid, use_node, definite_out_calls=()):
    """Definitions of `declid` that may reach the evaluation of use_node.
    Returns [(def node, kind, value)]. Definite definitions (init/assign/out!) kill."""
    cfg = fn.cfg
    defs = local_defs(fn, declid, definite_out_calls)
    uv = cfg.vertex_of(use_node)
    dverts = []
    for (n, kind, val) in defs:
        if not cfg.has_vertex(n):
            continue
        dverts.append((cfg.vertex_of(n), n, kind, val))
    killers = {v for (v, n, kind, val) in dverts if kind in ('init', 'assign', 'out!')}
    res = []
    for (v, n, kind, val) in dverts:
        r = cfg.reach_from(v, avoid=killers - {uv})
        if uv in r:
            res.append((n, kind, val))
    # parameter: entry definition
    entry_reach = cfg.reach_from(cfg.entry, avoid=killers - {uv})
    d = fn.tu.decls[declid]
    if d.get('sc') == 'param' and uv in entry_reach:
        res.append((None, 'param', None))
    return res


# --------------------------------------------------------------------------- RAII guard ranges
def guard_ranges(fn, lock_member_qp=None, guard_types=('f8_scoped_lock_impl', 'f8_scoped_spin_lock', 'lock_guard', 'unique_lock')):
    """Locals whose type names a scoped guard: [(decl id, DeclStmt node, lock expr node, held vertices)].
    Held = vertices reachable from the construction without passing the guard's automatic destructor
    element or an explicit .release()/.unlock() on it."""
    cfg = fn.cfg
    out = []
    for n in fn.all_nodes():
        if n.k != 'DeclStmt':
            continue
        for d, init in n.r.get('decls', []):
            dd = fn.tu.decls[d]
            ty = fn.tu.types[dd['t']]['c']
            if not any(g in ty for g in guard_types):
                continue
            if init < 0:
                continue
            ctor = Node(fn, init).strip()
            lockexpr = ctor.args[0] if ctor.is_call and ctor.args else None
            if lock_member_qp is not None:
                if lockexpr is None or not any(m.k == 'MemberExpr' and m.decl and m.decl.get('qp') == lock_member_qp
                                               for m in lockexpr.walk()):
                    continue
            if not cfg.has_vertex(n):
                continue
            start = cfg.vertex_of(n)
            ends = set()
            for v in cfg.V:
                if v.el and v.el.get('dtor') == 'auto' and v.el.get('d') == d:
                    ends.add(v.id)
                if v.node is not None and v.node.k == 'CXXMemberCallExpr' and v.node.callee is not None \
                        and v.node.callee.get('n') in ('release', 'unlock'):
                    o = v.node.obj
                    if o is not None and refers_to_decl(o, d):
                        ends.add(v.id)
            held = cfg.reach_from(start, avoid=ends)
            out.append((d, n, lockexpr, held, ctor))
    return out


# --------------------------------------------------------------------------- boolean structure
def bool_atoms(n):
    """Decompose a condition into a formula tree: ('and', a, b) | ('or', a, b) | ('not', a) | ('atom', Node)"""
    s = n.strip()
    if s.k == 'BinaryOperator' and s.op == '&&':
        a, b = s.children
        return ('and', bool_atoms(a), bool_atoms(b))
    if s.k == 'BinaryOperator' and s.op == '||':
        a, b = s.children
        return ('or', bool_atoms(a), bool_atoms(b))
    if s.k == 'UnaryOperator' and s.op == '!':
        return ('not', bool_atoms(s.children[0]))
    return ('atom', s)


def formula_atoms(f):
    if f[0] == 'atom':
        return [f[1]]
    out = []
    for x in f[1:]:
        out += formula_atoms(x)
    return out


def eval_formula(f, val):
    """val: function Node -> bool"""
    if f[0] == 'atom':
        return val(f[1])
    if f[0] == 'not':
        return not eval_formula(f[1], val)
    if f[0] == 'and':
        return eval_formula(f[1], val) and eval_formula(f[2], val)
    if f[0] == 'or':
        return eval_formula(f[1], val) or eval_formula(f[2], val)
    raise ValueError(f)


# --------------------------------------------------------------------------- linear forms
class Lin:
    """c0 + sum(ci * sym_i); syms are strings (canonical text of non-linear leaves)"""

    def __init__(self, c=0, terms=None):
        self.c = c
        self.t = {k: v for k, v in (terms or {}).items() if v != 0}

    def __add__(self, o):
        t = dict(self.t)
        for k, v in o.t.items():
            t[k] = t.get(k, 0) + v
        return Lin(self.c + o.c, t)

    def __neg__(self):
        return Lin(-self.c, {k: -v for k, v in self.t.items()})

    def __sub__(self, o):
        return self + (-o)

    def scale(self, k):
        return Lin(self.c * k, {s: v * k for s, v in self.t.items()})

    def is_const(self):
        return not self.t

    def __eq__(self, o):
        return isinstance(o, Lin) and self.c == o.c and self.t == o.t

    def __repr__(self):
        parts = []
        for k in sorted(self.t):
            v = self.t[k]
            parts.append(('%s' % k) if v == 1 else ('-%s' % k) if v == -1 else '%d*%s' % (v, k))
        if self.c or not parts:
            parts.append(str(self.c))
        return ' + '.join(parts).replace('+ -', '- ')


def linear(n, env=None, sym=None, inline=None, _depth=0):
    """Linear form of an integer/pointer expression. env: decl id -> Lin substitution (e.g. from
    reaching definitions). sym(node) names a leaf; default: its text.
    inline(callee_qp) -> [Fn]: a call to a function whose body is one return statement is replaced by that expression with the
    parameters standing for the (linear forms of the) arguments (`next_due(now, ms)` -> `now.get_ticks() + ms * million`)."""
    env = env or {}
    sym = sym or (lambda x: x.text())
    s = n.strip(casts=True)
    if inline is not None and _depth < 3 and s.is_call and s.callee_qp and s.k != 'CXXMemberCallExpr':
        for h in inline(s.callee_qp):
            rr = [x for x in h.all_nodes() if x.k == 'ReturnStmt' and x.children]
            if len(rr) == 1 and len(h.param_ids) == len(s.args) and not [x for x in h.all_nodes() if x.k in ('IfStmt', 'ForStmt', 'WhileStmt', 'DoStmt', 'SwitchStmt')]:
                env2 = {pid: linear(a, env, sym, inline, _depth + 1) for pid, a in zip(h.param_ids, s.args) if a.strip(casts=True).k != 'CXXThisExpr'}
                # a parameter that is an object (its methods are called) keeps its name: the leaf namer sees `param.method()` as written
                env2 = {pid: lf for pid, lf in env2.items() if not any(x.k == 'MemberExpr' and x.children and x.children[0].strip(casts=True).k == 'DeclRefExpr' and
                                                                      x.children[0].strip(casts=True).declid == pid for x in rr[0].walk())}
                return linear(rr[0].children[0], env2, sym, inline, _depth + 1)
    v = s.value
    if v is not None and s.k not in ('DeclRefExpr',):
        return Lin(v)
    if s.k == 'DeclRefExpr':
        if s.declid in env:
            return env[s.declid]
        if v is not None:
            return Lin(v)
        return Lin(0, {sym(s): 1})
    if s.k == 'BinaryOperator':
        a, b = s.children
        if s.op == '+':
            return linear(a, env, sym, inline, _depth) + linear(b, env, sym, inline, _depth)
        if s.op == '-':
            return linear(a, env, sym, inline, _depth) - linear(b, env, sym, inline, _depth)
        if s.op == '*':
            la, lb = linear(a, env, sym, inline, _depth), linear(b, env, sym, inline, _depth)
            if la.is_const():
                return lb.scale(la.c)
            if lb.is_const():
                return la.scale(lb.c)
    if s.k == 'UnaryOperator' and s.op == '-':
        return -linear(s.children[0], env, sym, inline, _depth)
    if s.k == 'UnaryOperator' and s.op == '+':
        return linear(s.children[0], env, sym, inline, _depth)
    return Lin(0, {sym(s): 1})


# --------------------------------------------------------------------------- provenance
def origins(fn, node, definite_out_calls=(), _seen=None, _depth=0):
    """Where may the value of `node` come from? Follows locals through their reaching definitions,
    conversions (single-argument constructors, casts), ?: and pointer±const.
    Returns a list of (kind, node): ('out', call) value written by a callee through &local / ref;
    ('expr', n) any other expression; ('param', None); ('mod', n) modified in place (++/op=)."""
    _seen = _seen if _seen is not None else set()
    s = node.strip(casts=True)
    key = s.i
    if key in _seen or _depth > 12:
        return []
    _seen.add(key)
    rec = lambda x: origins(fn, x, definite_out_calls, _seen, _depth + 1)
    if s.k in ('CXXConstructExpr', 'CXXTemporaryObjectExpr') and len(s.args) >= 1 and \
            all(a.k == 'CXXDefaultArgExpr' for a in s.args[1:]):
        return rec(s.args[0])
    if s.k == 'ConditionalOperator':
        return rec(s.child('then')) + rec(s.child('else'))
    if s.k == 'BinaryOperator' and s.op in ('+', '-'):
        a, b = s.children
        if b.strip(casts=True).value is not None:
            return rec(a)
        if a.strip(casts=True).value is not None and s.op == '+':
            return rec(b)
    if s.k == 'BinaryOperator' and s.op == ',':
        return rec(s.children[1])
    if s.k == 'DeclRefExpr':
        d = s.decl
        if d and d.get('sc') in ('local', 'param') and d.get('k') in ('Var', 'ParmVar'):
            out = []
            try:
                rds = reaching_defs(fn, s.declid, s, definite_out_calls)
            except AnalysisBroken:
                return [('expr', s)]
            for (dn, kind, val) in rds:
                if kind == 'init' and val is None:
                    continue          # declaration without initialiser: no value of its own
                if kind in ('init', 'assign') and val is not None:
                    out += rec(val)
                elif kind in ('out', 'out!'):
                    out.append(('out', dn))
                elif kind == 'param':
                    out.append(('param', s))
                elif kind in ('incdec', 'opassign'):
                    out.append(('mod', dn))
                else:
                    out.append(('expr', dn if dn is not None else s))
            return out
    return [('expr', s)]


def polar(cond, way):
    """normalise a branch decision: strip leading `!` — returns (atom node, polarity)"""
    c = cond.strip()
    while True:
        if c.k == 'UnaryOperator' and c.op == '!':
            c = c.children[0].strip()
            way = not way
            continue
        if c.k == 'BinaryOperator' and c.op in ('&&', '||'):
            # `!(a && b)`: clang reports the whole negated condition for the block that ends in the IfStmt, but that block is entered only once `a`
            # did not short-circuit: the deciding value is the right-most operand (cfg.cond_node does the same for the un-negated form)
            c = c.children[1].strip()
            continue
        return c, way


def controlling_atoms(fn, node):
    """[(atom Node, polarity)] of the branch decisions that dominate the evaluation of node"""
    cfg = fn.cfg
    return [polar(c, w) for (c, w) in cfg.controlling(cfg.vertex_of(node))]


def calls_in(n, qp=None):
    return [x for x in n.walk() if x.is_call and x.callee is not None and (qp is None or x.callee_qp == qp)]


def param_type_str(call, i):
    pts = call.callee.get('pt', [])
    return call.fn.tu.types[pts[i]]['c'] if i < len(pts) else ''


# --------------------------------------------------------------------------- small evaluators
def const_bool_locals(fn):
    """decl ids of local bool variables that are initialised once and never written again"""
    out = {}
    for n in fn.all_nodes():
        if n.k == 'DeclStmt':
            for d, init in n.r.get('decls', []):
                dd = fn.tu.decls[d]
                if fn.tu.types[dd['t']]['k'] == 'bool' and dd.get('sc') == 'local' and init >= 0:
                    defs = local_defs(fn, d)
                    if len(defs) == 1:
                        out[d] = Node(fn, init)
    return out


def eval_int(n, env, atom=None):
    """evaluate an integer/bool expression under env {decl id: int}; atom(node) may supply the value of
    any sub-expression (symbolic atoms); None if not determined"""
    if atom is not None:
        r = atom(n.strip(casts=True))
        if r is not None:
            return int(r)
    s = n.strip(casts=True)
    if s.k == 'DeclRefExpr' and s.declid in env:
        return int(env[s.declid])
    v = s.value
    if v is not None:
        return v
    if s.k == 'ConditionalOperator':
        c = eval_int(s.child('cond'), env, atom)
        if c is None:
            a, b = eval_int(s.child('then'), env, atom), eval_int(s.child('else'), env, atom)
            return a if a is not None and a == b else None
        return eval_int(s.child('then') if c else s.child('else'), env, atom)
    if s.k == 'UnaryOperator' and s.op == '!':
        x = eval_int(s.children[0], env, atom)
        return None if x is None else int(not x)
    if s.k == 'UnaryOperator' and s.op == '-':
        x = eval_int(s.children[0], env, atom)
        return None if x is None else -x
    if s.k == 'BinaryOperator' and len(s.children) == 2:
        a, b = eval_int(s.children[0], env, atom), eval_int(s.children[1], env, atom)
        if s.op == '&&':
            if a == 0 or b == 0:
                return 0
            return 1 if a is not None and b is not None else None
        if s.op == '||':
            if (a is not None and a != 0) or (b is not None and b != 0):
                return 1
            return 0 if a == 0 and b == 0 else None
        if a is None or b is None:
            return None
        try:
            if s.op in ('/', '%'):
                if b == 0:
                    return None
                qt = abs(a) // abs(b) * (1 if (a >= 0) == (b >= 0) else -1)      # C: truncation towards zero
                return qt if s.op == '/' else a - qt * b
            return {'+': a + b, '-': a - b, '*': a * b, '<': int(a < b), '>': int(a > b), '<=': int(a <= b),
                    '>=': int(a >= b), '==': int(a == b), '!=': int(a != b), '&': a & b, '|': a | b}.get(s.op)
        except Exception:
            return None
    return None


def member_value_of(n, member_qp):
    """n reads member `member_qp` (directly or through a conversion operator / load()/get())"""
    s = n.strip(casts=True)
    if refers_to_member(s, member_qp):
        return True
    if s.k == 'CXXMemberCallExpr' and s.obj is not None and not s.args:
        return member_value_of(s.obj, member_qp)
    return False


def offset_from_member(n, member_qp, env):
    """if n == member + k (k evaluable under env) return k, else None"""
    s = n.strip(casts=True)
    if member_value_of(s, member_qp):
        return 0
    if s.k == 'BinaryOperator' and s.op in ('+', '-'):
        a, b = s.children
        ka = offset_from_member(a, member_qp, env)
        if ka is not None:
            kb = eval_int(b, env)
            if kb is not None:
                return ka + kb if s.op == '+' else ka - kb
        if s.op == '+':
            kb = offset_from_member(b, member_qp, env)
            ka2 = eval_int(a, env)
            if kb is not None and ka2 is not None:
                return kb + ka2
    if s.k == 'ConditionalOperator':
        c = eval_int(s.child('cond'), env)
        if c is not None:
            return offset_from_member(s.child('then') if c else s.child('else'), member_qp, env)
    return None


def valuation_edge_filter(fn, env):
    """edge predicate pruning branch edges that contradict env (decl id -> bool) on conditions that are
    evaluable under env"""
    cfg = fn.cfg

    def ok(v, w, lab):
        if lab is None or not isinstance(lab[1], bool):
            return True
        c = cfg.cond_node(lab[0])
        if c is None:
            return True
        val = eval_int(c, env)
        if val is None:
            return True
        return bool(val) == lab[1]
    return ok


def count_on_paths(cfg, start, counted, edge_ok=None, stop=None):
    """(min, max) number of vertices in `counted` on any path from start (exclusive) to a vertex with no
    successor / EXIT. Cycles reachable from start that contain a counted vertex raise; other cycles are
    ignored (they cannot change the count)."""
    import sys
    sys.setrecursionlimit(max(10000, sys.getrecursionlimit()))
    memo, onstack = {}, set()

    def go(v):
        if v in memo:
            return memo[v]
        if v in onstack:
            return None       # back edge
        onstack.add(v)
        res = None
        succs = [(w, lab) for (w, lab) in cfg.succ[v] if edge_ok is None or edge_ok(v, w, lab)]
        if stop is not None and stop(v):
            succs = []
        if not succs:
            res = (0, 0)
        for (w, lab) in succs:
            r = go(w)
            if r is None:
                continue
            c = 1 if w in counted else 0
            r = (r[0] + c, r[1] + c)
            res = r if res is None else (min(res[0], r[0]), max(res[1], r[1]))
        onstack.discard(v)
        if res is None:
            res = (0, 0) if not succs else None
        if res is not None:
            memo[v] = res
        return res
    return go(start)


def field_num(type_c):
    """tag number N of a FIX8::Field<T, N> canonical type string, else None"""
    import re
    m = re.match(r'^(?:const )?FIX8::Field<.*, (\d+)>$', type_c)
    return int(m.group(1)) if m else None


# --------------------------------------------------------------------------- path obligations
def branches(fn, pred):
    """branch blocks whose (normalised) condition atom satisfies pred(atom): [(block id, atom, pol)]
    pol = truth value of the atom on the block's *true* edge"""
    cfg = fn.cfg
    out = []
    for b, blk in cfg.blocks.items():
        if blk.get('cond') is None or len(blk['succ']) != 2:
            continue
        c = cfg.cond_node(b)
        if c is None:
            continue
        atom, pol = polar(c, True)
        try:
            if pred(atom):
                out.append((b, atom, pol))
        except Exception:
            raise
    return out


def edge_targets(cfg, block, way):
    return [w for (w, lab) in cfg.succ[cfg.block_last[block]] if lab == (block, way)]


def atom_edge(cfg, branch, truth):
    """vertices entered when the branch's atom has the given truth value"""
    b, atom, pol = branch
    return edge_targets(cfg, b, pol if truth else (not pol))


def escape_path(cfg, starts, must, edge_ok=None, exit_kinds=('return', 'falloff')):
    """a path from any start vertex to a normal exit that does NOT pass a vertex in `must`; None if
    every such path passes one (the obligation holds)."""
    exits = {v for (v, kind, n) in cfg.exits() if kind in exit_kinds}
    must = set(must)
    for s in starts:
        if s in must:
            continue
        if s in exits:
            return [s]
        p = cfg.path(s, lambda x: x in exits, avoid=must, edge_ok=edge_ok)
        if p is not None:
            return [s] + p
    return None


def reachable_any(cfg, starts, targets, edge_ok=None):
    targets = set(targets)
    for s in starts:
        if s in targets:
            return s
        r = cfg.reach_from(s, edge_ok=edge_ok)
        hit = r & targets
        if hit:
            return sorted(hit)[0]
    return None


def reachable_returns(cfg, starts, edge_ok=None):
    """ReturnStmt nodes reachable from starts"""
    out = []
    rets = {v: n for (v, kind, n) in cfg.exits() if kind == 'return'}
    seen = set()
    for s in starts:
        r = cfg.reach_from(s, edge_ok=edge_ok) | {s}
        for v in r:
            if v in rets and v not in seen:
                seen.add(v)
                out.append(rets[v])
    return out


def return_value(ret):
    ch = ret.children
    return ch[0].strip(casts=True).value if ch else None


def verts(cfg, nodes):
    return {cfg.vertex_of(n) for n in nodes if cfg.has_vertex(n)}


def reads_member(n, qp):
    return any(x.k == 'MemberExpr' and x.decl is not None and x.decl.get('qp') == qp for x in n.walk())


def reads_local_of_field(n, fnum, _depth=0):
    """n reads a local variable whose type is FIX8::Field<_, fnum> — directly, or through a local that is initialised once from such a read
    (`const int newseqnum(nsn());`)"""
    for x in n.walk():
        if x.k == 'DeclRefExpr' and x.decl is not None and x.decl.get('sc') in ('local', 'param'):
            if field_num(x.fn.tu.types[x.decl['t']]['c']) == fnum:
                return True
            if _depth < 2 and x.decl.get('sc') == 'local':
                defs = local_defs(x.fn, x.declid)
                if len(defs) == 1 and defs[0][1] == 'init' and defs[0][2] is not None and reads_local_of_field(defs[0][2], fnum, _depth + 1):
                    return True
    return False


# --------------------------------------------------------------------------- bounds from guards
INF = float('inf')


def same_expr(a, b):
    """structural equality of two expressions (resolved tree text after stripping casts)"""
    return a.strip(casts=True).text() == b.strip(casts=True).text()


def sizeof_or_const(n):
    s = n.strip(casts=True)
    return s.value


def interval_from_guards(fn, site, expr, lo=-INF, hi=INF, match=None):
    """Refine [lo, hi] for the value of `expr` at `site` using the branch decisions that dominate the
    site and compare an expression structurally equal to `expr` with a constant.
    match(node) may replace structural equality."""
    match = match or (lambda x: same_expr(x, expr))
    ca = controlling_atoms(fn, site)
    for (atom, pol) in ca + ca:          # twice: `!=` refinements depend on the bounds found so far
        s = atom.strip(casts=True)
        if s.k != 'BinaryOperator' or s.op not in ('<', '>', '<=', '>=', '==', '!='):
            continue
        l, r = s.children
        op = s.op
        if match(l) and r.strip(casts=True).value is not None:
            c = r.strip(casts=True).value
        elif match(r) and l.strip(casts=True).value is not None:
            c = l.strip(casts=True).value
            op = {'<': '>', '>': '<', '<=': '>=', '>=': '<=', '==': '==', '!=': '!='}[op]
        else:
            # linear guard:  x + a  op  b   (a, b constants)  ->  x  op  b - a
            try:
                sy = lambda y: 'X#' if match(y) else y.text()
                dl = linear(l, sym=sy) - linear(r, sym=sy)
            except Exception:
                continue
            if set(dl.t) != {'X#'} or dl.t['X#'] not in (1, -1):
                continue
            c = -dl.c * dl.t['X#']
            if dl.t['X#'] == -1:
                op = {'<': '>', '>': '<', '<=': '>=', '>=': '<=', '==': '==', '!=': '!='}[op]
        if not pol:
            op = {'<': '>=', '>': '<=', '<=': '>', '>=': '<', '==': '!=', '!=': '=='}[op]
        if op == '<':
            hi = min(hi, c - 1)
        elif op == '<=':
            hi = min(hi, c)
        elif op == '>':
            lo = max(lo, c + 1)
        elif op == '>=':
            lo = max(lo, c)
        elif op == '==':
            lo, hi = max(lo, c), min(hi, c)
        elif op == '!=':
            if c == lo:
                lo += 1
            if c == hi:
                hi -= 1
    return lo, hi


def array_capacity(n):
    """number of elements of the array a pointer expression decays from (local/member array), else None"""
    s = n.strip(casts=True)
    while s.k == 'InitListExpr' and len(s.children) == 1:       # brace initialisation: char *p{buf}
        s = s.children[0].strip(casts=True)
    if s.k == 'UnaryOperator' and s.op == '&':
        s = s.children[0].strip(casts=True)
        if s.k == 'ArraySubscriptExpr' and s.children[1].strip(casts=True).value == 0:
            s = s.children[0].strip(casts=True)
    t = s.type
    if t and t['k'] == 'array' and 'n' in t:
        return t['n']
    # ImplicitCast ArrayToPointerDecay was stripped: look at the declared type
    if s.k in ('DeclRefExpr', 'MemberExpr') and s.decl is not None:
        dt = s.fn.tu.types[s.decl['t']]
        if dt['k'] == 'array' and 'n' in dt:
            return dt['n']
    return None


# --------------------------------------------------------------------------- abstract path evaluation
def follow(fn, oracle, track=(), env=None, max_steps=5000, visit=None):
    """Walk the CFG from the entry, taking at every two-way branch the edge chosen by oracle(atom)->bool
    (atom already normalised by polar()). Tracks assignments to the locals in `track` (values through
    eval_int under the running environment). Returns (exit kind, returned value or None, env).
    This is evaluation of the extracted decision structure over abstract atom valuations — no fix8 code runs."""
    cfg = fn.cfg
    env = dict(env or {})
    v = cfg.entry
    steps = 0
    while True:
        steps += 1
        if steps > max_steps:
            raise AnalysisBroken('abstract evaluation of %s does not terminate' % fn.q)
        vx = cfg.V[v]
        n = vx.node
        if n is not None and visit is not None:
            visit(n, env)
        if n is not None:
            if n.k == 'DeclStmt':
                for d, init in n.r.get('decls', []):
                    if d in track and init >= 0:
                        env[d] = eval_int(Node(fn, init), env)
            elif n.k == 'BinaryOperator' and n.op == '=' and n.children[0].strip(casts=True).k == 'DeclRefExpr' and \
                    n.children[0].strip(casts=True).declid in track:
                env[n.children[0].strip(casts=True).declid] = eval_int(n.children[1], env)
            elif n.k == 'ReturnStmt':
                val = eval_int(n.children[0], env) if n.children else None
                return 'return', val, env
            elif n.k == 'CXXThrowExpr':
                return 'throw', None, env
        succ = cfg.succ[v]
        if not succ:
            return 'end', None, env
        if len(succ) == 1:
            v = succ[0][0]
            continue
        blk = cfg.blocks[vx.block]
        if blk.get('tk') == 'SwitchStmt' and v == cfg.block_last[vx.block]:
            sw = Node(fn, blk['term'])
            val = eval_int(sw.child('cond'), env)
            if val is None:
                val = oracle(sw.child('cond'))
            if val is None:
                raise AnalysisBroken('abstract evaluation: switch on an unknown value at %s' % sw.loc)
            chosen, default = None, None
            for (w, lab) in succ:
                tb = cfg.blocks[cfg.V[w].block]
                lb = tb.get('label')
                if lb is not None:
                    ln = Node(fn, lb)
                    if ln.k == 'CaseStmt' and Node(fn, ln.r['lhs']).strip(casts=True).value == val:
                        chosen = w
                    elif ln.k == 'DefaultStmt':
                        default = w
            if chosen is None:
                chosen = default if default is not None else succ[-1][0]
            v = chosen
            continue
        labelled = [(w, lab) for (w, lab) in succ if lab is not None and isinstance(lab[1], bool)]
        if len(labelled) != 2:
            raise AnalysisBroken('abstract evaluation: multi-way branch without boolean labels in %s' % fn.q)
        cond = cfg.cond_node(labelled[0][1][0])
        atom, pol = polar(cond, True)
        known = eval_int(atom, env)
        truth = bool(known) if known is not None else oracle(atom)
        if truth is None:
            raise AnalysisBroken('abstract evaluation: unclassified branch atom `%s` at %s' % (atom.text(), atom.loc))
        want = truth if pol else (not truth)
        nxt = [w for (w, lab) in labelled if lab[1] == want]
        v = nxt[0]


# --------------------------------------------------------------------------- loop progress (K11)
def loop_stagnant_cycle(fn, loop, var, flags=()):
    """Is there a cycle through the head of `loop` (For/While/Do) on which the governing variable `var`
    (decl id) is not strictly advanced? Returns a vertex path of such a cycle, or None.
    Progress = `var += r` / `var -= r` with r proven non-zero by a dominating decision, `++var`/`--var`, the
    unequal edge of a comparison of var with a snapshot local initialised from var, or a store of a false
    constant to one of `flags` (locals the loop condition requires to be true)."""
    cfg = fn.cfg
    cond = loop.child('cond')
    if cond is None:
        raise AnalysisBroken('loop without a condition at ' + loop.loc)
    first = None
    for x in cond.walk():
        if cfg.has_vertex(x):
            v = cfg.vertex_of(x)
            if first is None or cfg.dominates(v, first):
                first = v
    if first is None:
        raise AnalysisBroken('loop condition has no CFG vertex at ' + loop.loc)
    head = cfg.block_in[cfg.V[first].block]
    progress = set()
    for (n, kind, val) in local_defs(fn, var):
        if not cfg.has_vertex(n):
            continue
        if kind == 'incdec':
            progress.add(cfg.vertex_of(n))
        elif kind == 'opassign' and (n.op in ('+=', '-=') or n.r.get('op') in ('+=', '-=')) and val is not None:
            r = val.strip(casts=True)
            if r.value is not None and r.value != 0:
                progress.add(cfg.vertex_of(n))
            elif r.k == 'DeclRefExpr':
                for (a, pol) in controlling_atoms(fn, n):
                    t = a.strip(casts=True)
                    nz = (t.k == 'DeclRefExpr' and t.declid == r.declid and pol) or \
                         (t.k == 'BinaryOperator' and t.op == '=' and refers_to_decl(t.children[0], r.declid) and pol) or \
                         (t.k == 'BinaryOperator' and t.op == '!=' and refers_to_decl(t.children[0], r.declid) and t.children[1].strip(casts=True).value == 0 and pol)
                    if nz:
                        progress.add(cfg.vertex_of(n))
    for fl in flags:
        for (n, kind, val) in local_defs(fn, fl):
            if kind == 'assign' and val is not None and val.strip(casts=True).value == 0 and cfg.has_vertex(n):
                progress.add(cfg.vertex_of(n))
    # snapshot comparisons
    prog_edges = set()
    for (b, a, pol) in branches(fn, lambda a: a.strip(casts=True).k == 'BinaryOperator' and a.strip(casts=True).op in ('==', '!=')):
        t = a.strip(casts=True)
        l, r = t.children
        other = r if refers_to_decl(l, var) else l if refers_to_decl(r, var) else None
        if other is None:
            continue
        o = other.strip(casts=True)
        if o.k != 'DeclRefExpr' or o.decl.get('sc') != 'local':
            continue
        defs = local_defs(fn, o.declid)
        if len(defs) == 1 and defs[0][1] == 'init' and defs[0][2] is not None and refers_to_decl(defs[0][2], var):
            # snapshot must be taken inside the loop (after the head)
            if cfg.vertex_of(defs[0][0]) in cfg.reach_from(head):
                unequal_way = (not pol) if t.op == '==' else pol
                prog_edges.add((b, unequal_way))

    # a flag the loop condition requires: once a branch has seen it false the next evaluation of the loop
    # condition leaves the loop (provided nothing sets it back to true)
    for fl in flags:
        if any(kind == 'assign' and (val is None or val.strip(casts=True).value != 0) for (n, kind, val) in local_defs(fn, fl)):
            continue
        for (b, a, pol) in branches(fn, lambda a, _fl=fl: refers_to_decl(a, _fl)):
            prog_edges.add((b, not pol))

    def eo(v, w, lab):
        return not (lab is not None and isinstance(lab[1], bool) and (lab[0], lab[1]) in prog_edges)
    # natural loop of `head`: vertices that reach a back edge source without passing the head
    region = {head}
    stack = [u for (u, lab) in cfg.pred[head] if cfg.dominates(head, u)]
    while stack:
        u = stack.pop()
        if u in region:
            continue
        region.add(u)
        stack.extend(x for (x, lab) in cfg.pred[u])
    outside = set(range(len(cfg.V))) - region
    for (w, lab) in cfg.succ[head]:
        if w in progress or w in outside or not eo(head, w, lab):
            continue
        if w == head:
            return [head, head]
        p = cfg.path(w, lambda x: x == head, avoid=progress | outside, edge_ok=eo)
        if p is not None:
            return [head] + p
    return None


# --------------------------------------------------------------------------- container traversals
def ordered_traversals(fn, member_qp):
    """loops of fn that visit every element of the member container `member_qp` once, in container order:
       a range-for over it, or `for (it = M.begin(); it != M.end(); ++it)` whose iterator is stepped nowhere else.
    Returns [(loop node, head node)] where head is a node of the loop header that has a CFG vertex (the range expression / the condition)."""
    out = []
    for n in fn.all_nodes():
        if n.k == 'CXXForRangeStmt' and n.child('range') is not None and refers_to_member(n.child('range'), member_qp):
            out.append((n, n.child('range')))
        elif n.k == 'ForStmt' and n.child('init') is not None and n.child('cond') is not None and n.child('inc') is not None:
            init, cond, inc = n.child('init'), n.child('cond'), n.child('inc')
            if init.k != 'DeclStmt' or len(init.r.get('decls', [])) != 1:
                continue
            it, ini = init.r['decls'][0]
            if ini < 0:
                continue
            ie = Node(fn, ini)
            starts = any(x.is_call and x.callee is not None and x.callee.get('n') in ('begin', 'cbegin') and x.obj is not None and refers_to_member(x.obj, member_qp) for x in ie.walk())
            cs = cond.strip(casts=True)
            ends = (cs.is_call and cs.r.get('op') == '!=' or (cs.k == 'BinaryOperator' and cs.op == '!=')) and \
                any(x.k == 'DeclRefExpr' and x.declid == it for x in cs.walk()) and \
                any(x.is_call and x.callee is not None and x.callee.get('n') in ('end', 'cend') and x.obj is not None and refers_to_member(x.obj, member_qp) for x in cs.walk())
            si = inc.strip(casts=True)
            steps = ((si.is_call and si.r.get('op') == '++') or (si.k == 'UnaryOperator' and si.op == '++')) and any(x.k == 'DeclRefExpr' and x.declid == it for x in si.walk())
            others = [d for d in local_defs(fn, it) if d[1] != 'init' and d[0] != si and not any(a == inc for a in d[0].ancestors())]
            others = [d for d in others if d[1] in ('assign', 'opassign', 'incdec')]
            if starts and ends and steps and not others:
                heads = [x for x in cond.walk() if fn.cfg.has_vertex(x)]
                if heads:
                    out.append((n, heads[0]))
    return out
