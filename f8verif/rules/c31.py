"""C31 — timer events fire no earlier than scheduled and in due order."""
from ..facts import Program, AnalysisBroken
from .. import q

CLAIM = {
    'text': 'Dominance, polarity and lock-scope rules on Timer<T> (analysed on its Timer<Session> instantiation): the callback invocation is '
            'dominated by the true branch of `due <= now` with `now` read after the head of the queue; the event invoked is a copy of the '
            'head that is then popped; TimerEvent::operator< orders the priority queue earliest-first; a repeating event is re-armed '
            'at now + interval only when the callback returned true and the event repeats; schedule() computes due = current time + '
            'delay and pushes under the lock; every access to the event queue lies inside a guard on the timer spin lock (one listed '
            'exemption: the size printed in the termination log line); clear() pops until empty under the lock.',
    'note': 'Trusted: clang CFG, extractor, std::priority_queue semantics. Undecided: real time, thread scheduling, granularity sleep.',
    'technique': 'dominance / control dependence, operator polarity, linear forms, RAII guard live ranges',
}
UNITS = ['runtime/session.cpp']
EXPLANATION = (
    "Decided: R31.1 callback ((_monitor.*cb)()) control-dependent on `op._t <= now` true, `now` defined after top(); invoked event = "
    "copy of top(), pop() between copy and call; R31.2 operator< returns `_t > right._t`; R31.3 re-arm `op._t = now + interval*million` "
    "control-dependent on result ∧ _repeat, followed by push; R31.4 all `_event_queue` accesses under `_spin_lock` guard (exemption: "
    "termination log line); R31.5 schedule(): tofire = get_tickval() + wait*million, set() before the locked push; R31.6 clear(): loop "
    "pops while size() under the guard. NOT decided: timing.")

T = 'FIX8::Timer::'


def run(ctx):
    prog = Program(UNITS)
    ctx.units.update(UNITS)
    op = prog.fn1(T + 'operator()', tmpl=('inst',))
    ctx.saw(op)
    cfg = op.cfg
    cbs = [n for n in op.all_nodes() if n.k in ('CallExpr', 'CXXMemberCallExpr') and n.callee is None and
           n.children[0].strip().k == 'BinaryOperator' and n.children[0].strip().op in ('.*', '->*')]
    ctx.need(len(cbs) == 1, 'callback invocation not found in Timer::operator()')
    cb = cbs[0]
    # R31.1
    atoms = q.controlling_atoms(op, cb)
    due = None
    for a, pol in atoms:
        s = a.strip(casts=True)
        if s.is_call and s.r.get('op') in ('<=', '<', '>=', '>'):
            ops = ([s.obj] if s.obj is not None else []) + s.args
            l_due = any(x.k == 'MemberExpr' and x.decl.get('qp') == 'FIX8::TimerEvent::_t' for x in ops[0].walk())
            r_due = any(x.k == 'MemberExpr' and x.decl.get('qp') == 'FIX8::TimerEvent::_t' for x in ops[1].walk())
            if l_due != r_due:
                o = s.r['op'] if l_due else {'<=': '>=', '<': '>', '>=': '<=', '>': '<'}[s.r['op']]
                if not pol:
                    o = {'<=': '>', '<': '>=', '>=': '<', '>': '<='}[o]
                due = (o, s, ops[1] if l_due else ops[0])
    ctx.check(due is not None and due[0] in ('<=', '<'), 'R31.1', T + 'operator()#due-test', cb.loc,
              'the callback runs only when due time <= now' , 'the callback is not guarded by `due <= now` (found %s)' % (due[0] if due else 'no test'))
    if due is not None:
        nowv = due[2].strip(casts=True)
        ok = False
        if nowv.k == 'DeclRefExpr':
            defs = [(dn, kind, val) for (dn, kind, val) in q.local_defs(op, nowv.declid)]
            tops = [c for c in op.calls() if c.callee is not None and c.callee.get('n') == 'top']
            ok = len(defs) == 1 and defs[0][1] == 'init' and any(c.callee_qp == 'FIX8::Tickval::get_tickval' for c in q.calls_in(defs[0][2])) and \
                all(cfg.dominates(cfg.vertex_of(t), cfg.vertex_of(defs[0][0])) for t in tops[:1])
        ctx.check(ok, 'R31.1', T + 'operator()#now-after-top', cb.loc, '`now` is read from the clock after the head of the queue was taken')
    tops = [c for c in op.calls() if c.callee is not None and c.callee.get('n') == 'top']
    pops = [c for c in op.calls() if c.callee is not None and c.callee.get('n') == 'pop']
    # the invoked event: local whose init is top()
    evs = [x for x in cb.children[0].walk() if x.k == 'DeclRefExpr' and x.decl.get('sc') == 'local']
    okev = False
    for e in evs:
        for (dn, kind, val) in q.local_defs(op, e.declid):
            if kind == 'init' and val is not None and any(c in tops for c in q.calls_in(val)):
                popv = [p for p in pops if cfg.dominates(cfg.vertex_of(dn), cfg.vertex_of(p)) and cfg.dominates(cfg.vertex_of(p), cfg.vertex_of(cb))]
                okev = bool(popv)
    ctx.check(okev, 'R31.1', T + 'operator()#invoke-head', cb.loc, 'the event invoked is a copy of the queue head, popped before the call')
    # R31.2
    lt = prog.fns('FIX8::TimerEvent::operator<', tmpl=('inst',))
    ctx.need(lt, 'TimerEvent::operator< instantiation not found')
    lt = lt[0]
    ctx.saw(lt)
    rets = [n for n in lt.all_nodes() if n.k == 'ReturnStmt']
    ok = False
    if len(rets) == 1:
        s = rets[0].children[0].strip(casts=True)
        if s.is_call and s.r.get('op') in ('>', '<'):
            ops = ([s.obj] if s.obj is not None else []) + s.args
            this_first = any(x.k == 'CXXThisExpr' for x in ops[0].walk()) and q.refers_to_decl([x for x in ops[1].walk() if x.k == 'DeclRefExpr'][0], lt.param_ids[0]) \
                if [x for x in ops[1].walk() if x.k == 'DeclRefExpr'] else False
            both_t = all(any(x.k == 'MemberExpr' and x.decl.get('n') == '_t' for x in o.walk()) for o in ops)
            ok = both_t and ((s.r['op'] == '>' and this_first) or (s.r['op'] == '<' and not this_first))
    ctx.check(ok, 'R31.2', 'FIX8::TimerEvent::operator<#earliest-first', lt.loc,
              'operator< is `_t > right._t`: std::priority_queue (a max-heap) then yields the earliest due time first')
    # R31.3 re-arm
    rearm = [w for (w, m) in q.member_writes(op, 'FIX8::TimerEvent::_t')]
    pushes = [c for c in op.calls() if c.callee is not None and c.callee.get('n') == 'push']
    ctx.need(len(rearm) == 1 and len(pushes) == 1, 're-arm assignment / push not found in Timer::operator()')
    ra = rearm[0]
    atoms = q.controlling_atoms(op, ra)
    res_ok = any(pol and a.strip(casts=True).k == 'DeclRefExpr' and any(kind == 'init' and val is not None and cb in list(val.walk())
                 for (dn, kind, val) in q.local_defs(op, a.strip(casts=True).declid)) for a, pol in atoms) or \
        any(pol and a.strip(casts=True) == cb for a, pol in atoms)          # the callback's result tested directly, without a named local
    rep_ok = any(pol and a.strip(casts=True).k == 'MemberExpr' and a.strip(casts=True).decl.get('qp') == 'FIX8::TimerEvent::_repeat' for a, pol in atoms)
    ctx.check(res_ok and rep_ok, 'R31.3', T + 'operator()#rearm.guard', ra.loc, 're-armed only when the callback returned true and the event repeats')
    rhs = ra.args[-1] if ra.args else ra.children[1]
    def sym(x):
        s = x.strip(casts=True)
        if s.is_call and s.callee_qp == 'FIX8::Tickval::get_ticks':
            return 'NOW' if due is not None and s.obj is not None and q.same_expr(s.obj, due[2]) else 'OTHERCLOCK'
        if s.k == 'BinaryOperator' and s.op == '*':
            a, b = s.children
            names = {y.decl.get('n') for z in (a, b) for y in z.walk() if y.k in ('MemberExpr', 'DeclRefExpr') and y.decl}
            if '_intervalMS' in names and 'million' in names:
                return 'INTERVAL_NS'
        return s.text()
    lf = q.linear(rhs, sym=sym, inline=prog.fns)
    iv_terms = {k: v for k, v in lf.t.items() if k != 'NOW'}
    iv_ok = iv_terms == {'INTERVAL_NS': 1} or (len(iv_terms) == 1 and list(iv_terms.values())[0] == 1000000 and list(iv_terms)[0].endswith('_intervalMS'))
    ctx.check(lf.t.get('NOW') == 1 and iv_ok and lf.c == 0, 'R31.3', T + 'operator()#rearm.value', ra.loc,
              'next due time = now + interval (ms) × 1e6 ns', 'next due time is `%s`' % lf)
    ctx.check(cfg.dominates(cfg.vertex_of(ra), cfg.vertex_of(pushes[0])), 'R31.3', T + 'operator()#rearm.push', pushes[0].loc,
              'the re-armed event is pushed back after its due time was advanced')
    # R31.4 lock scope
    n_acc = 0
    for f in prog.all_functions():
        if f.recp != 'FIX8::Timer' or f.tmpl != 'inst' or f.kind in ('ctor', 'dtor'):
            continue
        refs = q.member_refs(f, 'FIX8::Timer::_event_queue')
        if not refs:
            continue
        ctx.saw(f)
        c2 = f.cfg
        gr = q.guard_ranges(f, lock_member_qp='FIX8::Timer::_spin_lock')
        for r in refs:
            n_acc += 1
            if not c2.has_vertex(r):
                continue
            rv = c2.vertex_of(r)
            held = any(rv in g[3] for g in gr)
            if not held and f.qp == T + 'operator()':
                # exemption: the termination log line (after the loop, inside an ostream insertion)
                par = [a for a in r.ancestors() if a.is_call and a.r.get('op') == '<<']
                loops = [n for n in f.all_nodes() if n.k == 'WhileStmt']
                inloop = any(r in list(l.walk()) for l in loops)
                if par and not inloop and r.parent.is_call is False or (par and not inloop):
                    ctx.ok('R31.4', f.qp + '#queue.locked.exempt-logline', r.loc, 'exempt: queue size printed in the termination log line')
                    continue
            ctx.check(held, 'R31.4', '%s#queue.locked@%d' % (f.qp, refs.index(r)), r.loc, '_event_queue accessed with _spin_lock held',
                      '_event_queue is accessed in %s without the timer spin lock' % f.qp)
    ctx.need(n_acc >= 8, 'fewer than 8 _event_queue accesses found (%d)' % n_acc)
    # R31.5 schedule
    sc = prog.fn1(T + 'schedule', tmpl=('inst',))
    ctx.saw(sc)
    scfg = sc.cfg
    sets = sc.calls_to('FIX8::TimerEvent::set')
    pu = [c for c in sc.calls() if c.callee is not None and c.callee.get('n') == 'push']
    ctx.need(len(sets) == 1 and len(pu) == 1, 'schedule(): set()/push not found')
    ctx.check(scfg.dominates(scfg.vertex_of(sets[0]), scfg.vertex_of(pu[0])), 'R31.5', T + 'schedule#set-before-push', pu[0].loc,
              'the due time is set before the event becomes visible in the queue')
    tof = sets[0].args[0].strip(casts=True)
    ok = False
    if tof.k == 'DeclRefExpr':
        defs = q.local_defs(sc, tof.declid)
        gt = [dn for (dn, kind, val) in defs if kind == 'out' and dn.callee_qp == 'FIX8::Tickval::get_tickval']
        adds = [dn for (dn, kind, val) in defs if kind == 'opassign' and (dn.r.get('op') == '+=' or dn.op == '+=')]
        if len(gt) == 1 and len(adds) == 1:
            rhs = adds[0].args[-1] if adds[0].args else adds[0].children[1]
            s = rhs.strip(casts=True)
            names = {y.decl.get('n') for y in s.walk() if y.k in ('MemberExpr', 'DeclRefExpr') and y.decl}
            lfd = q.linear(rhs, sym=lambda x: 'DELAY_MS' if q.refers_to_decl(x, sc.param_ids[1]) else x.text(), inline=prog.fns)
            ok = ((s.k == 'BinaryOperator' and s.op == '*' and 'million' in names and any(q.refers_to_decl(y, sc.param_ids[1]) for y in s.walk() if y.k == 'DeclRefExpr')) or
                  (lfd.t == {'DELAY_MS': 1000000} and lfd.c == 0)) \
                and scfg.dominates(scfg.vertex_of(gt[0]), scfg.vertex_of(adds[0])) and scfg.dominates(scfg.vertex_of(adds[0]), scfg.vertex_of(sets[0])) is not None
            atoms = q.controlling_atoms(sc, adds[0])
            def nonzero(a, pol):
                s_ = a.strip(casts=True)
                if s_.k == 'DeclRefExpr':
                    return pol and q.refers_to_decl(a, sc.param_ids[1])
                if s_.k == 'BinaryOperator' and q.refers_to_decl(s_.children[0], sc.param_ids[1]) and s_.children[1].strip(casts=True).value == 0:
                    return (s_.op in ('!=', '>') and pol) or (s_.op == '==' and not pol)
                return False
            ok = ok and any(nonzero(a, pol) for a, pol in atoms)
    ctx.check(ok, 'R31.5', T + 'schedule#due', sets[0].loc, 'due time = clock reading + delay(ms) × 1e6 ns')
    iv = [w for (w, m) in q.member_writes(sc, 'FIX8::TimerEvent::_intervalMS')]
    ctx.check(len(iv) == 1 and q.refers_to_decl(iv[0].children[1], sc.param_ids[1]), 'R31.5', T + 'schedule#interval', sc.loc,
              'the repeat interval recorded is the delay given')
    # R31.6 clear
    cl = prog.fn1(T + 'clear', tmpl=('inst',))
    ctx.saw(cl)
    # whatever the loop is written as: clear() returns only through an edge on which the queue was just seen empty, and it pops on a cycle
    ccfg = cl.cfg

    def not_empty_edge(v, w, lab):
        if lab is None or not isinstance(lab[1], bool):
            return True
        cn = ccfg.cond_node(lab[0])
        if cn is None:
            return True
        a, pol = q.polar(cn, lab[1])
        s_ = a.strip(casts=True)
        if s_.is_call and s_.callee is not None and s_.obj is not None and q.refers_to_member(s_.obj, T + '_event_queue'):
            if s_.callee.get('n') == 'empty':
                return not pol           # the edge on which empty() is true is removed
            if s_.callee.get('n') == 'size':
                return pol               # size() == 0 is the false edge
        return True
    reach_ne = ccfg.reach_from(ccfg.entry, edge_ok=not_empty_edge) | {ccfg.entry}
    rets_c = [v for (v, kind, n) in ccfg.exits() if kind in ('return', 'falloff')]
    pops = [c for c in cl.calls() if c.callee is not None and c.callee.get('n') == 'pop' and c.obj is not None and q.refers_to_member(c.obj, T + '_event_queue') and ccfg.has_vertex(c)]
    ok = bool(rets_c) and not any(v in reach_ne for v in rets_c) and any(ccfg.vertex_of(c) in ccfg.reach_from(ccfg.vertex_of(c)) for c in pops)
    ctx.check(ok, 'R31.6', T + 'clear#drain', cl.loc, 'clear() pops until the queue is empty')
    ctx.floor('R31.1', 3)
    ctx.floor('R31.4', 8)
