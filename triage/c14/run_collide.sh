#!/bin/bash
# C14 triage: collide.xml holds two messages whose NoAllocs groups have DIFFERENT member tags ([5000,20000,40000] vs
# [6089,39509,62167]) chosen so that the compiler's 32-bit structural hash (rothash, GF(2)-linear) is equal.
d=$(mktemp -d /var/tmp/c14.XXXXXX); trap 'rm -rf $d' EXIT
${F8_REPO:-/repo}/compiler/f8c -s -p Col -n CO -o $d "$(dirname "$0")/collide.xml" >/dev/null 2>&1
grep -n "NoAllocs.*_traits" $d/Col_traits.cpp
if grep -q "NoAllocsV1_traits" $d/Col_traits.cpp; then echo "DEFECT: Beta's group (tags 6089,39509,62167) uses Alpha's trait table (tags 5000,20000,40000)"; exit 1; else echo "HOLDS: separate tables"; fi
