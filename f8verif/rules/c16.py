"""C16 — outbound sequence numbers are consecutive and persisted."""
import itertools
from ..facts import Program, AnalysisBroken
from .. import q
from . import c18, c25, c27

CLAIM = {
    'text': 'Who-may-write and path rules on the session counters: the send counter is incremented at exactly one site, only '
            'after a successful hand-off to the connection and never for PossDup sends; its writers are a frozen set of '
            'functions; both MsgSeqNum constructions use custom-or-counter; the control record written in send_process and '
            'in process() equals the counters at function exit on every path (symbolic offset vs. number of increments); '
            'recovery assigns both counters from the persister. Structural necessary conditions only.',
    'note': 'Trusted: clang CFG, extractor, frozen writer table. Undecided: consecutiveness over concrete histories and '
            'interleavings (C25), durability of the control record (C27).',
    'technique': 'who-may-write table + dominance + per-path increment counting over the clang CFG',
}
UNITS = ['runtime/session.cpp']
MORE_UNITS = ['runtime/connection.cpp', 'runtime/persist.cpp', 'runtime/filepersist.cpp']
EXPLANATION = (
    "Decided: R16.1 single increment site of the send counter in send_process, dominated by !is_dup, unreachable from the "
    "failed-send edge, and the frozen set of functions that may write the counter; R16.2 both `new msg_seq_num(...)` take "
    "custom-seqnum-or-counter; R16.3 for the control-record put in send_process, on every CFG path to the exit the number of "
    "later increments equals the offset added to the counter in the put (path-sensitive on immutable bool locals); R16.4 in "
    "Session::process every path from an increment of the receive counter to a return passes update_persist_seqnums; R16.5 "
    "recover_seqnums assigns both counters from Persister::get's out-parameters and start()/handle_logon apply explicit "
    "numbers after recovery. R16.6 every send_process call outside the writer thread holds the connection spin lock unconditionally (rule of C25 R25.1); R16.7 both persisters seed the retransmission context with the session's next send number, which retrans_callback writes back into the counter (rule of C18 R18.6); R16.8 the store files are opened without O_APPEND, so the in-place rewrite of the control record lands at offset 0 (rule of C27 R27.7). NOT decided: consecutiveness/uniqueness over histories and threads.")

S = 'FIX8::Session::'
SEND_SEQ, RECV_SEQ = S + '_next_send_seq', S + '_next_receive_seq'
SEND_WRITERS = {S + 'atomic_init', S + 'start', S + 'handle_logon', S + 'handle_resend_request', S + 'retrans_callback',
                S + 'send_process', S + 'recover_seqnums'}
RECV_WRITERS = {S + 'atomic_init', S + 'start', S + 'handle_logon', S + 'handle_sequence_reset', S + 'process',
                S + 'recover_seqnums'}


def start_numbers_rule(ctx, prog, RID):
    # R16.5' explicit start numbers belong to ONE start() call: an initiator applies the PARAMETERS of this call; the members _req_next_* (kept for the
    # acceptor's later Logon) are written only on the acceptor path - on the initiator path they would survive into the next start()
    st = prog.fn1(S + 'start')
    scfg = st.cfg
    roles = dict(prog.enum('FIX8::Connection::Role')['e'])

    def role_filter(acc):
        def eo(v, w, lab):
            if lab is None or not isinstance(lab[1], bool):
                return True
            cn = scfg.cond_node(lab[0])
            if cn is None:
                return True
            a, pol = q.polar(cn, lab[1])
            t = a.strip(casts=True)
            if t.k == 'BinaryOperator' and t.op in ('==', '!=') and any(x.is_call and x.callee is not None and x.callee.get('n') == 'get_role' for x in t.walk()):
                val = t.children[1].strip(casts=True).value
                if val is None:
                    val = t.children[0].strip(casts=True).value
                if val in (roles.get('cn_acceptor'), roles.get('cn_initiator')):
                    is_acc = (val == roles['cn_acceptor']) == (t.op == '==')
                    return (is_acc == pol) if acc else (is_acc != pol)
            return True
        return eo
    reach_init = scfg.reach_from(scfg.entry, edge_ok=role_filter(False)) | {scfg.entry}
    for member in (S + '_req_next_send_seq', S + '_req_next_receive_seq'):
        ws = [w for (w, m) in q.member_writes(st, member) if scfg.has_vertex(w)]
        leak = [w for w in ws if scfg.vertex_of(w) in reach_init]
        ctx.check(not leak, RID, S + 'start#requested-numbers.acceptor-only@' + member.split('::')[-1], (leak[0].loc if leak else st.loc),
                  '%s is stored only on the acceptor path of start()' % member.split('::')[-1],
                  '%s is stored on the initiator path of start() as well: it is never cleared, so a later start() of the same session object without explicit numbers '
                  '(ReliableClientSession retries) overrides the recovered numbers with the stale ones' % member.split('::')[-1])
    for member, pi, tag in ((SEND_SEQ, 2, 'send'), (RECV_SEQ, 3, 'recv')):
        for (w, m) in q.member_writes(st, member):
            if not scfg.has_vertex(w) or scfg.vertex_of(w) not in reach_init:
                continue
            rhs = (w.args[-1] if w.args else None)
            if rhs is None or rhs.strip(casts=True).value == 1 or rhs.strip(casts=True).k == 'CXXOperatorCallExpr':
                continue
            ctx.check(q.refers_to_decl(rhs, st.param_ids[pi]), RID, S + 'start#initiator-override.%s' % tag, w.loc,
                      'the initiator\'s explicit %s number is the parameter of this call' % tag,
                      'the initiator overrides the %s counter with `%s`, not with the parameter of this start() call' % (tag, rhs.text()))


def run(ctx):
    prog = Program(UNITS)
    ctx.units.update(UNITS)
    fn = prog.fn1(S + 'send_process')
    ctx.saw(fn)
    cfg = fn.cfg

    # ---------------- R16.1 single increment, guards
    writes = q.member_writes(fn, SEND_SEQ)
    ctx.check(len(writes) == 1 and (writes[0][0].r.get('op') == '++'), 'R16.1', S + 'send_process#single-incr', fn.loc,
              'exactly one write of the send counter in send_process and it is ++',
              'send counter written %d time(s) in send_process: %s' % (len(writes), [w.text() for w, _ in writes]))
    for (w, m) in writes:
        atoms = q.controlling_atoms(fn, w)
        def is_dup(a):
            a = a.strip()
            return a.k == 'DeclRefExpr' and a.decl and a.decl.get('sc') == 'local' and any(
                kind == 'init' and val is not None and any(c.callee_qp == 'FIX8::MessageBase::have' and c.args and
                c.args[0].strip(casts=True).value == 43 for c in q.calls_in(val)) for (dn, kind, val) in q.local_defs(fn, a.declid))
        ctx.check(any(is_dup(a) and pol is False for a, pol in atoms), 'R16.1', S + 'send_process#incr.notdup', w.loc,
                  'increment dominated by the not-PossDup decision')
        # not reachable from the failed-send edge
        wv = cfg.vertex_of(w)
        sends = 0
        for b, blk in cfg.blocks.items():
            c = cfg.cond_node(b)
            if c is None or len(blk['succ']) != 2:
                continue
            atom, pol = q.polar(c, True)
            if atom.is_call and atom.callee_qp == 'FIX8::Connection::send':
                sends += 1
                failway = (not pol) if True else pol     # edge on which send() is false
                # pol is the truth of send() when cond is true; send()==false edge:
                way = False if pol else True
                tg = [x for (x, lab) in cfg.succ[cfg.block_last[b]] if lab == (b, way)]
                bad = any(wv in cfg.reach_from(x) or x == wv for x in tg)
                ctx.check(not bad, 'R16.1', S + 'send_process#incr.after-failed-send', w.loc,
                          'increment is unreachable once Connection::send returned false')
        ctx.need(sends >= 1, 'Connection::send decision not found in send_process')
    # writers: frozen sets
    for member, allowed, tag in ((SEND_SEQ, SEND_WRITERS, 'send'), (RECV_SEQ, RECV_WRITERS, 'recv')):
        found = {}
        for f in prog.all_functions():
            ws = q.member_writes(f, member)
            if ws:
                found[f.qp] = ws
        for fq, ws in sorted(found.items()):
            ctx.check(fq in allowed, 'R16.1', '%s#writer.%s' % (fq, tag), ws[0][0].loc,
                      '%s is a listed writer of the %s counter' % (fq, tag),
                      'new writer of the %s counter: %s (`%s`) — not in the frozen writer table' % (tag, fq, ws[0][0].text()))
        ctx.need(len(found) >= 5, 'fewer than 5 writer functions of the %s counter found' % tag)

    # ---------------- R16.2 MsgSeqNum construction
    news = [n for n in fn.all_nodes() if n.k == 'CXXNewExpr' and q.field_num(fn.tu.types[n.r['alloc']]['c']) == 34]
    ctx.need(len(news) >= 2, 'expected two `new msg_seq_num` sites in send_process, found %d' % len(news))
    for n in news:
        init = n.child('init').strip()
        arg = init.args[0].strip() if init.is_call and init.args else None
        good = False
        counter_ok = lambda e_: q.member_value_of(e_, SEND_SEQ)
        if arg is not None and arg.strip(casts=True).is_call and arg.strip(casts=True).callee_qp and arg.strip(casts=True).k != 'CXXMemberCallExpr':
            # the selection may live in a small helper of the unit that is handed the message and the counter: its single return expression is the selection,
            # with the counter parameter standing for the argument bound to it
            ca = arg.strip(casts=True)
            for h in prog.fns(ca.callee_qp):
                rr = [x for x in h.all_nodes() if x.k == 'ReturnStmt' and x.children]
                if h.tu is fn.tu and len(rr) == 1 and len(h.param_ids) == len(ca.args):
                    bound = [pid for pid, a_ in zip(h.param_ids, ca.args) if q.member_value_of(a_, SEND_SEQ) or q.refers_to_member(a_.strip(casts=True), SEND_SEQ)]
                    if len(bound) == 1:
                        ctx.saw(h)
                        arg = rr[0].children[0].strip()
                        counter_ok = lambda e_, _b=bound[0]: any(x.k == 'DeclRefExpr' and x.declid == _b for x in e_.walk())
        if arg is not None and arg.strip(casts=True).k == 'ConditionalOperator':
            arg = arg.strip(casts=True)
            c, t, e = arg.child('cond'), arg.child('then'), arg.child('else')
            good = (any(x.callee_qp == 'FIX8::Message::get_custom_seqnum' for x in q.calls_in(c)) and
                    any(x.callee_qp == 'FIX8::Message::get_custom_seqnum' for x in q.calls_in(t)) and
                    counter_ok(e))
        ctx.check(good, 'R16.2', S + 'send_process#msgseqnum@%s' % ('assign' if n is news[0] else 'else'), n.loc,
                  'MsgSeqNum is custom_seqnum ? custom_seqnum : _next_send_seq')

    # ---------------- R16.3 control record offset == later increments
    ctl = [c for c in fn.calls_to('FIX8::Persister::put') if q.param_type_str(c, 1) == 'const unsigned int']
    ctx.need(ctl, 'control-record put not found in send_process')
    incr_vs = {cfg.vertex_of(w) for (w, m) in writes}
    cbl = q.const_bool_locals(fn)
    for put in ctl:
        used = sorted({x.declid for x in put.args[0].walk() if x.k == 'DeclRefExpr' and x.declid in cbl})
        pv = cfg.vertex_of(put)
        problems = []
        for vals in itertools.product((False, True), repeat=len(used)):
            env = dict(zip(used, vals))
            k = q.offset_from_member(put.args[0], SEND_SEQ, env)
            if k is None:
                raise AnalysisBroken('control-record put: first argument is not counter + constant: ' + put.args[0].text())
            eo = q.valuation_edge_filter(fn, env)
            if pv not in cfg.reach_from(cfg.entry, edge_ok=eo):
                continue
            r = q.count_on_paths(cfg, pv, incr_vs, edge_ok=eo)
            if r is None or r != (k, k):
                problems.append((env, k, r))
        recv_ok = q.member_value_of(put.args[1], RECV_SEQ)
        ctx.check(recv_ok, 'R16.3', S + 'send_process#ctlput.recv', put.loc, 'control record stores the receive counter')
        ctx.check(not problems, 'R16.3', S + 'send_process#ctlput.offset', put.loc,
                  'control record = send counter at function exit on every path',
                  'control record stores send counter %+d but later increments on some path number %s (should be equal on every path)'
                  % (problems[0][1], problems[0][2]) if problems else None)

    # ---------------- R16.4 process(): every increment of the receive counter reaches update_persist_seqnums
    pr = prog.fn1(S + 'process')
    ctx.saw(pr)
    pcfg = pr.cfg
    upd = {pcfg.vertex_of(c) for c in pr.calls_to(S + 'update_persist_seqnums')} | \
          {pcfg.vertex_of(c) for c in pr.calls_to('FIX8::Persister::put')}
    rws = q.member_writes(pr, RECV_SEQ)
    ctx.need(len(rws) >= 2, 'expected two increments of the receive counter in Session::process')
    rets = {v for (v, kind, n) in pcfg.exits() if kind in ('return', 'falloff')}
    for i, (w, m) in enumerate(rws):
        wv = pcfg.vertex_of(w)
        path = pcfg.path(wv, lambda x: x in rets, avoid=upd)
        near = 'reject-path' if any(c.callee_qp == S + 'handle_outbound_reject' for c in pr.calls()
                                    if pcfg.has_vertex(c) and pcfg.dominates(pcfg.vertex_of(c), wv) and
                                    not pcfg.dominates(pcfg.vertex_of(c), pcfg.vertex_of(rws[0][0]))) else 'main-path'
        ctx.check(path is None, 'R16.4', S + 'process#recv-incr.%s' % near, w.loc,
                  'every path from this increment of the receive counter to a return passes update_persist_seqnums',
                  'receive counter incremented and the function returns without storing the control record',
                  pcfg.describe_path(path) if path else None)

    # ---------------- R16.5 recovery
    rc = prog.fn1(S + 'recover_seqnums')
    ctx.saw(rc)
    gets = [c for c in rc.calls_to('FIX8::Persister::get') if len(c.args) == 2 and q.param_type_str(c, 0) == 'unsigned int &']
    ctx.need(len(gets) == 1, 'Persister::get(unsigned&, unsigned&) not found in recover_seqnums')
    get = gets[0]
    for member, ai, tag in ((SEND_SEQ, 0, 'send'), (RECV_SEQ, 1, 'recv')):
        ws = q.member_writes(rc, member)
        good = False
        for (w, m) in ws:
            rhs = w.args[-1] if w.args else None
            if rhs is None:
                continue
            org = q.origins(rc, rhs)
            outarg = get.args[ai].strip(casts=True)
            if org and all(k == 'out' and n == get for (k, n) in org) and rhs.strip(casts=True).k == 'DeclRefExpr' \
                    and outarg.k == 'DeclRefExpr' and outarg.declid == rhs.strip(casts=True).declid:
                good = True
        ctx.check(good, 'R16.5', S + 'recover_seqnums#%s' % tag, rc.loc,
                  '%s counter := out-parameter %d of Persister::get' % (tag, ai))
    for fq, params in ((S + 'start', None), (S + 'handle_logon', None)):
        f = prog.fn1(fq)
        ctx.saw(f)
        c = f.cfg
        recs = f.calls_to(S + 'recover_seqnums')
        ctx.need(recs, 'recover_seqnums not called from ' + fq)
        rv = c.vertex_of(recs[0])
        for member, tag in ((SEND_SEQ, 'send'), (RECV_SEQ, 'recv')):
            for (w, m) in q.member_writes(f, member):
                rhs = (w.args[-1] if w.args else None)
                if rhs is None or rhs.strip(casts=True).value == 1 or rhs.strip(casts=True).k == 'CXXOperatorCallExpr':
                    continue   # reset to 1 — separate branch
                wv = c.vertex_of(w)
                ctx.check(wv in c.reach_from(rv) and rv not in c.reach_from(wv), 'R16.5', '%s#override.%s' % (fq, tag), w.loc,
                          'explicit %s number is applied after recovery, never overwritten by it' % tag)
    start_numbers_rule(ctx, prog, 'R16.5')
    # R16.6 / R16.7 the two places outside send_process that decide which number the next message gets
    prog2 = Program(UNITS + MORE_UNITS)
    ctx.units.update(MORE_UNITS)
    c25.lock_rule(ctx, prog2, 'R16.6')
    c18.retrans_seed_rule(ctx, prog2, 'R16.7')
    # R16.8 the stored control record is the one a restart reads: it is rewritten in place, which needs store descriptors without O_APPEND (rule of C27 R27.7)
    c27.positioned_writes_rule(ctx, prog2, 'R16.8')
    ctx.floor('R16.8', 2)
    ctx.floor('R16.6', 5)
    ctx.floor('R16.7', 2)
    ctx.floor('R16.1', 12)
    ctx.floor('R16.2', 2)
    ctx.floor('R16.3', 2)
    ctx.floor('R16.4', 2)
    ctx.floor('R16.5', 6)
