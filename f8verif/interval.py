"""K10 — interval evaluation of integer expression trees with C++ computation types.

Every arithmetic node is evaluated over intervals derived from declared input ranges; a node whose
mathematical result does not fit its (signed) computation type is reported. Locals are the join of
their definitions (flow-insensitive; ++/-- outside loops add/subtract one once)."""
from .facts import Node, AnalysisBroken
from . import q

INF = float('inf')


class IV:
    __slots__ = ('lo', 'hi')

    def __init__(self, lo, hi=None):
        self.lo, self.hi = lo, (lo if hi is None else hi)

    def join(self, o):
        return IV(min(self.lo, o.lo), max(self.hi, o.hi))

    def __repr__(self):
        return '[%s, %s]' % (self.lo, self.hi)


def _type_range(t):
    if not t or t.get('k') not in ('int', 'enum', 'bool') or 'bits' not in t and t.get('k') != 'bool':
        return None
    if t.get('k') == 'bool':
        return (0, 1)
    b = t['bits']
    return (-(1 << (b - 1)), (1 << (b - 1)) - 1) if t.get('signed') else (0, (1 << b) - 1)


class Evaluator:
    def __init__(self, fn, inputs, tables=None):
        """inputs: callable(node) -> IV or None for leaf expressions (parameters, struct members);
        tables: {decl name: [values]} for constant arrays"""
        self.fn, self.inputs, self.tables = fn, inputs, tables or {}
        self.env = {}
        self.problems = []        # (node, text)
        self._busy = set()

    def local(self, declid):
        if declid in self.env:
            return self.env[declid]
        if declid in self._busy:
            return IV(-INF, INF)
        self._busy.add(declid)
        iv = None
        incs = 0
        decs = 0
        for (n, kind, val) in q.local_defs(self.fn, declid):
            if kind in ('init', 'assign') and val is not None:
                v = self.eval(val)
                iv = v if iv is None else iv.join(v)
            elif kind == 'incdec':
                op = n.op or n.r.get('op')
                if any(a.k in ('ForStmt', 'WhileStmt', 'DoStmt') for a in n.ancestors()):
                    iv = IV(-INF, INF)
                elif op == '++':
                    incs += 1
                else:
                    decs += 1
            elif kind in ('opassign', 'out', 'out!'):
                iv = IV(-INF, INF)
        if iv is None:
            iv = IV(-INF, INF)
        iv = IV(iv.lo - decs, iv.hi + incs)
        self._busy.discard(declid)
        self.env[declid] = iv
        return iv

    def eval(self, n):
        s = n.strip()
        given = self.inputs(s)
        if given is not None:
            return given
        v = s.value
        if v is not None and s.k in ('IntegerLiteral', 'CharacterLiteral', 'CXXBoolLiteralExpr', 'UnaryExprOrTypeTraitExpr'):
            return IV(v)
        if s.k in ('CStyleCastExpr', 'CXXStaticCastExpr', 'CXXFunctionalCastExpr', 'ImplicitCastExpr'):
            inner = self.eval(s.children[0])
            return self._fit(s, inner, 'conversion')
        if s.k == 'DeclRefExpr':
            d = s.decl
            if d and d.get('sc') == 'local':
                return self.local(s.declid)
            if d and 'cv' in d:
                return IV(d['cv'])
            if v is not None:
                return IV(v)
            return IV(-INF, INF)
        if s.k == 'ArraySubscriptExpr':
            base = s.children[0].strip(casts=True)
            if base.k == 'DeclRefExpr' and base.decl and base.decl.get('n') in self.tables:
                vals = self.tables[base.decl['n']]
                idx = self.eval(s.children[1])
                if idx.lo < 0 or idx.hi > len(vals) - 1:
                    self.problems.append((s, 'index %s outside table %s[0..%d]' % (idx, base.decl['n'], len(vals) - 1)))
                    return IV(min(vals), max(vals))
                sub = vals[int(idx.lo):int(idx.hi) + 1]
                return IV(min(sub), max(sub))
            return IV(-INF, INF)
        if s.k == 'ConditionalOperator':
            return self.eval(s.child('then')).join(self.eval(s.child('else')))
        if s.k == 'UnaryOperator' and s.op == '-':
            a = self.eval(s.children[0])
            return self._fit(s, IV(-a.hi, -a.lo), 'negation')
        if s.k == 'UnaryOperator' and s.op == '+':
            return self.eval(s.children[0])
        if s.k == 'BinaryOperator' and s.op in ('+', '-', '*', '/', '%'):
            a, b = self.eval(s.children[0]), self.eval(s.children[1])
            if s.op == '+':
                r = IV(a.lo + b.lo, a.hi + b.hi)
            elif s.op == '-':
                r = IV(a.lo - b.hi, a.hi - b.lo)
            elif s.op == '*':
                c = [x * y for x in (a.lo, a.hi) for y in (b.lo, b.hi) if not (x in (INF, -INF) and y == 0) and not (y in (INF, -INF) and x == 0)] or [0]
                r = IV(min(c), max(c))
            elif s.op == '/':
                if b.lo > 0 and a.lo not in (INF, -INF) and a.hi not in (INF, -INF):
                    c = [int(x / y) for x in (a.lo, a.hi) for y in (b.lo, b.hi)]
                    r = IV(min(c), max(c))
                else:
                    r = IV(-INF, INF)
            else:
                r = IV(0, b.hi - 1) if b.lo > 0 and a.lo >= 0 else IV(-INF, INF)
            return self._fit(s, r, 'result of `%s`' % s.text()[:60])
        if v is not None:
            return IV(v)
        return IV(-INF, INF)

    def _fit(self, node, iv, what):
        tr = _type_range(node.type)
        if tr is None:
            return iv
        if node.type.get('signed') or node.k != 'BinaryOperator':
            if iv.lo < tr[0] or iv.hi > tr[1]:
                if node.type.get('signed') or node.k in ('CStyleCastExpr', 'CXXStaticCastExpr', 'CXXFunctionalCastExpr', 'ImplicitCastExpr'):
                    if iv.lo != -INF or iv.hi != INF:
                        self.problems.append((node, '%s is in %s, which does not fit %s (%d bits)' % (what, iv, node.type['c'], node.type.get('bits', 0))))
                    return IV(max(iv.lo, tr[0]), min(iv.hi, tr[1]))
        return iv
