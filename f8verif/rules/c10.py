"""C10 — enumerated-value lookups describe only the actual value."""
from ..facts import Program, AnalysisBroken, WITNESS_FIELDS
from .. import q, tv, gen

CLAIM = {
    'text': 'Hit-means-equal and table rules for enumerated domains: every binary search over a domain or lookup table whose result is turned '
            'into a hit must also test the found element for equality with the key (lower_bound alone finds the first element that is not '
            'less); a range domain may report an index only under a test that the value equals that bound; both printers index the '
            'description array only under index >= 0; and, by translation validation of the generated code against the schema, every '
            'generated domain array is strictly ascending under the comparison the runtime searches with, has as many descriptions as '
            'values, records that size, and carries exactly the schema\'s values and descriptions.',
    'note': 'Trusted: clang CFG, extractor, independent schema reader. Generated tables are validated for the schemas compiled (quick: '
            'FIX42UTEST; thorough: also FIX50SP2 and test/FIX44TEST.xml, which has range domains). Undecided: printing format.',
    'technique': 'control-dependence of "found" results on an equality test; translation validation of domain tables',
}
UNITS = [WITNESS_FIELDS, 'runtime/message.cpp']
EXPLANATION = (
    "Decided: R10.1 in every instantiation of RealmBase::get_rlm_idx<T> and in GeneratedTable::_find the non-miss result derived from "
    "std::lower_bound is control-dependent on an equality test (== or !(key < *res)) besides res != end; R10.2 the range branch returns a "
    "non-negative index only under an equality test against a bound; is_valid uses binary_search / inclusive bounds; R10.3 generated "
    "domain arrays vs. schema (see C13 machinery, field part); R10.4 `_descriptions[idx]` in MessageBase::print and print_field only under "
    "idx >= 0 with idx obtained from get_rlm_idx of the same field; R10.5 Field<T,N>::get_rlm_idx() depends only on the realm and the current value, or every method that stores the value also stores the cached member. NOT decided: output text.")
extra = {}


def extra_coverage(ctx):
    return extra


def _found_returns_guarded(fn, lb_calls):
    """for a function using lower_bound: each return of a possibly-found result must be controlled by an equality test.
    returns list of (return node or conditional node, ok, detail)"""
    out = []
    res_decl = None
    for n in fn.all_nodes():
        if n.k == 'DeclStmt':
            for d, i in n.r['decls']:
                if i >= 0 and any(c in lb_calls for c in q.calls_in(fn.node(i))):
                    res_decl = d
    if res_decl is None:
        raise AnalysisBroken('result of lower_bound is not kept in a local in ' + fn.q)

    def is_eq_test(a, pol):
        s = a.strip(casts=True)
        names = lambda x: any(y.k == 'DeclRefExpr' and y.declid == res_decl for y in x.walk())
        if s.k == 'BinaryOperator' and s.op == '==' and pol and (names(s.children[0]) or names(s.children[1])) and \
                any(y.k == 'UnaryOperator' and y.op == '*' for y in s.walk()):
            return True
        if s.is_call and s.r.get('op') == '==' and pol and any(names(x) for x in ([s.obj] if s.obj is not None else []) + s.args) and \
                any(y.k == 'UnaryOperator' and y.op == '*' for y in s.walk()):
            return True
        # !(key < *res)  /  !Less(key, *res): lower_bound already guarantees !(*res < key), so the element found must be the RIGHT operand
        if pol is False and ((s.k == 'BinaryOperator' and s.op == '<') or (s.is_call and (s.r.get('op') == '<' or (s.callee or {}).get('n') in ('Less', 'operator()')))):
            ops = list(s.children) if s.k == 'BinaryOperator' else (([s.obj] if (s.obj is not None and s.r.get('op') == '<') else []) + list(s.args))
            ops = [o for o in ops if o is not None]
            deref = lambda o: any(y.k == 'UnaryOperator' and y.op == '*' and names(y) for y in o.walk())
            if len(ops) >= 2 and deref(ops[-1]) and not deref(ops[-2]):
                return True
        return False
    # candidate "found" expressions: the then-branch of `cond ? found : miss` or returns mentioning res
    for n in fn.all_nodes():
        if n.k == 'ConditionalOperator' and any(y.k == 'DeclRefExpr' and y.declid == res_decl for y in n.child('then').walk()):
            atoms = q.controlling_atoms(fn, n.child('then').strip())
            out.append((n, any(is_eq_test(a, p) for a, p in atoms), [a.text() + '=' + str(p) for a, p in atoms]))
    return out


def run(ctx):
    prog = Program(UNITS)
    ctx.units.update(UNITS)
    # ---------------- R10.1 / R10.2
    gri = [f for f in prog.fns('FIX8::RealmBase::get_rlm_idx') if f.tmpl == 'inst']
    ctx.need(len(gri) >= 4, 'fewer than 4 instantiations of RealmBase::get_rlm_idx (%d)' % len(gri))
    for f in gri:
        ctx.saw(f)
        lbs = [c for c in f.calls() if c.callee_qp == 'std::lower_bound']
        ctx.need(len(lbs) == 1, f.q + ': lower_bound call not found')
        res = _found_returns_guarded(f, lbs)
        ctx.need(res, f.q + ': no found/miss selection')
        for (n, ok, detail) in res:
            ctx.check(ok, 'R10.1', f.q + '#hit-means-equal', n.loc, 'a hit is reported only when the element found equals the value',
                      'the index returned by %s comes from std::lower_bound with only an end-of-range test: a value that is not a member gets the index (and description) '
                      'of the next larger member' % f.q)
        # range branch
        cfg = f.cfg
        dts = q.branches(f, lambda a: a.strip(casts=True).k == 'BinaryOperator' and a.strip(casts=True).op in ('==', '!=') and q.reads_member(a, 'FIX8::RealmBase::_dtype'))
        ctx.need(len(dts) == 1, f.q + ': set/range decision not found')
        s = dts[0][1].strip(casts=True)
        is_set_val = s.children[1].strip(casts=True).value            # dt_set == 1
        range_edge = q.atom_edge(cfg, dts[0], (s.op == '!=') if is_set_val == 1 else (s.op == '=='))
        bad = []
        for r in q.reachable_returns(cfg, range_edge):
            # constants returned on this path: each non-negative one must be under an equality test with `what`
            consts = [x for x in r.walk() if x.k in ('IntegerLiteral',) and x.value is not None and x.value >= 0]
            unconditional = r.children[0].strip(casts=True).value is not None and r.children[0].strip(casts=True).value >= 0
            conds = [x for x in r.walk() if x.k == 'ConditionalOperator']
            eqs = [c for c in conds if any(y.k in ('BinaryOperator',) and y.op == '==' or (y.is_call and y.r.get('op') == '==') for y in c.child('cond').walk())]
            if unconditional or (consts and len(eqs) < len([c for c in consts if c.value >= 0 and not any(a.k == 'UnaryOperator' and a.op == '-' for a in c.ancestors())]) - 0 and not eqs):
                bad.append(r)
        ctx.check(not bad, 'R10.2', f.q + '#range-index', f.loc, 'a range domain reports an index only for a value equal to the bound it describes',
                  'for a range domain %s returns index %s unconditionally: every value, in range or not, gets the lower bound\'s description' % (f.q, bad[0].children[0].text() if bad else ''))
    gt = [f for f in prog.fns('FIX8::GeneratedTable::_find') if f.tmpl == 'inst']
    ctx.need(gt, 'GeneratedTable::_find instantiation not found')
    for f in gt[:3]:
        ctx.saw(f)
        lbs = [c for c in f.calls() if c.callee_qp == 'std::lower_bound']
        for (n, ok, detail) in _found_returns_guarded(f, lbs):
            ctx.check(ok, 'R10.1', f.q + '#hit-means-equal', n.loc, 'table lookup: a hit is reported only when the element found is not greater than the key')
    iv = [f for f in prog.fns('FIX8::RealmBase::is_valid') if f.tmpl == 'inst']
    for f in iv[:4]:
        ctx.saw(f)
        bs = [c for c in f.calls() if c.callee_qp == 'std::binary_search']
        le = [n for n in f.all_nodes() if (n.k == 'BinaryOperator' and n.op == '<=') or (n.is_call and n.r.get('op') == '<=')]
        ctx.check(len(bs) == 1 and len(le) == 2, 'R10.2', f.q + '#membership', f.loc, 'validity = binary_search over the set, or lo <= v <= hi for a range')
    # ---------------- R10.4 printers
    n4 = 0
    for fq in ('FIX8::MessageBase::print', 'FIX8::MessageBase::print_field'):
        for f in prog.fns(fq):
            ctx.saw(f)
            subs = [n for n in f.all_nodes() if n.k == 'ArraySubscriptExpr' and any(x.k == 'MemberExpr' and x.decl['n'] == '_descriptions' for x in n.children[0].walk())]
            for sbn in subs:
                n4 += 1
                idx = sbn.children[1].strip(casts=True)
                atoms = q.controlling_atoms(f, sbn)
                ok = False
                for a, p in atoms:
                    s = a.strip(casts=True)
                    nonneg = s.k == 'BinaryOperator' and ((s.op == '>=' and p and s.children[1].strip(casts=True).value == 0) or
                                                          (s.op == '>' and p and s.children[1].strip(casts=True).value == -1) or
                                                          (s.op == '<' and not p and s.children[1].strip(casts=True).value == 0))
                    if nonneg and any(x.k == 'DeclRefExpr' and x.declid == idx.declid for x in s.children[0].walk()):
                        # the index tested is the one used, and every definition of it that reaches the subscript is a fresh get_rlm_idx() result
                        # (assigned inside the test, or the initialiser of a named local; a `: -1` arm is excluded by the test itself)
                        defs_ = [(dn, kind, val) for (dn, kind, val) in q.reaching_defs(f, idx.declid, sbn) if kind != 'param']
                        ok = bool(defs_) and all(val is not None and any(c.callee is not None and c.callee.get('n') == 'get_rlm_idx' for c in q.calls_in(val))
                                                 for (dn, kind, val) in defs_)
                ctx.check(ok, 'R10.4', f.qp + '#descriptions-index@%d' % sbn.line, sbn.loc, 'the description array is indexed only with an index >= 0 freshly obtained from get_rlm_idx')
    ctx.need(n4 >= 2, 'fewer than 2 description lookups found in the printers')
    # ---------------- R10.3 generated domains
    names = ['utest'] + (['myfix'] if ctx.tier == 'thorough' else [])
    tot = {'fields': 0, 'realms': 0}
    progs = 0
    tl = [(n, None) for n in names]
    if ctx.tier == 'thorough':
        tl.append((None, gen.stock_target('test/FIX44TEST.xml', True)))
    for n, t in tl:
        st, m, sc = tv.validate(ctx, n or t['prefix'], target=t, rid='R10.3', gid='R10.3', only_fields=True)
        tot['fields'] += st['fields']
        tot['realms'] += st['realms']
        progs += 1
        ctx.units.add((t or gen.targets()[n])['schema'])
    extra.update({'programs': progs, 'validated': tot})
    ctx.need(tot['realms'] >= 80, 'fewer than 80 generated domains validated (%d)' % tot['realms'])
    # ---------------- R10.5 a field's realm index is a function of (realm, current value): any other member it is derived from is a cache,
    # and then every method that stores the value must also store that member (complete invalidation - sibling agreement over the writers)
    # one representative per value type: the instantiation with the most member functions (the explicit instantiations of the witness unit
    # have every member; implicit ones only the members some caller used)
    byT = {}
    nmeth = {}
    for g in prog.all_functions():
        if (g.rec or '').startswith('FIX8::Field<'):
            nmeth[g.rec] = nmeth.get(g.rec, 0) + 1
    for f in [f for f in prog.all_functions() if f.q.endswith('::get_rlm_idx') and (f.rec or '').startswith('FIX8::Field<') and f.tmpl in ('inst', 'spec')]:
        T = f.rec[:f.rec.rfind(',')]
        if T not in byT or nmeth[f.rec] > nmeth[byT[T].rec]:
            byT[T] = f
    for T, f in sorted(byT.items()):
        ctx.saw(f)
        others = sorted({n.decl['qp'] for n in f.all_nodes() if n.k == 'MemberExpr' and n.decl.get('k') == 'Field' and
                         n.decl.get('qp') not in ('FIX8::BaseField::_rlm', 'FIX8::Field::_value')})
        if not others:
            ctx.ok('R10.5', f.rec + '#index-from-current-value', f.loc, 'get_rlm_idx() is computed from the realm and the current value only')
            continue
        methods = [g for g in prog.all_functions() if g.rec == f.rec and g.kind != 'ctor' and g.q != f.q]
        stale = []
        for g in methods:
            if q.member_writes(g, 'FIX8::Field::_value'):
                for m in others:
                    if not q.member_writes(g, m):
                        stale.append((g, m))
        ctx.check(not stale, 'R10.5', f.rec + '#index-from-current-value', f.loc,
                  'get_rlm_idx() also reads %s, and every method that stores the value stores it too' % ', '.join(others),
                  'get_rlm_idx() answers from the member `%s`, but `%s` stores a new value without touching it: after that call the index and the '
                  'description printed belong to the previous value' % (stale[0][1].split('::')[-1], stale[0][0].q) if stale else None)
    ctx.floor('R10.5', 4)
    ctx.floor('R10.1', 5)
