#!/usr/bin/env python3
"""Writes chain.xml: a self-made schema whose repeating-group definitions collide under the schema compiler's group hash
(rothash is GF(2)-linear, collisions were solved for once with z3 - see the triples below - and are frozen here):
  * M1..M5: one count field (NoAllocs) with five mutually different member lists that all hash alike  -> a probe chain of length 5
  * N1..N3: the same outer group whose NESTED group has three different, colliding member lists        -> outer definitions differ only below
Every message must end up with its own definition (C14 R14.1 translation validation)."""
TRIPLES = [[5100, 21000, 41000], [24833, 57411, 59689], [16312, 49749, 57340], [16040, 21140, 44422], [12209, 21172, 27717]]
hdr = """<?xml version='1.0' encoding='ISO-8859-1'?>
<fix major='4' type='FIX' servicepack='0' minor='2'>
 <header>
  <field name='BeginString' required='Y' />
  <field name='BodyLength' required='Y' />
  <field name='MsgType' required='Y' />
  <field name='SenderCompID' required='Y' />
  <field name='TargetCompID' required='Y' />
  <field name='MsgSeqNum' required='Y' />
  <field name='SendingTime' required='Y' />
 </header>
 <messages>
"""
out = [hdr]
for i, t in enumerate(TRIPLES):
    out.append(" <message name='M%d' msgcat='app' msgtype='U%d'>\n  <field name='Symbol' required='Y' />\n  <group name='NoAllocs' required='N'>\n" % (i + 1, i + 1))
    for x in t:
        out.append("   <field name='F%d' required='N' />\n" % x)
    out.append("  </group>\n </message>\n")
for i, t in enumerate(TRIPLES[:3]):
    out.append(" <message name='N%d' msgcat='app' msgtype='V%d'>\n  <field name='Symbol' required='Y' />\n  <group name='NoOuter' required='N'>\n   <field name='F4100' required='Y' />\n   <group name='NoInner' required='N'>\n" % (i + 1, i + 1))
    for x in t:
        out.append("    <field name='F%d' required='N' />\n" % x)
    out.append("   </group>\n  </group>\n </message>\n")
out.append(" </messages>\n <trailer>\n  <field name='CheckSum' required='Y' />\n </trailer>\n <fields>\n")
fields = {8: ('BeginString', 'STRING'), 9: ('BodyLength', 'LENGTH'), 10: ('CheckSum', 'STRING'), 34: ('MsgSeqNum', 'SEQNUM'), 49: ('SenderCompID', 'STRING'),
          52: ('SendingTime', 'UTCTIMESTAMP'), 55: ('Symbol', 'STRING'), 56: ('TargetCompID', 'STRING'), 78: ('NoAllocs', 'NUMINGROUP'),
          4000: ('NoInner', 'NUMINGROUP'), 4001: ('NoOuter', 'NUMINGROUP'), 4100: ('F4100', 'STRING')}
for t in TRIPLES:
    for x in t:
        fields[x] = ('F%d' % x, 'STRING')
for n in sorted(fields):
    if n == 35:
        continue
    out.append("  <field number='%d' name='%s' type='%s' />\n" % (n, fields[n][0], fields[n][1]))
out.append("  <field number='35' name='MsgType' type='STRING'>\n")
for i in range(len(TRIPLES)):
    out.append("   <value enum='U%d' description='M%d' />\n" % (i + 1, i + 1))
for i in range(3):
    out.append("   <value enum='V%d' description='N%d' />\n" % (i + 1, i + 1))
out.append("  </field>\n </fields>\n</fix>\n")
open(__file__.replace('mkchain.py', 'chain.xml'), 'w').write(''.join(out))
