"""Rule engine: obligations, verdicts, known findings, evidence files, replay records."""
import json
import os
import sys
import time
import importlib
import traceback

from .facts import VERIF, REPO, AnalysisBroken, relpath

KNOWN = os.path.join(VERIF, 'known_findings.json')
EVID = os.path.join(VERIF, 'evidence')
OUT = os.path.join(VERIF, 'out')


def _loaded_units():
    from . import facts
    return set(facts.LOADED_UNITS)


class Ctx:
    def __init__(self, prop, tier, only=None):
        self.prop, self.tier = prop, tier
        self.obl = []            # dicts: rule, key, ok, site, what, detail
        self.info = []
        self.units = set()
        self.functions = set()
        self.only = only         # replay: restrict to one key
        self.counts = {}

    # --- recording
    def _rec(self, ok, rule, key, site, what, detail=None):
        fullkey = '%s@%s' % (rule, key)
        self.obl.append({'rule': rule, 'key': fullkey, 'ok': bool(ok), 'site': site, 'what': what,
                         'detail': detail})
        self.counts[rule] = self.counts.get(rule, 0) + 1
        return ok

    def ok(self, rule, key, site, what, detail=None):
        return self._rec(True, rule, key, site, what, detail)

    def fail(self, rule, key, site, what, detail=None):
        return self._rec(False, rule, key, site, what, detail)

    def check(self, cond, rule, key, site, what_ok, what_fail=None, detail=None):
        if cond:
            return self.ok(rule, key, site, what_ok, detail)
        return self.fail(rule, key, site, what_fail or ('NOT: ' + what_ok), detail)

    def note(self, text):
        self.info.append(text)

    def saw(self, fn):
        self.functions.add(fn.q)

    def floor(self, rule, n):
        """instance floor confirmed by hand: fewer sites examined means the rule lost its anchor"""
        have = self.counts.get(rule, 0)
        if any((not o['ok']) and o['rule'] == rule for o in self.obl):
            return          # the rule already reports a violation; a floor only guards against passing vacuously
        if have < n:
            raise AnalysisBroken('rule %s examined %d site(s), floor is %d — anchor lost' % (rule, have, n))

    def need(self, cond, msg):
        if not cond:
            raise AnalysisBroken(msg)


def load_known():
    try:
        with open(KNOWN) as f:
            return json.load(f)
    except FileNotFoundError:
        return {'findings': []}


def site_of(node_or_fn):
    return getattr(node_or_fn, 'loc', str(node_or_fn))


def run_property(prop, tier, only=None, quiet=False):
    """returns exit code"""
    t0 = time.time()
    seed = int(os.environ.get('VERIF_SEED', '0') or 0)
    mod = importlib.import_module('f8verif.rules.%s' % prop.lower())
    ctx = Ctx(prop, tier, only)
    try:
        mod.run(ctx)
        if not ctx.obl:
            raise AnalysisBroken('no obligation was generated for %s' % prop)
    except AnalysisBroken as e:
        print('ANALYSIS-BROKEN property=%s: %s' % (prop, e))
        return 2
    except Exception as e:
        traceback.print_exc()
        tb = traceback.extract_tb(e.__traceback__)
        where = '%s:%d' % (os.path.basename(tb[-1].filename), tb[-1].lineno) if tb else '?'
        print('ANALYSIS-BROKEN property=%s: internal error in the checker (see traceback): %s: %s at %s' % (prop, type(e).__name__, str(e)[:200], where))
        return 2

    known = [k for k in load_known()['findings'] if k['property'] == prop]
    known_open = {k['key']: k for k in known if k.get('status') == 'known'}
    fails = [o for o in ctx.obl if not o['ok']]
    if only:
        fails = [o for o in fails if o['key'] == only]
    new, matched = [], []
    for o in fails:
        if o['key'] in known_open:
            matched.append(o)
        else:
            new.append(o)
    os.makedirs(os.path.join(OUT, prop), exist_ok=True)
    # stale replay files of earlier runs
    for fn in os.listdir(os.path.join(OUT, prop)):
        try:
            os.unlink(os.path.join(OUT, prop, fn))
        except FileNotFoundError:
            pass            # a concurrent run of the same check removed it first
    seen_known = set()
    for o in matched:
        if o['key'] in seen_known:
            continue
        seen_known.add(o['key'])
        print('KNOWN-FINDING: property=%s %s %s — %s' % (prop, o['key'], o['site'], known_open[o['key']]['what']))
    for i, o in enumerate(new):
        path = os.path.join(OUT, prop, '%s-%d.json' % (o['rule'], i))
        with open(path, 'w') as f:
            json.dump({'property': prop, 'rule': o['rule'], 'key': o['key'], 'site': o['site'], 'what': o['what'],
                       'detail': o['detail'], 'tier': tier,
                       'rerun': './check %s --tier %s --only %s' % (prop, tier, o['key'])}, f, indent=1)
        print('%s: [%s] %s' % (o['site'], o['key'], o['what']))
        if o['detail']:
            for ln in (o['detail'] if isinstance(o['detail'], list) else [o['detail']]):
                print('      ' + str(ln))
        print('VIOLATION property=%s replay=%s' % (prop, path))

    if not only:
        write_evidence(ctx, mod, tier, seed, time.time() - t0, len(new), matched)
    n_ok = sum(1 for o in ctx.obl if o['ok'])
    if not quiet:
        print('%s [%s]: %d obligations, %d discharged, %d known finding(s), %d new violation(s); %d functions in %d unit(s); %.1fs'
              % (prop, tier, len(ctx.obl), n_ok, len(seen_known), len(new), len(ctx.functions), len(ctx.units), time.time() - t0))
    return 1 if new else 0


def write_evidence(ctx, mod, tier, seed, wall, nviol, matched):
    os.makedirs(EVID, exist_ok=True)
    n_ok = sum(1 for o in ctx.obl if o['ok'])
    distinct = len({o['key'] for o in ctx.obl})
    samples = []
    seen_rules = {}
    for o in ctx.obl:
        if seen_rules.get(o['rule'], 0) >= 3:
            continue
        seen_rules[o['rule']] = seen_rules.get(o['rule'], 0) + 1
        samples.append({'rule': o['rule'], 'key': o['key'], 'site': o['site'],
                        'verdict': 'discharged' if o['ok'] else 'failed', 'what': o['what'][:300]})
    level = getattr(mod, 'LEVEL', 'other')
    cov = {
        'obligations': len(ctx.obl),
        'discharged': n_ok,
        'evaluations': len(ctx.obl),
        'distinct_nontrivial': distinct,
        'rule': 'one evaluation per rule instance × site found in the current source; an instance is '
                'non-trivial when its anchor resolved and it examined at least one site/path/table row; '
                'distinct = distinct <rule>@<function>#<discriminator> keys',
        'samples': samples,
        'explanation': getattr(mod, 'EXPLANATION', ''),
        'checker_cmd': './check %s --tier %s' % (ctx.prop, tier),
        'trusted_base': ['clang 14 front end and CFG builder', '/verif/tools/f8facts.cc (fact dump, no rules)',
                         'frozen rule-instance tables in /verif/f8verif/rules/%s.py' % ctx.prop.lower()],
        'units_parsed': sorted({(u[len('/verif/'):] if u.startswith('/verif/') else u) for u in (set(ctx.units) | _loaded_units())}),
        'functions_analysed': len(ctx.functions),
        'functions_analysed_sample': sorted(ctx.functions)[:25],
        'rule_instance_counts': ctx.counts,
        'failed_obligations_known': sorted({o['key'] for o in matched}),
        'notes': ctx.info[:40],
        'exhaustive': False,
    }
    extra = getattr(mod, 'extra_coverage', None)
    if extra:
        cov.update(extra(ctx))
    ev = {
        'property_id': ctx.prop, 'tier': tier, 'seed': seed, 'level': level,
        'coverage': cov,
        'assumptions': list(getattr(mod, 'ASSUMPTIONS', [])) + [
            'structural necessary conditions only: the behaviour itself (values, histories, schedules) is not decided',
            'infeasible CFG paths are treated as feasible (can only cause alarms, never silence)'],
        'wall_s': round(wall, 2), 'violations': nviol,
    }
    with open(os.path.join(EVID, ctx.prop + '.json'), 'w') as f:
        json.dump(ev, f, indent=1)


def main(argv):
    import argparse
    ap = argparse.ArgumentParser()
    ap.add_argument('prop', nargs='?')
    ap.add_argument('--tier', default=os.environ.get('VERIF_TIER', 'quick'), choices=['quick', 'thorough'])
    ap.add_argument('--replay')
    ap.add_argument('--only')
    a = ap.parse_args(argv)
    if a.replay:
        with open(a.replay) as f:
            r = json.load(f)
        return run_property(r['property'], r.get('tier', 'quick'), only=r['key'])
    if not a.prop:
        ap.error('property id required')
    return run_property(a.prop.upper(), a.tier, only=a.only)
