"""C07 — checksum function computes the byte sum mod 256 within bounds."""
from ..facts import Program, AnalysisBroken
from .. import q

CLAIM = {
    'text': 'Structural/arithmetical rules on Message::calc_chksum (the word-parallel branch the configuration compiles): the byte range read '
            'is [from+offset, from+offset+elen) with elen = len when given and sz - offset ("the remainder") otherwise; the word loop '
            'steps by the size of the word it loads up to a multiple of that size, and the byte loop continues with the same index up to '
            'elen; carry bookkeeping cannot overflow a byte lane (flush period / stride <= 255), the overflow mask has exactly one bit per '
            'lane boundary, the collapse helper adds all lanes, and the result is reduced with & 0xff.',
    'note': 'Trusted: clang constant folding, extractor. Undecided: the algebraic identity (sum of bytes mod 256 = collapsed word sum minus '
            'collapsed carries) itself; alignment/aliasing of the word loads.',
    'technique': 'linear forms of the range expressions + table checks of loop stride, masks and shift sets (AST)',
}
UNITS = ['runtime/message.cpp']
EXPLANATION = (
    "Decided: R07.1 effective length = (len != -1 ? len : sz - offset) after `from += offset`; R07.2 word loop `ii < eeii; ii += S` with S = "
    "sizeof(loaded word), eeii = elen - elen % K with S | K, tail loop `ii < elen` on the same index reading from[ii]; R07.3 flush test "
    "`ii % P == 0` with P/S <= 255, OVERFLOW_MASK = Σ 1<<8j (j = 1..S-1), collapse = x + x>>8 + … over all lanes, result `& 0xff`. NOT "
    "decided: the arithmetic identity for concrete bytes.")

M = 'FIX8::Message::'


def run(ctx):
    prog = Program(UNITS)
    ctx.units.update(UNITS)
    rules(ctx, prog)
    ctx.floor('R07.2', 4)
    ctx.floor('R07.3', 4)
    ctx.floor('R07.4', 1)


def rules(ctx, prog, rid=None):
    """the checksum-routine rules; rid renames the rule ids when another property (C02: the CheckSum field of every encoded message)
    depends on the same routine"""
    R = (lambda r: rid) if rid else (lambda r: r)
    f = prog.fn1(M + 'calc_chksum', sig='const char *, const size_t')
    ctx.saw(f)
    cfg = f.cfg
    pfrom, psz, poff, plen = f.param_ids
    locs = {}
    for n in f.all_nodes():
        if n.k == 'DeclStmt':
            for d, init in n.r['decls']:
                locs[f.tu.decls[d]['n']] = (d, f.node(init) if init >= 0 else None)
    # the locals are identified by their ROLE, not by their names: ii = induction variable of the two loops, eeii = bound of the word loop,
    # elen = bound of the byte (tail) loop, OVERFLOW_MASK = the constant the carry extraction masks with
    fors0 = [n for n in f.all_nodes() if n.k in ('ForStmt', 'WhileStmt')]
    ctx.need(len(fors0) == 2, 'calc_chksum: expected word loop + tail loop (two for/while statements)')
    def cond_pair(loop):
        c_ = loop.child('cond').strip(casts=True) if loop.child('cond') is not None else None
        if c_ is None or c_.k != 'BinaryOperator' or c_.op != '<':
            return None
        l_, r_ = c_.children[0].strip(casts=True), c_.children[1].strip(casts=True)
        if l_.k == 'DeclRefExpr' and r_.k == 'DeclRefExpr':
            return l_.declid, r_.declid
        return None
    cp1, cp2 = cond_pair(fors0[0]), cond_pair(fors0[1])
    ctx.need(cp1 is not None and cp2 is not None and cp1[0] == cp2[0], 'calc_chksum: the two loops do not share one induction variable compared with `<` against a local bound')
    by_id = {d: (d, init) for (d, init) in locs.values()}
    locs['ii'], locs['eeii'], locs['elen'] = by_id.get(cp1[0]), by_id.get(cp1[1]), by_id.get(cp2[1])
    ctx.need(all(locs.get(k) is not None for k in ('ii', 'eeii', 'elen')), 'calc_chksum: loop variable / bounds are not locals of the function')
    if 'OVERFLOW_MASK' not in locs:
        for nm, (d, init) in list(locs.items()):
            if init is not None and nm not in ('ii', 'eeii', 'elen'):
                v_ = init.strip(casts=True).value
                if v_ is None:
                    v_ = f.tu.decls[d].get('cv')
                if isinstance(v_, int) and v_ > 0xff and v_ & 0xff == 0 and all(((v_ >> (8 * j)) & 0xff) in (0, 1) for j in range(8)):
                    locs['OVERFLOW_MASK'] = (d, init)
    # from += offset
    adv = [n for (n, kind, val) in q.local_defs(f, pfrom) if kind == 'opassign' and val is not None and q.refers_to_decl(val, poff)]
    ctx.check(len(adv) == 1, R('R07.1'), M + 'calc_chksum#start', f.loc, 'scan starts at from + offset')
    # elen
    e = locs['elen'][1]
    co = [x for x in e.walk() if x.k == 'ConditionalOperator']
    ok, why = False, 'effective length is not `len != -1 ? len : …`'
    if len(co) == 1:
        c_, t_, e_ = co[0].child('cond').strip(casts=True), co[0].child('then'), co[0].child('else')
        condok = c_.k == 'BinaryOperator' and c_.op in ('!=', '==') and q.refers_to_decl(c_.children[0], plen) and c_.children[1].strip(casts=True).value == -1
        if condok and c_.op == '==':
            t_, e_ = e_, t_          # `len == -1 ? remainder : len` is the same selection
        lf = q.linear(e_, sym=lambda x: 'SZ' if q.refers_to_decl(x, psz) else 'OFF' if q.refers_to_decl(x, poff) else x.text())
        if condok and q.refers_to_decl(t_, plen):
            if lf.t == {'SZ': 1, 'OFF': -1} and lf.c == 0:
                ok = True
            else:
                why = ('with no length given the routine scans `%s` bytes starting at from+offset; "the remainder of the buffer" is sz - offset '
                       '(reads %s byte(s) past the end and sums them)' % (lf, 'offset'))
    ctx.check(ok, R('R07.1'), M + 'calc_chksum#remainder-length', e.loc, 'effective length = len, or sz - offset when no length is given', why)
    # word loop
    wl, tl = fors0
    iid = locs['ii'][0]

    def steps(loop):
        # the stores to the induction variable inside a loop (its increment expression or its body): [(node, amount or None)]
        out_ = []
        for (n_, kind_, val_) in q.local_defs(f, iid):
            if kind_ == 'init' or not any(a_ == loop for a_ in n_.ancestors()):
                continue
            if kind_ == 'incdec':
                out_.append((n_, 1 if n_.op == '++' or n_.r.get('op') == '++' else None))
            elif kind_ == 'opassign' and n_.op == '+=':
                out_.append((n_, val_.strip(casts=True).value))
            else:
                out_.append((n_, None))
        return out_
    cond = wl.child('cond').strip(casts=True)
    ws = steps(wl)
    S = ws[0][1] if len(ws) == 1 else None
    ts = steps(tl)
    others = [n_ for (n_, kind_, val_) in q.local_defs(f, iid) if kind_ != 'init' and n_ not in [x_[0] for x_ in ws + ts]]
    loads = [x for x in wl.child('body').walk() if x.k == 'UnaryOperator' and x.op == '*' and x.children[0].strip().k == 'CXXReinterpretCastExpr']
    ctx.need(len(loads) == 1 and S is not None, 'calc_chksum: word load / stride not recognised')
    wt = loads[0].type
    wbytes = wt['bits'] // 8
    ctx.check(S == wbytes, R('R07.2'), M + 'calc_chksum#stride', wl.loc, 'word loop advances by the size of the word it loads (%d)' % wbytes,
              'word loop advances by %s but loads %d-byte words' % (S, wbytes))
    la = q.linear(loads[0].children[0].strip().children[0], sym=lambda x: 'FROM' if q.refers_to_decl(x, pfrom) else 'II' if q.refers_to_decl(x, iid) else x.text())
    ctx.check(la.t == {'FROM': 1, 'II': 1} and la.c == 0, R('R07.2'), M + 'calc_chksum#load-address', loads[0].loc, 'the word is loaded from from + ii')
    ee = locs['eeii'][1]
    lf = None
    mods = [x for x in ee.walk() if x.k == 'BinaryOperator' and x.op == '%']
    K = mods[0].children[1].strip(casts=True).value if len(mods) == 1 else None
    shape = False
    if K is not None:
        top = ee.strip(casts=True)
        while top.k in ('InitListExpr',) and top.children:
            top = top.children[0].strip(casts=True)
        shape = top.k == 'BinaryOperator' and top.op == '-' and q.refers_to_decl(top.children[0], locs['elen'][0]) and \
            q.refers_to_decl(mods[0].children[0], locs['elen'][0])
    else:
        # the same bound written with a mask: elen & ~(K-1), K a power of two
        top = ee.strip(casts=True)
        while top.k in ('InitListExpr',) and top.children:
            top = top.children[0].strip(casts=True)
        if top.k == 'BinaryOperator' and top.op == '&' and q.refers_to_decl(top.children[0], locs['elen'][0]):
            mv_ = top.children[1].strip(casts=True).value
            if mv_ is not None:
                low = (~mv_) & 0xffff
                if low & (low + 1) == 0:
                    K, shape = low + 1, True
    ctx.check(shape and K % wbytes == 0 and cond.k == 'BinaryOperator' and cond.op == '<' and q.refers_to_decl(cond.children[0], iid) and
              q.refers_to_decl(cond.children[1], locs['eeii'][0]), R('R07.2'), M + 'calc_chksum#word-bound', ee.loc,
              'word loop runs while ii < elen - elen %% %s (a multiple of the word size)' % K)
    tc = tl.child('cond').strip(casts=True)
    tail_reads = [x for part in (tl.child('inc'), tl.child('body')) if part is not None for x in part.walk()
                  if x.k == 'ArraySubscriptExpr' and q.refers_to_decl(x.children[0], pfrom)]
    ctx.check(tc.k == 'BinaryOperator' and tc.op == '<' and q.refers_to_decl(tc.children[0], iid) and q.refers_to_decl(tc.children[1], locs['elen'][0]) and
              len(tail_reads) == 1 and q.refers_to_decl(tail_reads[0].children[1].strip(casts=True).children[0] if tail_reads[0].children[1].strip(casts=True).k == 'UnaryOperator'
                                                        else tail_reads[0].children[1], iid) and
              len(ts) == 1 and ts[0][1] == 1 and not others and (tl.k != 'ForStmt' or tl.child('init') is None),
              R('R07.2'), M + 'calc_chksum#tail', tl.loc, 'the byte loop continues with the same index up to elen, reading from[ii] and advancing by one')
    # carries
    fl = q.branches(f, lambda a: any(x.k == 'BinaryOperator' and x.op in ('%', '&') and q.refers_to_decl(x.children[0], iid) for x in a.walk()))
    P = None
    for (b, a, pol) in fl:
        for x in a.walk():
            if x.k == 'BinaryOperator' and x.op == '%' and q.refers_to_decl(x.children[0], iid):
                P = x.children[1].strip(casts=True).value
            if x.k == 'BinaryOperator' and x.op == '&' and q.refers_to_decl(x.children[0], iid):
                mk = x.children[1].strip(casts=True).value
                if mk is not None and (mk & (mk + 1)) == 0:
                    P = mk + 1          # (ii & (2^k - 1)) == 0  is  ii % 2^k == 0
    ctx.check(P is not None and P % S == 0 and P // S <= 255, R('R07.3'), M + 'calc_chksum#flush-period', f.loc,
              'carry counters are flushed every %s bytes = %s iterations (<= 255, so a byte lane cannot carry into its neighbour)' % (P, (P // S) if P else None),
              'carry counters are flushed every %s bytes = %s word additions: more than 255 carries can accumulate in one byte lane' % (P, (P // S) if P else None))
    mask = locs.get('OVERFLOW_MASK')
    mv = mask[1].strip(casts=True).value if mask and mask[1] is not None else None
    if mv is None and mask:
        mv = f.tu.decls[mask[0]].get('cv')
    want = sum(1 << (8 * j) for j in range(1, wbytes))
    ctx.check(mv == want, R('R07.3'), M + 'calc_chksum#mask', f.loc, 'OVERFLOW_MASK = 0x%x: one bit at each lane boundary' % want, 'OVERFLOW_MASK is %s, expected 0x%x' % (mv, want))
    col = [c for c in f.calls() if c.callee is not None and 'collapse' in c.callee.get('n', '')]
    ctx.need(col, 'collapse helper not called')
    cf = prog.fns(col[0].callee_qp)
    ctx.need(cf, 'collapse helper body not found')
    shifts = sorted(x.children[1].strip(casts=True).value for x in cf[0].all_nodes() if x.k == 'BinaryOperator' and x.op == '>>')
    plus = [x for x in cf[0].all_nodes() if x.k == 'BinaryOperator' and x.op == '+']
    ctx.check(shifts == [8 * j for j in range(1, wbytes)] and len(plus) == wbytes - 1, R('R07.3'), col[0].callee_qp + '#lanes', cf[0].loc,
              'collapse adds all %d byte lanes (shifts %s)' % (wbytes, shifts))
    rets = [n for n in f.all_nodes() if n.k == 'ReturnStmt']
    okr = False
    if len(rets) == 1:
        s = rets[0].children[0].strip(casts=True)
        okr = s.k == 'BinaryOperator' and ((s.op == '&' and s.children[1].strip(casts=True).value == 0xff) or (s.op == '%' and s.children[1].strip(casts=True).value == 256)) and \
            s.children[0].strip(casts=True).k == 'BinaryOperator' and s.children[0].strip(casts=True).op == '-' and \
            (s.op == '&' or (s.children[0].type or {}).get('signed') is False)       # % 256 equals & 0xff only on an unsigned operand
    ctx.check(okr, R('R07.3'), M + 'calc_chksum#reduce', f.loc, 'result = (word sum − carries) & 0xff')
    # R07.4 the f8String overload is a pure forwarder to the routine above: (text start, size, offset, len) in that order, nothing added
    so = [g for g in prog.fns(M + 'calc_chksum') if 'basic_string' in g.sig or 'f8String' in g.sig]
    ctx.need(len(so) == 1, 'calc_chksum(const f8String&, ...) not found')
    g = so[0]
    ctx.saw(g)
    rr = [n for n in g.all_nodes() if n.k == 'ReturnStmt' and n.children]
    fw = [c for c in g.calls() if c.callee_q == f.q and c.callee.get('sig') == f.sig]
    okf = False
    why = 'the string overload does not forward to calc_chksum(const char*, size_t, unsigned, int) at all (a second implementation of the sum)'
    if len(rr) == 1 and len(fw) == 1 and rr[0].children[0].strip(casts=True) == fw[0]:
        a = fw[0].args
        p0, p1, p2 = g.param_ids[0], g.param_ids[1], g.param_ids[2]
        a0 = a[0].strip(casts=True)
        starts = a0.is_call and a0.callee is not None and a0.callee.get('n') in ('c_str', 'data') and a0.obj is not None and q.refers_to_decl(a0.obj, p0)
        a1 = a[1].strip(casts=True)
        sized = a1.is_call and a1.callee is not None and a1.callee.get('n') in ('size', 'length') and a1.obj is not None and q.refers_to_decl(a1.obj, p0)
        okf = starts and sized and len(a) >= 4 and q.refers_to_decl(a[2], p1) and q.refers_to_decl(a[3], p2)
        why = ('the string overload forwards `%s`: the character routine takes its size argument as the size of the buffer it is handed and applies the offset itself, '
               'so anything but (text start, size(), offset, len) makes it sum the wrong range (bytes past the end of the string)' % fw[0].text())
    ctx.check(okf, R('R07.4'), M + 'calc_chksum/string#forwards', g.loc, 'calc_chksum(f8String, offset, len) = calc_chksum(text start, size(), offset, len)', why)
