"""K12 copy completeness with member identity: every user-written copy constructor / copy assignment of a record takes each data member from the SAME
member of its argument (a member left out keeps the target's old value; a member taken from a different member of the source silently changes a setting)."""
from . import q


def copy_ops_rule(ctx, prog, rec, RID, consequence, min_fields=2):
    """rec: qualified record name. Returns the number of user-written copy operations examined."""
    recs = [r for t in prog.tus for r in t.records if r.get('q') == rec]
    ctx.need(recs, 'record %s not found' % rec)
    fields = [x['n'] for x in recs[0]['fields']]
    ctx.need(len(fields) >= min_fields, '%s: expected at least %d data members, found %s' % (rec, min_fields, fields))
    n, seen = 0, set()
    for g in prog.all_functions():
        if g.rec != rec or len(g.param_ids) != 1 or g.loc in seen or 'cfg' not in g.raw or g.raw.get('defaulted'):
            continue
        pt = g.tu.types[g.params[0]['t']]
        if pt.get('k') != 'ref' or g.tu.types[pt['pointee']].get('rec') != rec:
            continue
        is_ctor = g.kind == 'ctor'
        is_asg = (g.q or '').startswith(rec + '::operator=')
        if not (is_ctor or is_asg):
            continue
        seen.add(g.loc)
        ctx.saw(g)
        n += 1
        src = g.param_ids[0]

        def src_members(e):
            return {x.decl['n'] for x in e.walk() if x.k == 'MemberExpr' and x.decl is not None and x.decl.get('k') == 'Field' and x.decl['n'] in fields and
                    any(q.refers_to_decl(y, src) for y in x.walk() if y.k == 'DeclRefExpr')}
        covered, crossed = set(), []
        for (m, e, it) in g.inits:
            if m is None or m['n'] not in fields:
                continue
            sm = src_members(e)
            if m['n'] in sm:
                covered.add(m['n'])
            elif sm:
                crossed.append((m['n'], sorted(sm), e))
        for fl in fields:
            for (w, mm) in q.member_writes(g, rec + '::' + fl):
                rhs = w.children[1] if w.k == 'BinaryOperator' else (w.args[-1] if w.args else None)
                if rhs is None:
                    continue
                sm = src_members(rhs)
                if fl in sm:
                    covered.add(fl)
                elif sm:
                    crossed.append((fl, sorted(sm), w))
        what = 'copy constructor' if is_ctor else 'copy assignment'
        crossed = [c for c in crossed if c[0] not in covered]
        missing = [x for x in fields if x not in covered and x not in [c[0] for c in crossed]]
        why = None
        if crossed:
            why = 'the %s of %s takes `%s` from the source\'s `%s` (`%s`): %s' % (what, rec.split('::')[-1], crossed[0][0], ', '.join(crossed[0][1]), crossed[0][2].text()[:60], consequence)
        elif missing:
            why = 'the %s of %s does not carry %s: %s' % (what, rec.split('::')[-1], missing, consequence)
        ctx.check(why is None, RID, '%s::%s#carries-every-member' % (rec, 'copy-ctor' if is_ctor else 'operator='), g.loc,
                  'the %s takes each of the %d data members from the same member of its argument' % (what, len(fields)), why)
    return n, fields, recs[0]
