#!/usr/bin/env python3
"""development helper: merge the per-tree result files of parallel refactor drills (/tmp/wt/REFACTOR_RESULTS.<tree>.json, written by
`F8_REPO=<tree> tools/seeded.py refdrill ...`) into seeded/REFACTOR_RESULTS.json.  usage: refactor_merge.py [--only-new] file..."""
import json, os, sys
V = os.path.dirname(os.path.dirname(os.path.abspath(__file__)))
dst = os.path.join(V, 'seeded', 'REFACTOR_RESULTS.json')
r = json.load(open(dst))
for f in [a for a in sys.argv[1:] if not a.startswith('--')]:
    for k, v in json.load(open(f)).items():
        r[k] = v
json.dump(r, open(dst, 'w'), indent=1, sort_keys=True)
print(len(r), 'entries')
