"""C02 — encoded messages are well-formed FIX on the wire."""
from ..facts import Program, AnalysisBroken, WITNESS_FIELDS
from .. import q
from . import c07

CLAIM = {
    'text': 'Order, provenance and arithmetic rules on Message::encode(char**), BaseField::encode(char*) and the position index: header, '
            'body and trailer are rendered in that order before the body length is measured; BeginString and BodyLength are written '
            'last, right in front of the measured region, with BodyLength = end − start of that region and the CheckSum computed over '
            'exactly preamble + region and appended after it; the preamble length is |"8="|+|BeginString|+|SOH|+|"9="|+|SOH| + the number '
            'of BodyLength digits, selected by a ladder of strict comparisons with consecutive powers of ten; a field is rendered as '
            'decimal tag, \'=\', value, SOH; fields are emitted by iterating a multimap keyed by schema position, into which every '
            'add_field overload inserts with the trait position.',
    'note': 'Trusted: clang CFG, extractor, std::multimap ordering. Undecided: that a group\'s count field equals its number of elements '
            '(not enforced by the encoder), actual byte values.',
    'technique': 'dominance chains, linear forms of pointer/length expressions, ladder/table checks, sibling agreement over overloads',
}
UNITS = ['runtime/message.cpp', 'runtime/connection.cpp', WITNESS_FIELDS]
EXPLANATION = (
    "Decided: R02.1 dominance chain in Message::encode(char**): header.encode ≺ body encode ≺ trailer.encode ≺ msgLen := msg − moffs ≺ "
    "BeginString.encode ≺ BodyLength.set(msgLen) ≺ BodyLength.encode ≺ calc_chksum ≺ CheckSum.set ≺ CheckSum.encode ≺ terminator; "
    "R02.2 hmsg = moffs − hlen is published through *hmsg_store, calc_chksum(moffs − hlen, msgLen + hlen), hlen = _preamble_sz + digits, "
    "_preamble_sz = 2 + |beginStr| + 1 + 3 at both definitions; R02.3 digit ladder `<10→1, <100→2 …` strictly increasing powers of ten, "
    "fmt_chksum ladder `>99→0, >9→1, else 2` into a '000' buffer; R02.4 BaseField::encode: itoa(tag) ≺ '=' ≺ print ≺ SOH; R02.5 "
    "MessageBase::encode iterates _pos (multimap<position, field>) and all five add_field bodies insert {pos, field}; groups: count field "
    "then encode_group over _msgs in order; R02.6 the routine that computes the CheckSum (Message::calc_chksum) satisfies the range, stride and "
    "carry-bookkeeping rules of C07; R02.7 Message::encode(f8String&) assigns (pointer, length returned by encode(char**)); R02.8 copy_legal/move_legal never hand the target a position taken from the source's trait; R02.9 the scratch array of the string overload has automatic storage; R02.10 the suppress bit is only ever set for tags 8, 9, 10 (the fields Message::encode emits itself). NOT decided: group count vs. element count, values.")

M = 'FIX8::Message::'
MB = 'FIX8::MessageBase::'


def pos_type_rule(ctx, prog, RID):
    """the position index admits several fields under one key (position-less user fields all have position 0) and iterates ascending"""
    pos_t = [r for (t, r) in prog.records('FIX8::MessageBase')]
    ctx.need(pos_t, 'MessageBase record not found')
    fld = [x for x in pos_t[0]['fields'] if x['n'] == '_pos']
    ty = prog.tus[0].types[fld[0]['t']]['c'] if fld else ''
    ctx.check(ty.startswith('std::multimap<unsigned short, FIX8::BaseField *') and 'greater' not in ty, RID, MB + '_pos#type', pos_t[0]['file'].split('/')[-1],
              '_pos is std::multimap<position, field> with the default (ascending) comparator',
              '_pos has type %s: a container with unique keys drops the second of two fields that share a position (every position-less user field has position 0), '
              'so that field is marked present but never encoded' % ty)


def string_overload_rule(ctx, prog, RID):
    """Message::encode(f8String&) hands over exactly the bytes encode(char**) produced: (start pointer, returned length) - not a C string"""
    es = [g for g in prog.fns(M + 'encode') if ('basic_string' in g.sig or 'f8String' in g.sig) and 'char **' not in g.sig and len(g.param_ids) == 1]
    ctx.need(len(es) == 1, 'Message::encode(f8String&) not found')
    g = es[0]
    ctx.saw(g)
    enc = [c for c in g.calls() if c.callee_qp == M + 'encode' and c.args and q.param_type_str(c, 0) == 'char **']
    ctx.need(len(enc) == 1, 'encode(f8String&): inner encode(char**) call not found')
    outp = g.param_ids[0]
    asg = [c for c in g.calls() if c.callee is not None and c.callee.get('n') in ('assign', 'append', 'operator=') and c.obj is not None and q.refers_to_decl(c.obj, outp)]
    asg += [c for c in g.calls() if c.r.get('op') == '=' and c.args and q.refers_to_decl(c.args[0], outp)]
    ctx.need(asg, 'encode(f8String&): no assignment to the output string found')
    ok = False
    for c in asg:
        args = [a for a in (c.args if c.r.get('op') != '=' else c.args[1:]) if a.k != 'CXXDefaultArgExpr']
        if len(args) >= 2:
            ln = args[1].strip(casts=True)
            from_encode = ln == enc[0] or (ln.k == 'DeclRefExpr' and any(val is not None and enc[0] in list(val.walk()) for (_, kind, val) in q.local_defs(g, ln.declid)))
            ok = ok or from_encode
    ctx.check(ok, RID, M + 'encode/string#length-from-encoder', asg[0].loc,
              'the output string receives (pointer, length returned by encode(char**))',
              'the output string is filled by `%s` without the length the encoder returned: the text is cut at the first NUL byte (a data or pass-through value '
              'containing one is truncated together with everything after it)' % asg[0].text())


def copy_position_rule(ctx, prog, RID):
    """a field copied or moved into another message is positioned by the TARGET's traits: copy_legal / move_legal never pass a position read from the
    source's trait table"""
    n = 0
    for fq in (MB + 'copy_legal', MB + 'move_legal'):
        g = prog.fn1(fq)
        ctx.saw(g)
        for c in g.calls_to(MB + 'add_field'):
            n += 1
            if len([a for a in c.args if a.k != 'CXXDefaultArgExpr']) < 3:
                ctx.ok(RID, '%s#add_field@%s' % (fq, c.loc.split(':')[-1]), c.loc, 'the field is added through add_field(field): position looked up in the target')
                continue
            posarg = c.args[2]
            src_pos = [x for x in posarg.walk() if x.k == 'MemberExpr' and x.decl and x.decl.get('n') == '_pos' and
                       not any(y.k == 'DeclRefExpr' and y.declid == g.param_ids[0] for y in x.walk())]
            ctx.check(not src_pos, RID, '%s#add_field@%s' % (fq, c.loc.split(':')[-1]), c.loc,
                      'the position handed to the target does not come from the source message\'s trait',
                      'the copied field is entered into the target\'s position index under `%s`, the position it has in the SOURCE message type: after copy_legal between '
                      'different message types the target encodes its fields out of schema order' % posarg.text())
    ctx.need(n >= 1, 'no add_field call in copy_legal/move_legal')


def scratch_buffer_rule(ctx, prog, RID):
    """the scratch array Message::encode(f8String&) encodes into belongs to the call (automatic storage): a static one is shared by every thread that
    encodes a message"""
    es = [g for g in prog.fns(M + 'encode') if ('basic_string' in g.sig or 'f8String' in g.sig) and 'char **' not in g.sig and len(g.param_ids) == 1]
    ctx.need(len(es) == 1, 'Message::encode(f8String&) not found')
    g = es[0]
    arrays = [(dd, g.tu.decls[dd]) for st in g.all_nodes() if st.k == 'DeclStmt' for dd, init in st.r.get('decls', []) if g.tu.types[g.tu.decls[dd]['t']]['k'] == 'array']
    ctx.need(arrays, 'encode(f8String&): scratch array not found')
    bad = [d for dd, d in arrays if d.get('sc') != 'local']
    ctx.check(not bad, RID, M + 'encode/string#scratch-buffer-automatic', g.loc,
              'the scratch buffer is a local (automatic) array',
              'the scratch buffer `%s` has static storage: two threads encoding two unrelated messages at once write into the same bytes (interleaved output, wrong CheckSum)'
              % (bad[0]['n'] if bad else ''))


def run(ctx):
    prog = Program(UNITS)
    ctx.units.update(UNITS)
    f = prog.fn1(M + 'encode', sig='char **')
    ctx.saw(f)
    cfg = f.cfg
    v = cfg.vertex_of

    def call(pred, what):
        cs = [c for c in f.calls() if pred(c)]
        ctx.need(len(cs) == 1, 'Message::encode(char**): expected exactly one %s, found %d' % (what, len(cs)))
        return cs[0]
    hdr = call(lambda c: c.callee_qp == MB + 'encode' and c.obj is not None and q.refers_to_member(c.obj, M + '_header'), 'header encode')
    body = call(lambda c: c.callee_qp == MB + 'encode' and (c.obj is None or c.obj.strip(casts=True).k == 'CXXThisExpr'), 'body encode')
    trl = call(lambda c: c.callee_qp == MB + 'encode' and c.obj is not None and q.refers_to_member(c.obj, M + '_trailer'), 'trailer encode')
    fe = [c for c in f.calls() if c.callee_qp == 'FIX8::BaseField::encode']
    def via(c, getter):
        return c.obj is not None and any(x.is_call and x.callee is not None and x.callee.get('n') == getter for x in c.obj.walk())
    bse = [c for c in fe if via(c, 'get_begin_string')]
    ble = [c for c in fe if via(c, 'get_body_length')]
    cse = [c for c in fe if via(c, 'get_check_sum')]
    ctx.need(len(bse) == 1 and len(ble) == 1 and len(cse) == 1, 'BeginString/BodyLength/CheckSum encodes not found')
    sets = [c for c in f.calls() if c.callee is not None and c.callee.get('n') == 'set' and c.obj is not None]
    bls = [c for c in sets if via(c, 'get_body_length')]
    css = [c for c in sets if via(c, 'get_check_sum')]
    ctx.need(len(bls) == 1 and len(css) == 1, 'BodyLength.set / CheckSum.set not found')
    ck = call(lambda c: c.callee_qp == M + 'calc_chksum', 'calc_chksum')
    locs = {}
    for n in f.all_nodes():
        if n.k == 'DeclStmt':
            for d, init in n.r['decls']:
                locs[f.tu.decls[d]['n']] = (d, f.node(init) if init >= 0 else None, n)
    # the five locals are identified by their ROLE, not by their names:
    #   msg    = the cursor handed to the three section encoders          moffs = the local the cursor starts from
    #   msgLen = the local handed to BodyLength.set                       hlen  = the local whose initialiser reads _preamble_sz
    #   hmsg   = the cursor handed to the BeginString / BodyLength field encoders
    byid = {d: (d, init, n) for (d, init, n) in locs.values()}

    def local_id(e):
        s_ = e.strip(casts=True)
        return s_.declid if s_.k == 'DeclRefExpr' and s_.decl is not None and s_.decl.get('sc') == 'local' and s_.declid in byid else None
    r_msg = local_id(hdr.args[0]) if hdr.args else None
    r_moffs = local_id(byid[r_msg][1]) if r_msg is not None and byid[r_msg][1] is not None else None
    r_len = local_id(bls[0].args[0]) if bls[0].args else None
    r_hlen = [d for d, (_d, init, _n) in byid.items() if init is not None and q.reads_member(init, 'FIX8::F8MetaCntx::_preamble_sz')]
    r_hmsg = local_id(bse[0].args[0]) if bse[0].args else None
    ctx.need(None not in (r_msg, r_moffs, r_len, r_hmsg) and len(r_hlen) == 1 and len({r_msg, r_moffs, r_len, r_hmsg, r_hlen[0]}) == 5,
             'Message::encode: the five role locals (cursor, body start, body length, preamble length, preamble cursor) were not identified')
    for role_, d_ in (('msg', r_msg), ('moffs', r_moffs), ('msgLen', r_len), ('hlen', r_hlen[0]), ('hmsg', r_hmsg)):
        locs[role_] = byid[d_]
    mlv = cfg.decl_vertex[locs['msgLen'][0]]
    term = [n for n in f.all_nodes() if n.k == 'BinaryOperator' and n.op == '=' and n.children[0].strip().k == 'UnaryOperator' and n.children[0].strip().op == '*' and
            q.refers_to_decl(n.children[0].strip().children[0], locs['msg'][0]) and n.children[1].strip(casts=True).value == 0]
    ctx.need(len(term) == 1, 'terminating NUL store not found')
    chain = [('header', v(hdr)), ('body', v(body)), ('trailer', v(trl)), ('msgLen', mlv), ('BeginString.encode', v(bse[0])), ('BodyLength.set', v(bls[0])),
             ('BodyLength.encode', v(ble[0])), ('calc_chksum', v(ck)), ('CheckSum.set', v(css[0])), ('CheckSum.encode', v(cse[0])), ('NUL', v(term[0]))]
    for (na, a), (nb, b) in zip(chain, chain[1:]):
        ctx.check(cfg.dominates(a, b), 'R02.1', M + 'encode#order:%s<%s' % (na, nb), cfg.V[b].node.loc if cfg.V[b].node else f.loc, '%s precedes %s' % (na, nb),
                  '%s does not precede %s on every path' % (na, nb))
    # the three section encodes write at msg and advance it
    msgd = locs['msg'][0]
    for c, tag in ((hdr, 'header'), (body, 'body'), (trl, 'trailer'), (cse[0], 'checksum')):
        adv = c.parent
        while adv is not None and adv.k not in ('CompoundAssignOperator',):
            adv = adv.parent
        ctx.check(q.refers_to_decl(c.args[0], msgd) and adv is not None and adv.op == '+=' and q.refers_to_decl(adv.children[0], msgd), 'R02.1',
                  M + 'encode#cursor.' + tag, c.loc, '%s is rendered at the cursor and the cursor advances by its length' % tag)
    # ---------------- R02.2
    sym = lambda x: ('MOFFS' if q.refers_to_decl(x, locs['moffs'][0]) else 'MSG' if q.refers_to_decl(x, msgd) else 'HLEN' if q.refers_to_decl(x, locs['hlen'][0])
                     else 'MSGLEN' if q.refers_to_decl(x, locs['msgLen'][0]) else x.text())
    # named locals that merely abbreviate an expression of the role variables are substituted (a refactoring may introduce `hstart = moffs - hlen`)
    roles = {locs[k][0] for k in ('moffs', 'msg', 'hlen', 'msgLen', 'hmsg') if k in locs}
    env = {}
    for st_ in f.all_nodes():
        if st_.k == 'DeclStmt':
            for dd, init in st_.r.get('decls', []):
                if init >= 0 and dd not in roles and f.tu.decls[dd].get('sc') == 'local' and len(q.local_defs(f, dd)) == 1:
                    try:
                        lf_ = q.linear(f.node(init), env=env, sym=sym)
                        if set(lf_.t) <= {'MOFFS', 'MSG', 'HLEN', 'MSGLEN'}:
                            env[dd] = lf_
                    except Exception:
                        pass
    _lin = q.linear
    class _Q:
        pass
    def linear(n, sym=sym):
        return _lin(n, env=env, sym=sym)
    lf = linear(locs['msgLen'][1])
    ctx.check(lf.t == {'MSG': 1, 'MOFFS': -1} and lf.c == 0, 'R02.2', M + 'encode#bodylength.value', locs['msgLen'][2].loc, 'msgLen = cursor − start of the MsgType field')
    ctx.check(q.refers_to_decl(bls[0].args[0], locs['msgLen'][0]), 'R02.2', M + 'encode#bodylength.set', bls[0].loc, 'BodyLength := msgLen')
    lf = linear(locs['hmsg'][1])
    ctx.check(lf.t == {'MOFFS': 1, 'HLEN': -1} and lf.c == 0, 'R02.2', M + 'encode#preamble.start', locs['hmsg'][2].loc, 'preamble is written at moffs − hlen')
    def is_pre_start(x):
        if q.refers_to_decl(x, locs['hmsg'][0]):
            return True
        lx = linear(x)
        return lx.t == {'MOFFS': 1, 'HLEN': -1} and lx.c == 0
    pub = [n for n in f.all_nodes() if n.k == 'BinaryOperator' and n.op == '=' and n.children[0].strip().k == 'UnaryOperator' and
           q.refers_to_decl(n.children[0].strip().children[0], f.param_ids[0]) and is_pre_start(n.children[1])]
    ctx.check(len(pub) == 1 and cfg.dominates(v(pub[0]), v(bse[0])), 'R02.2', M + 'encode#publish', f.loc, '*hmsg_store := start of the preamble (before it is advanced)')
    ctx.check(q.refers_to_decl(bse[0].args[0], locs['hmsg'][0]) and q.refers_to_decl(ble[0].args[0], locs['hmsg'][0]), 'R02.2', M + 'encode#preamble.cursor', bse[0].loc,
              'BeginString and BodyLength are rendered at the preamble cursor')
    a0, a1 = linear(ck.args[0]), linear(ck.args[1])
    ctx.check(a0.t == {'MOFFS': 1, 'HLEN': -1} and a0.c == 0 and a1.t == {'MSGLEN': 1, 'HLEN': 1} and a1.c == 0, 'R02.2', M + 'encode#checksum.range', ck.loc,
              'CheckSum covers [moffs − hlen, moffs + msgLen): every byte before the CheckSum field')
    hl = locs['hlen'][1].strip(casts=True)
    ctx.check(hl.k == 'BinaryOperator' and hl.op == '+' and q.reads_member(hl.children[0], 'FIX8::F8MetaCntx::_preamble_sz'), 'R02.2', M + 'encode#hlen', locs['hlen'][2].loc,
              'hlen = _preamble_sz + number of BodyLength digits')
    # _preamble_sz at both definitions
    n_pre = 0
    for g in prog.all_functions():
        exprs = [e for (m, e, it) in g.inits if m is not None and m.get('qp') == 'FIX8::F8MetaCntx::_preamble_sz']
        exprs += [w.children[1] for (w, m) in q.member_writes(g, 'FIX8::FIXReader::_bg_sz') if len(w.children) == 2]
        for e in exprs:
            n_pre += 1
            lf = q.linear(e, sym=lambda x: 'BS' if (x.is_call and x.callee is not None and x.callee.get('n') == 'size' and any(y.k == 'MemberExpr' and y.decl['n'] == '_beginStr' for y in x.walk())) else x.text())
            ctx.check(lf.t == {'BS': 1} and lf.c == 6, 'R02.2', g.qp + '#preamble_sz', e.loc, 'preamble size = |BeginString| + 6 ("8=" SOH "9=" + one digit... counted as 2+1+3)',
                      'preamble size is `%s`' % lf)
    ctx.need(n_pre >= 2, 'expected the two preamble size definitions (F8MetaCntx, FIXReader), found %d' % n_pre)
    # ---------------- R02.3 ladders
    def ladder(n, var_ok):
        out = []
        s = n.strip(casts=True)
        while s.k == 'ConditionalOperator':
            c = s.child('cond').strip(casts=True)
            if c.k != 'BinaryOperator' or not var_ok(c.children[0]):
                return None
            out.append((c.op, c.children[1].strip(casts=True).value, s.child('then').strip(casts=True).value))
            s = s.child('else').strip(casts=True)
        out.append((None, None, s.value))
        return out
    from ..memo import _expand as _exp
    lad_expr, lad_var = _exp(f, hl.children[1]), (lambda x: q.refers_to_decl(x, locs['msgLen'][0]))      # the ladder may sit in a named const local
    le = lad_expr.strip(casts=True)
    if le.is_call and le.callee_qp and len(le.args) == 1 and q.refers_to_decl(le.args[0], locs['msgLen'][0]):
        for h in prog.fns(le.callee_qp):
            rr = [x for x in h.all_nodes() if x.k == 'ReturnStmt' and x.children]
            if len(rr) == 1 and len(h.param_ids) == 1:
                ctx.saw(h)
                lad_expr, lad_var = rr[0].children[0], (lambda x, _p=h.param_ids[0]: q.refers_to_decl(x, _p))      # the ladder lives in a helper
    lad = ladder(lad_expr, lad_var)
    okl = lad is not None and len(lad) >= 5 and all(op == '<' and th == 10 ** (i + 1) and val == i + 1 for i, (op, th, val) in enumerate(lad[:-1])) and lad[-1][2] == len(lad)
    ctx.check(okl, 'R02.3', M + 'encode#digit-ladder', locs['hlen'][2].loc, 'digit count ladder: msgLen < 10^k → k for k = 1..%d, else %d' % (len(lad) - 1 if lad else 0, len(lad) if lad else 0),
              'digit ladder is %s' % lad)
    fc = prog.fn1(M + 'fmt_chksum')
    ctx.saw(fc)
    it = [c for c in fc.calls() if c.callee_qp == 'FIX8::itoa']
    okc = False
    if len(it) == 1:
        lfc = it[0].args[1].strip(casts=True)
        off = lfc.children[1] if lfc.k == 'BinaryOperator' and lfc.op == '+' else None
        # the offset as a function of the value, evaluated from the expression tree for every CheckSum value 0..255 (named locals stand for their initialiser)
        from ..memo import _expand
        offs = None
        if off is not None:
            oe = _expand(fc, off)
            offs = [q.eval_int(oe, {fc.param_ids[0]: v}) for v in range(256)]
        caps = [fc.tu.types[fc.tu.decls[dd]['t']].get('n') for n in fc.all_nodes() if n.k == 'DeclStmt' for dd, _i in n.r['decls']
                if fc.tu.types[fc.tu.decls[dd]['t']]['k'] == 'array']
        okc = offs == [3 - len(str(v)) for v in range(256)] and caps == [4] and it[0].args[2].strip(casts=True).value == 10
    ctx.check(okc, 'R02.3', M + 'fmt_chksum#pad', fc.loc, 'CheckSum is right-aligned in a "000" buffer: offset 3 - (number of digits) for every value 0..255; base 10')
    # ---------------- R02.4 field rendering
    be = prog.fn1('FIX8::BaseField::encode', sig='(char *)')
    ctx.saw(be)
    bc = be.cfg
    ito = [c for c in be.calls() if c.callee_qp == 'FIX8::itoa']
    prt = [c for c in be.calls() if c.callee_qp == 'FIX8::BaseField::print']
    stores = [n for n in be.all_nodes() if n.k == 'BinaryOperator' and n.op == '=' and n.children[0].strip().k == 'UnaryOperator' and n.children[0].strip().op == '*']
    ctx.need(len(ito) == 1 and len(prt) == 1 and len(stores) == 2, 'BaseField::encode(char*): itoa/print/two separator stores not found')
    seq = [bc.vertex_of(ito[0]), bc.vertex_of(stores[0]), bc.vertex_of(prt[0]), bc.vertex_of(stores[1])]
    vals = [s.children[1].strip(casts=True).value for s in stores]
    ctx.check(all(bc.dominates(a, b) for a, b in zip(seq, seq[1:])) and vals == [ord('='), 1] and q.refers_to_member(ito[0].args[0], 'FIX8::BaseField::_fnum') and
              ito[0].args[2].strip(casts=True).value == 10, 'R02.4', 'FIX8::BaseField::encode#shape', be.loc, 'field = decimal tag, \'=\', value, SOH in that order')
    # ---------------- R02.5 position order
    me = prog.fn1(MB + 'encode', sig='(char *)')
    ctx.saw(me)
    trav = q.ordered_traversals(me, MB + '_pos')
    fr = [t[0] for t in trav]
    okr = len(trav) == 1 and len([n for n in me.all_nodes() if n.k in ('CXXForRangeStmt', 'ForStmt', 'WhileStmt', 'DoStmt')]) == 1
    ctx.check(okr, 'R02.5', MB + 'encode#iterate-pos', me.loc, 'fields are emitted by iterating the position index _pos')
    pos_type_rule(ctx, prog, 'R02.5')
    adds = [g for g in prog.all_functions() if g.qp in (MB + 'add_field', MB + 'add_field_decoder') and g.tmpl != 'pattern']
    n_add = 0
    for g in adds:
        ins = [c for c in g.calls() if c.callee is not None and c.callee.get('n') == 'insert' and c.obj is not None and q.refers_to_member(c.obj, MB + '_pos')]
        deleg = [c for c in g.calls() if c.callee_qp == MB + 'add_field']
        if not ins and deleg:
            # delegating overload: position comes from the trait table
            ok = any(any(x.is_call and x.callee is not None and x.callee.get('n') == 'getPos' for x in c.args[2].walk()) for c in deleg if len(c.args) >= 3)
            n_add += 1
            ctx.check(ok, 'R02.5', g.q + '/%d#pos-from-traits' % len(g.param_ids), g.loc, 'position passed on is the schema position from the field traits')
            continue
        posp = [i for i, p in enumerate(g.params) if p.get('n') == 'pos']
        ok = len(ins) == 1 and posp and any(q.refers_to_decl(x, g.param_ids[posp[0]]) for x in ins[0].args[0].walk() if x.k == 'DeclRefExpr')
        n_add += 1
        ctx.check(ok, 'R02.5', g.q + '/%d#pos-insert' % len(g.param_ids), g.loc, 'the field is entered into _pos under the position given')
    ctx.need(n_add >= 5, 'fewer than 5 add_field bodies analysed (%d)' % n_add)
    # groups
    grp = [c for c in me.calls() if c.callee_qp == MB + 'encode_group']
    fenc = [c for c in me.calls() if c.callee_qp == 'FIX8::BaseField::encode']
    ctx.check(len(grp) == 1 and len(fenc) == 1 and me.cfg.dominates(me.cfg.vertex_of(fenc[0]), me.cfg.vertex_of(grp[0])), 'R02.5', MB + 'encode#group-after-count', me.loc,
              'a group\'s elements follow its count field')
    eg = prog.fn1(MB + 'encode_group', sig='char *')
    ctx.saw(eg)
    fr2 = [n for n in eg.all_nodes() if n.k == 'CXXForRangeStmt']
    in_order = len(fr2) == 1 and any(x.k == 'MemberExpr' and x.decl['n'] == '_msgs' for x in fr2[0].child('range').walk())
    if not in_order:
        in_order = len(q.ordered_traversals(eg, 'FIX8::GroupBase::_msgs')) == 1
    if not in_order:
        # the same traversal written with the algorithm: std::for_each(_msgs.begin(), _msgs.end(), ...)
        fe = [c for c in eg.calls() if c.callee_qp == 'std::for_each' and len(c.args) >= 3]
        in_order = len(fe) == 1 and all(any(x.k == 'MemberExpr' and x.decl['n'] == '_msgs' for x in a.walk()) for a in fe[0].args[:2]) and \
            any(x.is_call and x.callee is not None and x.callee.get('n') in ('begin', 'cbegin') for x in fe[0].args[0].walk()) and \
            any(x.is_call and x.callee is not None and x.callee.get('n') in ('end', 'cend') for x in fe[0].args[1].walk())
    ctx.check(in_order, 'R02.5', MB + 'encode_group#in-order', eg.loc, 'group elements are rendered in container order')
    unk = [c for c in me.calls() if c.callee is not None and c.callee.get('n') == 'copy' and c.obj is not None and q.refers_to_member(c.obj, MB + '_unknown')]
    ctx.check(len(unk) == 1 and bool(trav) and me.cfg.dominates(me.cfg.block_in[me.cfg.V[me.cfg.vertex_of(trav[0][1])].block], me.cfg.vertex_of(unk[0])) and
              not any(a == trav[0][0] for a in unk[0].ancestors()), 'R02.5',
              MB + 'encode#unknown-last', me.loc, 'pass-through bytes follow the positioned fields')
    string_overload_rule(ctx, prog, 'R02.7')
    copy_position_rule(ctx, prog, 'R02.8')
    scratch_buffer_rule(ctx, prog, 'R02.9')
    # R02.6 the CheckSum field is computed by Message::calc_chksum: range, stride and carry bookkeeping rules of C07 apply
    c07.rules(ctx, prog, rid='R02.6')
    # ---------------- R02.10 `suppress` keeps a field out of the section encoders because Message::encode emits it itself: exactly BeginString(8),
    # BodyLength(9) and CheckSum(10).  Every place that sets the bit names one of these three by its constant tag; a setter that picks fields by another
    # trait (e.g. `automatic`, which MsgType carries too) keeps a field off the wire that nobody else emits.
    own_emits = {8, 9, 10}
    n_sup = 0
    for g in prog.all_functions():
        if 'cfg' not in g.raw or g.tmpl == 'pattern':
            continue
        for c in g.calls():
            if c.callee is None or c.callee.get('n') != 'set' or not c.args:
                continue
            if not any(x.k == 'DeclRefExpr' and x.decl is not None and x.decl.get('n') == 'suppress' for a in c.args for x in a.walk()):
                continue
            n_sup += 1
            tagv = c.args[0].strip(casts=True).value if c.callee_qp == 'FIX8::FieldTraits::set' and len(c.args) >= 2 else None
            ctx.check(tagv in own_emits, 'R02.10', g.qp + '#suppress-only-own-emits@%d' % c.line, c.loc,
                      'suppress is set for tag %s, which Message::encode emits itself' % tagv,
                      '`%s` sets the suppress bit %s: only BeginString, BodyLength and CheckSum are emitted by Message::encode itself — any other suppressed field '
                      '(MsgType is `automatic` too) silently disappears from every later encoding of the object' %
                      (c.text()[:70], 'for tag %s' % tagv if tagv is not None else 'on a field chosen at run time'))
    ctx.need(n_sup >= 1, 'no site setting the suppress bit found')
    ctx.floor('R02.10', 3)
    ctx.floor('R02.6', 8)
    ctx.floor('R02.1', 12)
    ctx.floor('R02.2', 8)
