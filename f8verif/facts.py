"""Compilation database, fact extraction (bin/f8facts), cache, and read-only wrappers.

Nothing in this module judges anything: it only turns /repo's current working tree into the
resolved-program facts the rules read.
"""
import hashlib
import json
import os
import re
import subprocess
import sys
from concurrent.futures import ThreadPoolExecutor

VERIF = os.path.dirname(os.path.dirname(os.path.abspath(__file__)))
REPO = os.environ.get('F8_REPO', '/repo')
WITNESS_FIELDS = os.path.join(VERIF, 'witness', 'inst_fields.cpp')
BIN = os.path.join(VERIF, 'bin', 'f8facts')
CACHE = os.path.join(VERIF, '.cache')
RESOURCE_INC = '/usr/lib/llvm-14/lib/clang/14.0.6/include'


class AnalysisBroken(Exception):
    """The analysis itself could not be carried out (exit 2): unit does not parse, anchor vanished,
    instance count below floor. Never a pass, never a violation."""


# --------------------------------------------------------------------------- compilation database
def _am_sources(makefile_am, var):
    """Read `<var> = a b \\ c` from a Makefile.am (continuation lines joined, += appended)."""
    try:
        txt = open(makefile_am).read()
    except OSError:
        raise AnalysisBroken('cannot read ' + makefile_am)
    txt = txt.replace('\\\n', ' ')
    out = []
    for m in re.finditer(r'^\s*' + re.escape(var) + r'\s*\+?=\s*(.*)$', txt, re.M):
        out += m.group(1).split()
    return out


def units(repo=None):
    """The hand-written translation units of the repo's build, from the four Makefile.am."""
    repo = repo or REPO
    u = []
    for s in _am_sources(os.path.join(repo, 'runtime/Makefile.am'), 'libfix8_la_SOURCES'):
        if s.endswith('.cpp') or s.endswith('.c'):
            u.append('runtime/' + s)
    for s in _am_sources(os.path.join(repo, 'compiler/Makefile.am'), 'f8c_SOURCES'):
        if s.endswith('.cpp'):
            u.append('compiler/' + s)
    for var in ('message_test_SOURCES', 'fileLogger_test_SOURCES', 'filePersister_test_SOURCES',
                'session_test_SOURCES'):
        for s in _am_sources(os.path.join(repo, 'utests/Makefile.am'), var):
            if s.endswith('.cpp'):
                u.append('utests/' + s)
    for var in ('f8test_SOURCES', 'f8print_SOURCES', 'harness_SOURCES', 'hftest_SOURCES', 'hfprint_SOURCES'):
        for s in _am_sources(os.path.join(repo, 'test/Makefile.am'), var):
            if s.endswith('.cpp'):
                u.append('test/' + s)
    seen, out = set(), []
    for x in u:
        if x not in seen:
            seen.add(x)
            out.append(x)
    return out


def flags_for(unit, repo=None):
    repo = repo or REPO
    d = os.path.join(repo, os.path.dirname(unit))
    f = ['-DHAVE_CONFIG_H', '-I' + d, '-I' + repo, '-I' + os.path.join(repo, 'include'),
         '-UNDEBUG', '-I' + RESOURCE_INC, '-Wno-everything']
    if unit.endswith('.c'):
        return ['-x', 'c'] + f
    return ['-x', 'c++', '-std=gnu++17'] + f


# --------------------------------------------------------------------------- tree hash / cache
_HASH_DIRS = ('include', 'runtime', 'compiler', 'utests', 'test', 'schema', 'util')
_HASH_EXT = ('.cpp', '.hpp', '.h', '.c', '.xml', '.am', '.hh', '.tpp', '.i')
_tree_key = {}


def tree_key(repo=None):
    repo = repo or REPO
    if repo in _tree_key:
        return _tree_key[repo]
    h = hashlib.sha256()
    with open(BIN, 'rb') as f:
        h.update(hashlib.sha256(f.read()).digest())
    for d in _HASH_DIRS:
        base = os.path.join(repo, d)
        for root, dirs, files in os.walk(base):
            dirs.sort()
            if '.libs' in dirs:
                dirs.remove('.libs')
            if '.deps' in dirs:
                dirs.remove('.deps')
            for fn in sorted(files):
                if not fn.endswith(_HASH_EXT):
                    continue
                p = os.path.join(root, fn)
                try:
                    with open(p, 'rb') as f:
                        data = f.read()
                except OSError:
                    continue
                h.update(os.path.relpath(p, repo).encode())
                h.update(hashlib.sha256(data).digest())
    for wdir in (os.path.join(VERIF, 'witness'), os.path.join(VERIF, 'triage', 'c14')):
        for fn in sorted(os.listdir(wdir)) if os.path.isdir(wdir) else []:
            if not fn.endswith(('.cpp', '.xml')):
                continue
            with open(os.path.join(wdir, fn), 'rb') as f:
                h.update(fn.encode())
                h.update(hashlib.sha256(f.read()).digest())
    _tree_key[repo] = h.hexdigest()[:24]
    return _tree_key[repo]


def _prune_cache(keep):
    try:
        ents = [e for e in os.listdir(CACHE) if e != keep]
    except OSError:
        return
    ents.sort(key=lambda e: os.path.getmtime(os.path.join(CACHE, e)))
    import time
    ents = [e for e in ents if time.time() - os.path.getmtime(os.path.join(CACHE, e)) > 3600]      # never evict what another run may be using
    for e in ents[:-2] if len(ents) > 2 else []:
        subprocess.call(['rm', '-rf', os.path.join(CACHE, e)])


def extract(unit_list, repo=None, extra_args=(), roots=None, tag=''):
    """Run f8facts on the given units (parallel), return {unit: json path}. Cached per tree key."""
    repo = repo or REPO
    if not os.path.exists(BIN):
        raise AnalysisBroken('extractor not built: run `make -C /verif/tools`')
    key = tree_key(repo)
    cdir = os.path.join(CACHE, key)
    os.makedirs(cdir, exist_ok=True)
    try:
        os.utime(cdir, None)          # mark the entry as in use: pruning goes by this time stamp
    except OSError:
        pass
    _prune_cache(key)
    res, todo = {}, []
    for u in unit_list:
        out = os.path.join(cdir, (tag + u).replace('/', '__') + '.json')
        res[u] = out
        if not os.path.exists(out):
            todo.append((u, out))

    def run(job):
        u, out = job
        src = os.path.join(repo, u)
        if not os.path.exists(src):
            raise AnalysisBroken('translation unit missing: ' + u)
        rts = roots or [repo.rstrip('/') + '/']
        if os.path.isabs(u) and not roots:
            rts = rts + [os.path.dirname(u).rstrip('/') + '/']     # witness units: their own explicit instantiations are wanted too
        tmp = '%s.%d.tmp' % (out, os.getpid())
        cmd = [BIN, '--out=' + tmp] + ['--root=' + r for r in rts] + list(extra_args) + [src, '--'] + flags_for(u, repo)
        p = subprocess.run(cmd, stdout=subprocess.PIPE, stderr=subprocess.PIPE, text=True)
        if p.returncode != 0 or not os.path.exists(tmp):
            raise AnalysisBroken('f8facts failed on %s (exit %s):\n%s' % (u, p.returncode, p.stderr[-2000:]))
        os.replace(tmp, out)
        return u

    if todo:
        with ThreadPoolExecutor(max_workers=min(16, len(todo))) as ex:
            list(ex.map(run, todo))
    return res


# --------------------------------------------------------------------------- wrappers
TRANSPARENT = {'ImplicitCastExpr', 'ParenExpr', 'ExprWithCleanups', 'MaterializeTemporaryExpr',
               'CXXBindTemporaryExpr', 'ConstantExpr', 'SubstNonTypeTemplateParmExpr', 'OpaqueValueExpr',
               'CXXDefaultArgExpr', 'FullExpr'}
EXPLICIT_CASTS = {'CStyleCastExpr', 'CXXStaticCastExpr', 'CXXFunctionalCastExpr', 'CXXReinterpretCastExpr',
                  'CXXConstCastExpr'}
CALL_KINDS = {'CallExpr', 'CXXMemberCallExpr', 'CXXOperatorCallExpr', 'CXXConstructExpr',
              'CXXTemporaryObjectExpr', 'UserDefinedLiteral'}


class Node:
    __slots__ = ('fn', 'i', 'r')

    def __init__(self, fn, i):
        self.fn, self.i, self.r = fn, i, fn.nodes[i]

    def __eq__(self, o):
        return isinstance(o, Node) and o.fn is self.fn and o.i == self.i

    def __hash__(self):
        return hash((id(self.fn), self.i))

    def __repr__(self):
        return '<%s #%d %s:%d %s>' % (self.k, self.i, os.path.basename(self.file), self.line, self.text()[:60])

    k = property(lambda s: s.r['k'])
    line = property(lambda s: s.r.get('l', 0))
    col = property(lambda s: s.r.get('col', 0))
    op = property(lambda s: s.r.get('op'))

    @property
    def file(self):
        f = self.r.get('f')
        return self.fn.tu.files[f] if f is not None else self.fn.file

    @property
    def loc(self):
        return '%s:%d' % (relpath(self.file), self.line)

    @property
    def type(self):
        t = self.r.get('t')
        return self.fn.tu.types[t] if t is not None and t >= 0 else None

    @property
    def tstr(self):
        t = self.type
        return t['c'] if t else ''

    @property
    def children(self):
        return [Node(self.fn, c) for c in self.r.get('c', []) if c is not None and c >= 0]

    def child(self, role):
        c = self.r.get(role)
        return Node(self.fn, c) if c is not None and c >= 0 else None

    @property
    def decl(self):
        d = self.r.get('d')
        return self.fn.tu.decls[d] if d is not None and d >= 0 else None

    @property
    def declid(self):
        return self.r.get('d')

    @property
    def callee(self):
        d = self.r.get('callee')
        return self.fn.tu.decls[d] if d is not None and d >= 0 else None

    @property
    def callee_qp(self):
        c = self.callee
        return c.get('qp') if c else None

    @property
    def callee_q(self):
        c = self.callee
        return c.get('q') if c else None

    @property
    def args(self):
        return [Node(self.fn, a) for a in self.r.get('args', [])]

    @property
    def obj(self):
        return self.child('obj')

    @property
    def value(self):
        """constant-folded integer value, or None"""
        if 'v' in self.r:
            return self.r['v']
        if 'vu' in self.r:
            return int(self.r['vu'])
        return None

    @property
    def is_call(self):
        return self.k in CALL_KINDS

    def strip(self, casts=False):
        """see through parentheses, implicit casts, temporaries (and explicit casts if casts=True)"""
        n = self
        while True:
            if n.k in TRANSPARENT or (casts and n.k in EXPLICIT_CASTS):
                ch = n.children
                if not ch:
                    return n
                n = ch[-1] if n.k == 'CXXDefaultArgExpr' else ch[0]
                continue
            return n

    def walk(self):
        """pre-order traversal of the subtree (does not descend into lambda bodies)"""
        stack = [self.i]
        nodes = self.fn.nodes
        while stack:
            i = stack.pop()
            yield Node(self.fn, i)
            r = nodes[i]
            for c in reversed(r.get('c', [])):
                if c is not None and c >= 0:
                    stack.append(c)

    @property
    def parent(self):
        p = self.fn.parents.get(self.i)
        return Node(self.fn, p) if p is not None else None

    def ancestors(self):
        p = self.parent
        while p is not None:
            yield p
            p = p.parent

    # ---- pretty printer (diagnostics and structural comparison)
    def text(self):
        return _text(self)


def _text(n, depth=0):
    if depth > 40:
        return '…'
    k, r = n.k, n.r
    ch = n.children
    t = lambda x: _text(x, depth + 1)
    if k in TRANSPARENT:
        if k == 'ParenExpr' and ch:
            return '(' + t(ch[0]) + ')'
        return t(ch[-1] if k == 'CXXDefaultArgExpr' else ch[0]) if ch else ''
    if k == 'DeclRefExpr':
        d = n.decl
        return d.get('n', '?') if d else '?'
    if k == 'MemberExpr':
        d = n.decl
        base = t(ch[0]) if ch else ''
        nm = d.get('n', '?') if d else '?'
        if base in ('this', ''):
            return nm
        return base + ('->' if r.get('arrow') else '.') + nm
    if k == 'CXXThisExpr':
        return 'this'
    if k in ('IntegerLiteral', 'CXXBoolLiteralExpr'):
        return str(n.value)
    if k == 'CharacterLiteral':
        v = r.get('v', 0)
        return repr(chr(v)) if 32 <= v < 127 else "'\\x%02x'" % v
    if k == 'StringLiteral':
        return json.dumps(r.get('s', r.get('hex', '')))
    if k == 'FloatingLiteral':
        return str(r.get('fv'))
    if k in ('BinaryOperator', 'CompoundAssignOperator'):
        return '%s %s %s' % (t(ch[0]), r['op'], t(ch[1])) if len(ch) == 2 else r['op']
    if k == 'UnaryOperator':
        return (t(ch[0]) + r['op']) if r.get('post') else (r['op'] + t(ch[0]))
    if k == 'CXXMemberCallExpr':
        return '%s(%s)' % (t(ch[0]) if ch else '?', ', '.join(t(a) for a in n.args))
    if k == 'CXXOperatorCallExpr':
        a = ([n.obj] if n.obj else []) + n.args
        op = r.get('op', '?')
        if op == '()' and a:
            return '%s(%s)' % (t(a[0]), ', '.join(t(x) for x in a[1:]))
        if op == '[]' and len(a) == 2:
            return '%s[%s]' % (t(a[0]), t(a[1]))
        if len(a) == 2:
            return '%s %s %s' % (t(a[0]), op, t(a[1]))
        if len(a) == 1:
            return op + t(a[0])
        return 'operator' + op
    if k == 'CallExpr':
        return '%s(%s)' % (t(ch[0]) if ch else '?', ', '.join(t(a) for a in n.args))
    if k in ('CXXConstructExpr', 'CXXTemporaryObjectExpr'):
        c = n.callee
        a = n.args
        if len(a) == 1 and k == 'CXXConstructExpr':
            return t(a[0])
        return '%s(%s)' % ((c or {}).get('n', 'ctor'), ', '.join(t(x) for x in a))
    if k in EXPLICIT_CASTS:
        return '(%s)%s' % (n.tstr, t(ch[0]) if ch else '')
    if k == 'ArraySubscriptExpr':
        return '%s[%s]' % (t(ch[0]), t(ch[1]))
    if k == 'ConditionalOperator':
        return '%s ? %s : %s' % (t(ch[0]), t(ch[1]), t(ch[2]))
    if k == 'CXXNewExpr':
        ty = n.fn.tu.types[r['alloc']]['s'] if 'alloc' in r else '?'
        init = n.child('init')
        return 'new %s%s' % (ty, ('(' + t(init) + ')') if init else '')
    if k == 'CXXDeleteExpr':
        return 'delete ' + (t(ch[0]) if ch else '')
    if k == 'ReturnStmt':
        return 'return ' + (t(ch[0]) if ch else '')
    if k == 'CXXThrowExpr':
        return 'throw ' + (t(ch[0]) if ch else '')
    if k == 'DeclStmt':
        out = []
        for d, init in r.get('decls', []):
            dd = n.fn.tu.decls[d]
            out.append(dd.get('n', '?') + ((' = ' + t(Node(n.fn, init))) if init >= 0 else ''))
        return 'decl ' + ', '.join(out)
    if k == 'UnaryExprOrTypeTraitExpr':
        return '%s(…)' % r.get('op')
    if k == 'CXXDependentScopeMemberExpr':
        return (t(ch[0]) + '.' if ch else '') + r.get('member', '?')
    if k in ('UnresolvedLookupExpr', 'UnresolvedMemberExpr'):
        return r.get('name', '?')
    if k == 'InitListExpr':
        return '{' + ', '.join(t(c) for c in ch[:8]) + (', …' if len(ch) > 8 else '') + '}'
    return k


def relpath(p):
    if p.startswith(REPO.rstrip('/') + '/'):
        return p[len(REPO.rstrip('/')) + 1:]
    return p


class Fn:
    def __init__(self, tu, raw):
        self.tu, self.raw = tu, raw
        self.nodes = raw['nodes']
        self.q, self.qp, self.sig = raw['q'], raw['qp'], raw['sig']
        self.file, self.line = raw['file'], raw['l']
        self.rec, self.recp = raw.get('rec'), raw.get('recp')
        self.kind, self.tmpl = raw['kind'], raw['tmpl']
        self._parents = None
        self._cfg = None

    def __repr__(self):
        return '<Fn %s %s>' % (self.q, self.sig)

    @property
    def loc(self):
        return '%s:%d' % (relpath(self.file), self.line)

    @property
    def name(self):
        return '%s [%s]' % (self.q, self.sig)

    def node(self, i):
        return Node(self, i)

    @property
    def body(self):
        return Node(self, self.raw['body'])

    @property
    def params(self):
        return [self.tu.decls[d] for d in self.raw['params']]

    @property
    def param_ids(self):
        return list(self.raw['params'])

    @property
    def parents(self):
        if self._parents is None:
            p = {}
            for i, r in enumerate(self.nodes):
                if not r:
                    continue
                for c in r.get('c', []):
                    if c is not None and c >= 0 and c not in p:
                        p[c] = i
            self._parents = p
        return self._parents

    def all_nodes(self):
        """every node of the body tree (and ctor initialisers), pre-order"""
        for init in self.raw.get('inits', []):
            yield from Node(self, init['e']).walk()
        yield from self.body.walk()

    def calls(self, pred=None):
        """resolved call nodes in the function; pred(callee_qp, node) filters"""
        out = []
        for n in self.all_nodes():
            if n.is_call and n.callee is not None:
                if pred is None or pred(n.callee_qp, n):
                    out.append(n)
        return out

    def calls_to(self, *qps):
        s = set(qps)
        return self.calls(lambda q, n: q in s)

    @property
    def cfg(self):
        if self._cfg is None:
            from .cfg import CFG
            if 'cfg' not in self.raw:
                raise AnalysisBroken('no CFG for ' + self.q)
            self._cfg = CFG(self)
        return self._cfg

    @property
    def inits(self):
        out = []
        for it in self.raw.get('inits', []):
            m = self.tu.decls[it['member']] if 'member' in it else None
            out.append((m, Node(self, it['e']), it))
        return out


class TU:
    def __init__(self, unit, path):
        self.unit = unit
        with open(path) as f:
            d = json.load(f)
        self.types, self.decls, self.files = d['types'], d['decls'], d['files']
        for i, dd in enumerate(self.decls):
            if dd is not None:
                dd['_i'] = i
                dd['_tu'] = self
        self.functions = [Fn(self, r) for r in d['functions']]
        self.records, self.enums, self.vars = d['records'], d['enums'], d['vars']
        self.aliases = d.get('aliases', [])
        self._by_qp = {}
        for f in self.functions:
            self._by_qp.setdefault(f.qp, []).append(f)

    def fns(self, qp, sig=None, tmpl=None):
        out = self._by_qp.get(qp, [])
        if sig is not None:
            out = [f for f in out if sig in f.sig]
        if tmpl is not None:
            out = [f for f in out if f.tmpl in tmpl]
        return out

    def record(self, qp):
        return [r for r in self.records if r['qp'] == qp or r['q'] == qp]

    def enum(self, qp):
        for e in self.enums:
            if e['qp'] == qp:
                return e
        return None

    def var(self, qp):
        return [v for v in self.vars if v['qp'] == qp]

    def decl_file(self, d):
        return self.files[d['f']] if d.get('f') is not None else ''


class VarInit:
    """wrapper giving a static variable's initialiser the Node interface"""

    def __init__(self, tu, raw):
        self.tu, self.raw, self.nodes = tu, raw, raw['nodes']
        self.file, self.q, self.qp = raw['file'], raw['q'], raw['qp']
        self.line = raw['l']
        self._parents = None

    parents = Fn.parents

    @property
    def init(self):
        return Node(self, self.raw['init'])

    @property
    def type(self):
        return self.tu.types[self.raw['t']]


_tu_cache = {}


def load(unit, repo=None):
    repo = repo or REPO
    k = (repo, unit, tree_key(repo))
    if k not in _tu_cache:
        paths = extract([unit], repo)
        _tu_cache[k] = TU(unit, paths[unit])
    return _tu_cache[k]


def load_many(unit_list, repo=None):
    repo = repo or REPO
    extract(list(unit_list), repo)
    return [load(u, repo) for u in unit_list]


LOADED_UNITS = set()        # every unit any rule of this run loaded facts for (evidence: units_parsed)


class Program:
    """A set of TUs with cross-TU lookups (functions by plain qualified name)."""

    def __init__(self, unit_list, repo=None):
        self.repo = repo or REPO
        self.units = list(unit_list)
        LOADED_UNITS.update(u if not os.path.isabs(u) else os.path.relpath(u, VERIF) for u in self.units)
        self.tus = load_many(self.units, self.repo)
        self.by_unit = dict(zip(self.units, self.tus))

    def tu(self, unit):
        return self.by_unit[unit]

    def fns(self, qp, sig=None, unit=None, tmpl=None):
        out, seen = [], set()
        for t in self.tus:
            if unit and t.unit != unit:
                continue
            for f in t.fns(qp, sig, tmpl):
                key = (f.q, f.sig, f.file, f.line)
                if key in seen:
                    continue
                seen.add(key)
                out.append(f)
        return out

    def fn1(self, qp, sig=None, unit=None, tmpl=None):
        """exactly one function (after de-duplicating identical definitions across TUs)"""
        fs = self.fns(qp, sig, unit, tmpl)
        if not fs:
            raise AnalysisBroken('anchor function not found: %s %s' % (qp, sig or ''))
        keys = {(f.q, f.sig) for f in fs}
        if len(keys) > 1:
            raise AnalysisBroken('anchor function ambiguous: %s -> %s' % (qp, sorted(keys)))
        return fs[0]

    def all_functions(self):
        seen = set()
        for t in self.tus:
            for f in t.functions:
                key = (f.q, f.sig, f.file, f.line)
                if key in seen:
                    continue
                seen.add(key)
                yield f

    def records(self, qp):
        out, seen = [], set()
        for t in self.tus:
            for r in t.record(qp):
                key = (r['q'], r['file'], r['l'])
                if key not in seen:
                    seen.add(key)
                    out.append((t, r))
        return out

    def enum(self, qp):
        for t in self.tus:
            e = t.enum(qp)
            if e:
                return e
        raise AnalysisBroken('enum not found: ' + qp)

    def vars(self, qp):
        out, seen = [], set()
        for t in self.tus:
            for v in t.var(qp):
                key = (v['q'], v['file'], v['l'])
                if key not in seen:
                    seen.add(key)
                    out.append(VarInit(t, v))
        return out
