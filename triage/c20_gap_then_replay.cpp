// R20.1: the expected inbound number is incremented even for a message that was NOT accepted (gap), so a
// conformant replay ends with MsgSequenceTooLow.
#include "sess.hpp"
int main()
{
    Fix f; f.logon();                       // expected = 2
    f.ss->process(f.order(4));              // gap: 2,3 missing -> ResendRequest
    auto o = f.out();
    std::cout << "after gap message 4: expected=" << f.ss->nrs() << " outputs=" << o.size() << std::endl;
    f.ss->process(f.order(2, true));        // conformant replay 2,3,4 with PossDup
    f.ss->process(f.order(3, true));
    f.ss->process(f.order(4, true));
    std::cout << "after replay: expected=" << f.ss->nrs() << " delivered=" << f.ss->delivered << std::endl;
    f.out();
    f.ss->process(f.order(5));              // next new message of the counterparty
    o = f.out();
    for (auto s : o) { for (auto& c : s) if (c == 1) c = '|'; std::cout << "out: " << s << std::endl; }
    std::cout << "after new message 5: expected=" << f.ss->nrs() << " delivered=" << f.ss->delivered << " shutdown=" << f.ss->is_shutdown() << std::endl;
    bool ok = f.ss->delivered == 4 && !f.ss->is_shutdown() && f.ss->nrs() == 6;
    std::cout << (ok ? "HOLDS" : "DEFECT: conformant gap recovery ends the session / expected number wrong") << std::endl;
    return ok ? 0 : 1;
}
