"""C23 — logon acceptance and CompID identity are enforced consistently."""
import itertools
from ..facts import Program, AnalysisBroken
from .. import q
from . import c20

CLAIM = {
    'text': 'Truth-table duality of SessionID::operator== / operator!= over their shared atoms (exhaustive over the 5 consistent '
            'valuations), and decision/path rules on Session::handle_logon: CompID mismatch under enforcement, client-list miss '
            'and failed authentication all end in stop + terminated + return false with no send on the way; the session identity '
            'mirrors the inbound CompIDs; ResetSeqNumFlag sets both counters to 1, otherwise recovery runs, before the Logon answer; '
            'the answer carries the inbound HeartBtInt.',
    'note': 'Trusted: clang CFG, extractor. Undecided: string comparison semantics of the CompID values, client-list contents, '
            'authenticate() overrides.',
    'technique': 'boolean-formula extraction + exhaustive valuation (operator duality); must-pass-through / must-not-pass on the CFG',
}
UNITS = ['runtime/session.cpp']
CONF_UNITS = ['runtime/configuration.cpp']
EXPLANATION = (
    "Decided: R23.1 operator!= is the pointwise negation of operator== for every consistent valuation of (same object, sender "
    "equal, target equal); R23.2 in handle_logon: (a) SessionID built as (beginStr, inbound TargetCompID, inbound SenderCompID); "
    "(b) initiator mismatch decided by `id != _sid`, acceptor mismatch by `_sci() != tci()`; under _enforce_compids each leads on "
    "every path to stop(), state terminated, return false, with no Session::send reachable; (c) client-list miss and failed "
    "authenticate likewise; (d) reset flag => both counters := 1 else recover_seqnums, before the answer is sent; (e) the answer "
    "Logon's HeartBtInt argument is the field read from the inbound message. R23.3 an acceptor's atomic_init precedes _connection->start() and does not follow it; R23.4 SessionConfig passes each configuration getter in the position of the LoginParameters constructor parameter that initialises the corresponding member. R23.6 create_clients treats an entry without an `active` attribute as active (frozen default). R23.5 the user-written copy operations of LoginParameters carry every member from the same member. NOT decided: behaviour for concrete CompID strings.")

S = 'FIX8::Session::'
SID = 'FIX8::SessionID::'


def _eval(prog, fn, n, val, depth=0):
    """evaluate a bool expression of SessionID operators under valuation val {'alias','sender','target'}"""
    s = n.strip(casts=True)
    if s.value is not None and s.k in ('CXXBoolLiteralExpr', 'IntegerLiteral'):
        return bool(s.value)
    if s.k == 'ConditionalOperator':
        return _eval(prog, fn, s.child('then') if _eval(prog, fn, s.child('cond'), val, depth) else s.child('else'), val, depth)
    if s.k == 'UnaryOperator' and s.op == '!':
        return not _eval(prog, fn, s.children[0], val, depth)
    if s.k == 'BinaryOperator' and s.op in ('&&', '||'):
        a = _eval(prog, fn, s.children[0], val, depth)
        if s.op == '&&':
            return a and _eval(prog, fn, s.children[1], val, depth)
        return a or _eval(prog, fn, s.children[1], val, depth)
    ops = None
    if s.k == 'BinaryOperator' and s.op in ('==', '!='):
        ops, op = s.children, s.op
    elif s.k == 'CXXOperatorCallExpr' and s.r.get('op') in ('==', '!='):
        ops, op = ([s.obj] if s.obj is not None else []) + s.args, s.r['op']
        if s.callee_qp in (SID + 'operator==', SID + 'operator!=') and depth < 3:
            other = prog.fn1(s.callee_qp)
            return _fn_value(prog, other, val, depth + 1)
    if ops and len(ops) == 2:
        if any(x.strip(casts=True).k == 'CXXThisExpr' for x in ops):
            eq = not val['alias']          # this == &that  <=> same object
            return eq if op == '==' else not eq
        fields = set()
        for o in ops:
            for x in o.walk():
                if x.k == 'MemberExpr' and x.decl and x.decl.get('k') == 'Field':
                    fields.add(x.decl['n'])
        if fields == {'_senderCompID'}:
            return val['sender'] if op == '==' else not val['sender']
        if fields == {'_targetCompID'}:
            return val['target'] if op == '==' else not val['target']
    if s.k == 'CXXMemberCallExpr' and (s.callee_qp or '').startswith(SID) and depth < 3 and len(s.args) == 1:
        # a bool helper of SessionID comparing its argument with the own CompID (same_side_sender_comp_id ...): inline its single return,
        # provided the argument is the other identity's field of the same name
        other = prog.fns(s.callee_qp)
        if other:
            rets = [x for x in other[0].all_nodes() if x.k == 'ReturnStmt']
            own = {x.decl['n'] for x in other[0].all_nodes() if x.k == 'MemberExpr' and x.decl and x.decl.get('k') == 'Field'}
            passed = {x.decl['n'] for x in s.args[0].walk() if x.k == 'MemberExpr' and x.decl and x.decl.get('k') == 'Field'}
            if len(rets) == 1 and len(own) == 1 and passed == own:
                return _eval(prog, other[0], rets[0].children[0], val, depth + 1)
    raise AnalysisBroken('unclassified atom in SessionID comparison: %s at %s' % (s.text(), s.loc))


def _fn_value(prog, fn, val, depth=0):
    """the bool a SessionID operator returns under valuation val: its single return expression, or (early returns) the return the CFG reaches when every
    branch atom is decided by the same valuation"""
    rets = [x for x in fn.all_nodes() if x.k == 'ReturnStmt' and x.children]
    if len(rets) == 1:
        return _eval(prog, fn, rets[0].children[0], val, depth)
    if not rets:
        raise AnalysisBroken(fn.q + ': no return')
    reached = []

    def visit(n, env):
        if n.k == 'ReturnStmt':
            reached.append(n)
    q.follow(fn, lambda a: bool(_eval(prog, fn, a, val, depth)), visit=visit)
    if not reached or not reached[-1].children:
        raise AnalysisBroken(fn.q + ': evaluation does not reach a return')
    return _eval(prog, fn, reached[-1].children[0], val, depth)


def run(ctx):
    prog = Program(UNITS)
    ctx.units.update(UNITS)
    # ---------------- R23.1
    eq, ne = prog.fn1(SID + 'operator=='), prog.fn1(SID + 'operator!=')
    ctx.saw(eq), ctx.saw(ne)
    rows, bad = [], []
    for alias, snd, tgt in itertools.product((True, False), repeat=3):
        if not alias and not (snd and tgt):
            continue              # same object => equal fields
        v = {'alias': alias, 'sender': snd, 'target': tgt}
        e, n = _fn_value(prog, eq, v), _fn_value(prog, ne, v)
        rows.append((v, e, n))
        spec_eq = snd and tgt
        if e != spec_eq:
            bad.append('operator== is %s for distinct=%s sender_equal=%s target_equal=%s' % (e, alias, snd, tgt))
        if n != (not e):
            bad.append('operator!= is %s where operator== is %s (distinct objects=%s, sender equal=%s, target equal=%s)' % (n, e, alias, snd, tgt))
    ctx.check(not bad, 'R23.1', SID + 'operator!=#dual', ne.loc, 'operator!= == !operator== on all %d consistent valuations' % len(rows),
              bad[0] if bad else None, bad)

    # ---------------- R23.2 handle_logon
    fn = prog.fn1(S + 'handle_logon')
    ctx.saw(fn)
    cfg = fn.cfg
    sends = q.verts(cfg, fn.calls_to(S + 'send'))
    ctx.need(len(sends) >= 2, 'Session::send calls not found in handle_logon')
    stops = q.verts(cfg, fn.calls_to(S + 'stop'))
    terms = q.verts(cfg, [c for c in fn.calls_to(S + 'do_state_change')
                          if c.args and c.args[0].strip(casts=True).value == _state(prog, 'st_session_terminated')])
    ctx.need(stops and terms, 'stop()/do_state_change(st_session_terminated) not found in handle_logon')

    def refuse(tag, starts, site):
        """from `starts`: every path returns false after stop() and terminated; no send reachable"""
        ctx.need(starts, 'no start vertices for ' + tag)
        hit = q.reachable_any(cfg, starts, sends)
        ctx.check(hit is None, 'R23.2', S + 'handle_logon#%s.nosend' % tag, site, 'no Session::send reachable after ' + tag,
                  'a Session::send is reachable after %s (%s)' % (tag, cfg.V[hit].node.loc if hit is not None else ''))
        p = q.escape_path(cfg, starts, stops)
        ctx.check(p is None, 'R23.2', S + 'handle_logon#%s.stop' % tag, site, 'stop() on every path after ' + tag,
                  'a path after %s reaches the function exit without stop()' % tag, cfg.describe_path(p) if p else None)
        p = q.escape_path(cfg, starts, terms)
        ctx.check(p is None, 'R23.2', S + 'handle_logon#%s.terminated' % tag, site, 'state := terminated on every path after ' + tag,
                  'a path after %s reaches the function exit without do_state_change(st_session_terminated)' % tag,
                  cfg.describe_path(p) if p else None)
        rets = q.reachable_returns(cfg, starts)
        badr = [r for r in rets if q.return_value(r) != 0]
        ctx.check(rets and not badr, 'R23.2', S + 'handle_logon#%s.retfalse' % tag, site, 'only `return false` reachable after ' + tag,
                  'after %s the function can return %s' % (tag, badr[0].text() if badr else '?'))

    # (a) identity mirrors inbound CompIDs
    ids = [n for n in fn.all_nodes() if n.k == 'DeclStmt' and any(fn.tu.types[fn.tu.decls[d]['t']]['c'] == 'FIX8::SessionID'
                                                                  for d, _ in n.r['decls'])]
    ctx.need(len(ids) == 1, 'SessionID local not found in handle_logon')
    ctor = ids[0].children[0].strip()
    ctx.need(ctor.is_call and len(ctor.args) >= 3, 'SessionID constructor call not recognised')
    ctx.check(q.reads_local_of_field(ctor.args[1], 56) and q.reads_local_of_field(ctor.args[2], 49),
              'R23.2', S + 'handle_logon#id.mirror', ids[0].loc,
              'session identity = (beginStr, inbound TargetCompID(56), inbound SenderCompID(49))')
    id_decl = ids[0].r['decls'][0][0]
    # the header fields are read from the inbound message
    for fnum, nm in ((49, 'sci'), (56, 'tci')):
        got = [c for c in fn.calls() if c.callee_qp == 'FIX8::MessageBase::get' and c.args and q.reads_local_of_field(c.args[0], fnum)
               and c.obj is not None and any(x.callee_qp == 'FIX8::Message::Header' for x in q.calls_in(c.obj))]
        ctx.check(bool(got), 'R23.2', S + 'handle_logon#read.%d' % fnum, fn.loc, 'field %d is read from the inbound header' % fnum)

    enf = q.branches(fn, lambda a: q.reads_member(a, 'FIX8::LoginParameters::_enforce_compids'))
    ctx.need(len(enf) == 2, 'expected two _enforce_compids decisions in handle_logon, found %d' % len(enf))

    # (b) initiator: id != _sid ; acceptor: _sci() != tci()
    ini = q.branches(fn, lambda a: a.is_call and a.callee_qp in (SID + 'operator!=', SID + 'operator==') and
                     any(q.refers_to_decl(x, id_decl) for x in ([a.obj] if a.obj is not None else []) + a.args) and q.reads_member(a, S + '_sid'))
    ctx.check(len(ini) == 1, 'R23.2', S + 'handle_logon#initiator.mismatch-test', fn.loc, 'initiator mismatch is decided by id !=/== _sid')
    acc = q.branches(fn, lambda a: a.is_call and a.r.get('op') in ('!=', '==') and q.reads_member(a, S + '_sci') and q.reads_local_of_field(a, 56))
    ctx.check(len(acc) == 1, 'R23.2', S + 'handle_logon#acceptor.mismatch-test', fn.loc, 'acceptor mismatch is decided by _sci() !=/== tci()')
    for tag, brs in (('initiator-mismatch', ini), ('acceptor-mismatch', acc)):
        for br in brs:
            b, atom, pol = br
            op = atom.r.get('op') or ('!=' if atom.callee_qp.endswith('!=') else '==')
            mism = q.atom_edge(cfg, br, op == '!=')
            # the enforce decision that is reachable from the mismatch edge
            mine = [e for e in enf if any(cfg.block_last[e[0]] in (cfg.reach_from(m) | {m}) for m in mism) and
                    all(cfg.dominates(cfg.block_last[b], cfg.block_last[e[0]]) for _ in (0,))]
            mine = [e for e in mine if not any(cfg.block_last[e[0]] in (cfg.reach_from(x) | {x}) for x in q.atom_edge(cfg, br, op != '!='))]
            ctx.check(len(mine) == 1, 'R23.2', S + 'handle_logon#%s.enforce' % tag, atom.loc,
                      'mismatch edge leads to its own _enforce_compids decision')
            for e in mine:
                refuse(tag, q.atom_edge(cfg, e, True), atom.loc)

    # (c) client list and authenticate
    iserr = q.branches(fn, lambda a: a.k == 'DeclRefExpr' and a.decl and a.decl.get('n') and fn.tu.types[a.decl['t']]['k'] == 'bool'
                       and a.decl.get('sc') == 'local' and any(kind == 'assign' for (_, kind, _) in q.local_defs(fn, a.declid)) and
                       cfg.blocks[cfg.V[cfg.vertex_of(a)].block].get('tk') == 'IfStmt')
    miss = q.branches(fn, lambda a: a.is_call and a.r.get('op') in ('==', '!=') and any(
        x.is_call and x.callee and x.callee.get('n') in ('cend', 'end') for x in a.walk()) and q.reads_member(a, 'FIX8::LoginParameters::_clients'))
    ctx.check(len(miss) == 1, 'R23.2', S + 'handle_logon#clients.miss-test', fn.loc, 'client list miss is tested against end()')
    for br in miss:
        b, atom, pol = br
        tg = q.atom_edge(cfg, br, atom.r.get('op') == '==')
        # on the miss edge some bool local is set to true and its IfStmt true edge refuses
        flagged = None
        for ib in iserr:
            d = ib[1].declid
            sets = [n for (n, kind, val) in q.local_defs(fn, d) if kind == 'assign' and val is not None and val.strip(casts=True).value == 1]
            if any(cfg.vertex_of(n) in set().union(*[cfg.reach_from(t) | {t} for t in tg]) for n in sets):
                pth = q.escape_path(cfg, tg, q.verts(cfg, sets), exit_kinds=('return', 'falloff'))
                flagged = (ib, pth)
        ctx.check(flagged is not None and flagged[1] is None, 'R23.2', S + 'handle_logon#clients.miss-flag', atom.loc,
                  'a miss in the client list always sets the error flag')
        if flagged:
            refuse('client-refused', q.atom_edge(cfg, flagged[0], True), atom.loc)
    auth = q.branches(fn, lambda a: a.is_call and a.callee_qp == S + 'authenticate')
    ctx.check(len(auth) == 1, 'R23.2', S + 'handle_logon#auth.test', fn.loc, 'authenticate(id, msg) decides acceptance')
    for br in auth:
        refuse('auth-failed', q.atom_edge(cfg, br, False), br[1].loc)
        # the answer Logon is only sent when authenticate returned true
        glog = [c for c in fn.calls_to(S + 'send') if any(x.callee_qp == S + 'generate_logon' for x in q.calls_in(c))]
        ctx.need(len(glog) == 1, 'send(generate_logon(...)) not found in handle_logon')
        atoms = q.controlling_atoms(fn, glog[0])
        ctx.check(any(a == br[1] and pol for a, pol in atoms), 'R23.2', S + 'handle_logon#answer.after-auth', glog[0].loc,
                  'Logon answer dominated by authenticate() == true')
        # (e) HeartBtInt echoed
        gl = [x for x in q.calls_in(glog[0]) if x.callee_qp == S + 'generate_logon'][0]
        hb = gl.args[0]
        loc_ok = False
        for x in hb.walk():
            if x.k == 'DeclRefExpr' and x.decl and q.field_num(fn.tu.types[x.decl['t']]['c']) == 108:
                outs = [dn for (dn, kind, val) in q.reaching_defs(fn, x.declid, x) if kind == 'out' and dn.callee_qp == 'FIX8::MessageBase::get'
                        and dn.obj is not None and dn.obj.strip(casts=True).k == 'DeclRefExpr' and dn.obj.strip(casts=True).decl.get('sc') == 'param']
                loc_ok = bool(outs)
        ctx.check(loc_ok, 'R23.2', S + 'handle_logon#answer.hbi', gl.loc, 'answer Logon HeartBtInt is the field read from the inbound Logon')
        # set_hb_interval gets the same
        # (d) reset / recover before the answer
        rg = q.branches(fn, lambda a: a.k == 'DeclRefExpr' and a.decl and a.decl.get('sc') == 'local' and any(
            kind == 'init' and val is not None and any(c.callee_qp == 'FIX8::MessageBase::have' and c.args and c.args[0].strip(casts=True).value == 141
                                                       for c in q.calls_in(c20.decision_expr(prog, fn, val))) for (_, kind, val) in q.local_defs(fn, a.declid)))
        ctx.check(len(rg) == 1, 'R23.2', S + 'handle_logon#reset.test', fn.loc, 'ResetSeqNumFlag(141) decision present')
        gv = cfg.vertex_of(glog[0])
        for br2 in rg:
            for member, tag in ((S + '_next_send_seq', 'send'), (S + '_next_receive_seq', 'recv')):
                ones = q.verts(cfg, [w for (w, m) in q.member_writes(fn, member) if w.args and (w.args[-1].strip(casts=True).value == 1 or
                                     (w.args[-1].strip(casts=True).k == 'CXXOperatorCallExpr' and w.args[-1].strip(casts=True).args[-1].strip(casts=True).value == 1))])
                p = cfg.path(q.atom_edge(cfg, br2, True)[0], lambda x: x == gv, avoid=ones)
                ctx.check(p is None and bool(ones), 'R23.2', S + 'handle_logon#reset.%s' % tag, br2[1].loc,
                          'ResetSeqNumFlag=Y: %s counter := 1 on every path to the Logon answer' % tag)
                # ... and stays 1: no other store to the counter between the reset and the answer
                others = [w for (w, m) in q.member_writes(fn, member) if cfg.has_vertex(w) and cfg.vertex_of(w) not in ones]
                late = [w for w in others if any(cfg.vertex_of(w) in cfg.reach_from(o) for o in ones) and gv in cfg.reach_from(cfg.vertex_of(w))]
                ctx.check(not late, 'R23.2', S + 'handle_logon#reset.%s.final' % tag, br2[1].loc,
                          'ResetSeqNumFlag=Y: nothing overwrites the %s counter between the reset to 1 and the Logon answer' % tag,
                          'after the ResetSeqNumFlag=Y reset the %s counter is stored again at %s (`%s`) before the answer is sent: an acceptor started with explicit '
                          'sequence numbers ignores the reset' % (tag, late[0].loc if late else '', late[0].text() if late else ''))
            recs = q.verts(cfg, fn.calls_to(S + 'recover_seqnums'))
            p = cfg.path(q.atom_edge(cfg, br2, False)[0], lambda x: x == gv, avoid=recs)
            ctx.check(p is None and bool(recs), 'R23.2', S + 'handle_logon#noreset.recover', br2[1].loc,
                      'no reset flag: recover_seqnums on every path to the Logon answer')
    # ---------------- R23.3 an acceptor initialises its state and counters BEFORE its reader thread is started (a Logon handled while start() is still
    # running must not be undone afterwards)
    stf = prog.fn1(S + 'start')
    ctx.saw(stf)
    scfg = stf.cfg
    roles = dict(prog.enum('FIX8::Connection::Role')['e'])
    def acceptor(v, w, lab):
        if lab is None or not isinstance(lab[1], bool):
            return True
        c = scfg.cond_node(lab[0])
        if c is None:
            return True
        a, pol = q.polar(c, lab[1])
        t = a.strip(casts=True)
        if t.k == 'BinaryOperator' and t.op in ('==', '!=') and any(x.is_call and x.callee is not None and x.callee.get('n') == 'get_role' for x in t.walk()):
            val = t.children[1].strip(casts=True).value
            if val is None:
                val = t.children[0].strip(casts=True).value
            if val in (roles.get('cn_acceptor'), roles.get('cn_initiator')):
                is_acc = (val == roles['cn_acceptor']) == (t.op == '==')
                return is_acc == pol
        return True
    cstart = [c for c in stf.calls() if c.callee_qp == 'FIX8::Connection::start']
    inits = [c for c in stf.calls_to(S + 'atomic_init')]
    ctx.need(len(cstart) == 1 and inits, 'Session::start: _connection->start() / atomic_init not found')
    csv = scfg.vertex_of(cstart[0])
    reach0 = scfg.reach_from(scfg.entry, edge_ok=acceptor) | {scfg.entry}
    before = [c for c in inits if scfg.vertex_of(c) in reach0 and csv in scfg.reach_from(scfg.vertex_of(c), edge_ok=acceptor)]
    after = [c for c in inits if scfg.vertex_of(c) in scfg.reach_from(csv, edge_ok=acceptor)]
    ctx.check(bool(before) and not after, 'R23.3', S + 'start#acceptor-init-before-reader', cstart[0].loc,
              'for an acceptor atomic_init(...) runs before _connection->start() and not again after it',
              'for an acceptor the state and both sequence numbers are (re)initialised at %s, after the reader thread was started: a Logon the reader handles in between is '
              'undone (state back to wait_for_logon, counters back to 1 after the answer was sent)' % (after[0].loc if after else 'no point before the start'))
    # ---------------- R23.4 the session configuration reaches LoginParameters member by member: positional construction in SessionConfig agrees with the
    # constructor's parameter -> member wiring (frozen pairing, read off the two sites)
    PAIR = {'get_retry_interval': '_login_retry_interval', 'get_retry_count': '_login_retries', 'get_default_appl_ver_id': '_davi',
            'get_connect_timeout': '_connect_timeout', 'get_reset_sequence_number_flag': '_reset_sequence_numbers',
            'get_always_seqnum_assign': '_always_seqnum_assign', 'get_silent_disconnect': '_silent_disconnect', 'get_no_chksum_flag': '_no_chksum_flag',
            'get_permissive_mode_flag': '_permissive_mode_flag', 'get_enforce_compids_flag': '_enforce_compids', 'get_tcp_recvbuf_sz': '_recv_buf_sz',
            'get_tcp_sendbuf_sz': '_send_buf_sz', 'get_heartbeat_interval': '_hb_int', 'create_login_schedule': '_login_schedule', 'create_clients': '_clients'}
    lpc = [g for g in prog.all_functions() if g.kind == 'ctor' and g.rec == 'FIX8::LoginParameters' and len(g.param_ids) >= 15]
    ctx.need(len(lpc) == 1, 'LoginParameters value constructor not found')
    lp = lpc[0]
    ctx.saw(lp)
    p2m = {}
    for (m, e, it) in lp.inits:
        if m is None:
            continue
        st_ = e.strip(casts=True)
        refs = [x for x in e.walk() if x.k == 'DeclRefExpr' and x.declid in lp.param_ids]
        if len(refs) == 1:
            p2m[lp.param_ids.index(refs[0].declid)] = m['n']
    scs = [g for g in prog.all_functions() if g.kind == 'ctor' and g.rec == 'FIX8::SessionConfig']
    ctx.need(scs, 'SessionConfig constructor not found')
    sc = scs[0]
    ctx.saw(sc)
    cons = [n for n in sc.all_nodes() if n.k in ('CXXConstructExpr', 'CXXTemporaryObjectExpr', 'InitListExpr') and 'LoginParameters' in (n.tstr or '') and
            len(n.args if n.k != 'InitListExpr' else n.children) >= 15]
    ctx.need(cons, 'SessionConfig: construction of LoginParameters not found')
    con = cons[0]
    cargs = con.args if con.k != 'InitListExpr' else con.children
    wrong = []
    n_pairs = 0
    for i, a in enumerate(cargs):
        getters = [x.callee.get('n') for x in a.walk() if x.is_call and x.callee is not None and x.callee.get('n') in PAIR]
        if not getters:
            continue
        n_pairs += 1
        want, got = PAIR[getters[0]], p2m.get(i)
        if want != got:
            wrong.append((getters[0], want, got, i))
    ctx.need(n_pairs >= 12, 'SessionConfig: fewer than 12 configuration getters recognised in the LoginParameters construction (%d)' % n_pairs)
    ctx.check(not wrong, 'R23.4', 'FIX8::SessionConfig::SessionConfig#login-parameters-wiring', con.loc,
              'each configuration value is passed in the position of the constructor parameter that initialises its member (%d pairs)' % n_pairs,
              'the value of %s() is passed as argument %d, which the LoginParameters constructor stores in %s (expected %s): a session configured from XML gets the wrong setting '
              '(CompID enforcement silently off)' % (wrong[0][0], wrong[0][3] + 1, wrong[0][2], wrong[0][1]) if wrong else None)
    from . import c20 as _c20
    _c20.reset_by_value_rule(ctx, prog, 'R23.2')
    # ---------------- R23.5 the login parameters reach the session by ASSIGNMENT (SessionConfig, Session::set_login_parameters): the user-written copy
    # operations of LoginParameters carry every member from the same member — `_enforce_compids` taken from `_reliable` switches CompID enforcement off for
    # every non-reliable session
    from ..copyrule import copy_ops_rule
    n_lp, _f, _r = copy_ops_rule(ctx, prog, 'FIX8::LoginParameters', 'R23.5',
                                 'a session configured to enforce CompIDs accepts a Logon whose CompIDs do not mirror its own (or the reverse)', min_fields=10)
    if n_lp == 0:
        ctx.ok('R23.5', 'FIX8::LoginParameters#carries-every-member', 'include/fix8/session.hpp:%d' % _r.get('l', 0), 'LoginParameters has no user-written copy operations')
    # ---------------- R23.6 the acceptor's client list: handle_logon refuses an unlisted or inactive sender only while the list is non-empty, so which entries
    # create_clients puts into it is part of the acceptance rule.  An entry is active unless it says otherwise (frozen: the documented form
    # `<client name=.. target_comp_id=.. ip=.. active="true"/>` and the sample configurations omit the attribute): every read of "active" there defaults to true.
    progc = Program(CONF_UNITS)
    ctx.units.update(CONF_UNITS)
    ccl = progc.fn1('FIX8::Configuration::create_clients')
    ctx.saw(ccl)
    acts = [c for c in ccl.calls() if c.callee is not None and c.callee.get('n') in ('FindAttr', 'find_or_default') and len(c.args) >= 2 and
            any(x.k == 'StringLiteral' and x.r.get('s') == 'active' for x in c.args[-2].walk())]
    ctx.need(acts, 'create_clients: no read of the "active" attribute found')
    for i_, c in enumerate(acts):
        dv = c.args[-1].strip(casts=True).value
        ctx.check(dv == 1, 'R23.6', 'FIX8::Configuration::create_clients#active-defaults-true@%d' % i_, c.loc,
                  'a client entry without an `active` attribute counts as active',
                  '`%s`: a client entry that does not spell out active="true" is left out of the client list; with every entry left out the list is empty and '
                  'handle_logon skips the client check altogether (unlisted and disabled senders log on), with some left out listed clients are refused' % c.text()[:60])
    ins = [c for c in ccl.calls() if c.callee is not None and c.callee.get('n') == 'insert']
    ctx.check(len(ins) >= 1, 'R23.6', 'FIX8::Configuration::create_clients#inserts', ccl.loc, 'accepted entries are inserted into the client map')
    ctx.floor('R23.3', 1)
    ctx.floor('R23.4', 1)
    ctx.floor('R23.1', 1)
    ctx.floor('R23.2', 25)


def _state(prog, name):
    e = prog.enum('FIX8::States::SessionStates')
    for n, v in e['e']:
        if n == name:
            return v
    raise AnalysisBroken('state %s not found' % name)
