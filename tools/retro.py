#!/usr/bin/env python3
"""Development-time drill: every defect recorded as `fixed` must be reported again when its fix: commit is
reverted in /repo's working tree (and only then). Reverts one commit at a time with `git apply -R`, runs the
check, restores the tree with `git checkout -- .`. Not a registered check."""
import json, os, subprocess, sys
V = os.path.dirname(os.path.dirname(os.path.abspath(__file__)))
R = '/repo'
kf = json.load(open(os.path.join(V, 'known_findings.json')))['findings']
by_commit = {}
for f in kf:
    if f['status'] == 'fixed':
        by_commit.setdefault(f['commit'], []).append(f)
only = sys.argv[1:]
bad = 0
assert subprocess.run(['git', '-C', R, 'status', '--porcelain', '--untracked-files=no'], capture_output=True, text=True).stdout.strip() == '', 'repo dirty'
for commit, fs in by_commit.items():
    if only and commit not in only and not any(f['property'] in only for f in fs):
        continue
    diff = subprocess.run(['git', '-C', R, 'show', '--format=', commit], capture_output=True, text=True).stdout
    try:
        p = subprocess.run(['git', '-C', R, 'apply', '-R'], input=diff, text=True, capture_output=True)
        if p.returncode != 0:
            p = subprocess.run(['patch', '-R', '-p1', '--fuzz=3', '-s', '--no-backup-if-mismatch', '-d', R], input=diff, text=True, capture_output=True)
        if p.returncode != 0:
            print('SKIP %s: cannot revert cleanly (%s)' % (commit, p.stderr.strip()[:100]))
            continue
        for prop in sorted({f['property'] for f in fs}):
            r = subprocess.run([os.path.join(V, 'check'), prop], capture_output=True, text=True, cwd=V)
            keys = [f['key'] for f in fs if f['property'] == prop]
            hit = [k for k in keys if ('[%s]' % k) in r.stdout]
            status = 'OK  ' if r.returncode == 1 and len(hit) == len(keys) else 'FAIL'
            if status == 'FAIL':
                bad += 1
            print('%s revert %s -> %s exit=%d reported %d/%d keys' % (status, commit, prop, r.returncode, len(hit), len(keys)))
            if status == 'FAIL':
                print(r.stdout[-1500:])
    finally:
        subprocess.run(['git', '-C', R, 'checkout', '--', '.'])
sys.exit(1 if bad else 0)
