// R26.4: FilePersister::get reads a record into char buff[FIX8_MAX_MSG_LENGTH]; a stored record longer than that
// overflowed the stack. Contract: either the put is refused or the get returns the stored bytes.
#include <fix8/f8includes.hpp>
using namespace FIX8;
int main()
{
    system("rm -rf c26_store && mkdir c26_store");
    FilePersister fp;
    fp.initialise("c26_store", "big", true);
    f8String big(9000, 'x'), back;
    bool put_ok = fp.put(1, big);
    bool get_ok = fp.get(1, back);
    std::cout << "put=" << put_ok << " get=" << get_ok << " size=" << back.size() << std::endl;
    bool ok = (!put_ok && !get_ok) || (put_ok && get_ok && back == big);
    std::cout << (ok ? "HOLDS" : "DEFECT") << std::endl;
    system("rm -rf c26_store");
    return ok ? 0 : 1;
}
