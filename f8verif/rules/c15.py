"""C15 — socket reader frames the byte stream exactly."""
from ..facts import Program, AnalysisBroken
from .. import q, extent
from . import c03

CLAIM = {
    'text': 'Extent, must-pass-through and provenance rules on FIXReader::read: every socket read into the frame buffer has offset + length '
            'within the buffer by constants or dominating guards; the tag/value extractions are bounded (same callee summaries as C03); '
            '`return true` is dominated by the checks first tag = 8, BeginString equal to the session\'s, second tag = 9, BodyLength '
            'all digits, non-zero and within the maximum, and by complete reads of body and checksum; the bytes appended equal the '
            'bytes read; in the reader loop each successfully read message is handed on exactly once, before the next read.',
    'note': 'Trusted: clang CFG, extractor; the preamble size _bg_sz (2 + |BeginString| + 4, from the compiled schema) is assumed far below '
            'the buffer size. Undecided: chunking schedules (sockRead loops until n bytes: only its loop shape is checked), stream '
            're-synchronisation after an error.',
    'technique': 'extent vs. guard intervals; dominance of acceptance by validation checks; literal/linear-form agreement',
}
UNITS = ['runtime/connection.cpp', 'runtime/message.cpp']
EXPLANATION = (
    "Decided: R15.1 sockRead(msg_buf [+ off], n) sites: n constant or bounded by a dominating guard so that off + n <= sizeof msg_buf; the "
    "byte-wise preamble loop stores at an index < max; sockRead's loop subtracts what it received and adds it to the write position; "
    "R15.2 both extract_element calls bounded (C03 summaries); R15.3 `return true` dominated by: *tag=='8', BeginString compare, "
    "*tag=='9', mlen != 0 && mlen <= max - preamble - checksum, both reads equal to the requested length; appended count = mlen + "
    "checksum size from the same buffer; R15.4 BodyLength text proven all-digits before fast_atoi; R15.5 reader loop: read() true ⇒ "
    "exactly one of try_push / Session::process with that string. NOT decided: chunk schedules, concurrency.")

R = 'FIX8::FIXReader::'


def run(ctx):
    prog = Program(UNITS)
    ctx.units.update(UNITS)
    f = prog.fn1(R + 'read')
    ctx.saw(f)
    cfg = f.cfg
    # the frame buffer: the array the fixed-size preamble is read into (a local of read() or a member of the reader)
    pre = [c for c in f.calls_to(R + 'sockRead') if c.args[1].strip(casts=True).text().endswith('_bg_sz')]
    ctx.need(len(pre) == 1, 'preamble read sockRead(buffer, _bg_sz) not found')
    b0 = pre[0].args[0].strip(casts=True)
    ctx.need(b0.k in ('DeclRefExpr', 'MemberExpr') and (b0.type or {}).get('k') == 'array' or q.array_capacity(pre[0].args[0]) is not None,
             'the preamble is not read into an array: ' + pre[0].args[0].text())
    cap = q.array_capacity(pre[0].args[0])
    ctx.need(cap is not None, 'frame buffer has no constant size')
    buf_key = ('d', b0.declid) if b0.k == 'DeclRefExpr' else ('m', b0.decl.get('qp'))

    def is_buf(x):
        s_ = x.strip(casts=True)
        if buf_key[0] == 'd':
            return s_.k == 'DeclRefExpr' and s_.declid == buf_key[1]
        return s_.k == 'MemberExpr' and s_.decl is not None and s_.decl.get('qp') == buf_key[1]
    enumv = {}
    for e in prog.tus[0].enums:
        for n, v in e['e']:
            if n in ('_max_msg_len', '_chksum_sz'):
                enumv[n] = v
    ctx.need(enumv.get('_max_msg_len') == cap, 'frame buffer size (%s) differs from _max_msg_len (%s)' % (cap, enumv.get('_max_msg_len')))
    reads = f.calls_to(R + 'sockRead')
    ctx.need(len(reads) >= 3, 'expected at least 3 sockRead calls in read() (byte-wise preamble, preamble, frame), found %d' % len(reads))
    trues = [(v, n) for (v, kind, n) in cfg.exits() if kind == 'return' and q.return_value(n) == 1]
    ctx.need(len(trues) == 1, 'expected one `return true` in read()')
    tv = trues[0][0]

    # ---------------- R15.1
    for i, c in enumerate(reads):
        dest, n = c.args[0], c.args[1]
        lf = q.linear(dest, sym=lambda x: 'BUF' if is_buf(x) else x.text())
        if 'BUF' not in lf.t:
            d = dest.strip(casts=True)
            one = d.k == 'UnaryOperator' and d.op == '&' and n.strip(casts=True).value == 1
            ctx.check(one, 'R15.1', R + 'read#sockRead@%d.single-byte' % i, c.loc, 'one byte is read into a char variable')
            continue
        # offset terms and length: evaluate upper bounds with guards
        def ub(expr, site):
            s = expr.strip(casts=True)
            if s.value is not None:
                return s.value
            if s.k == 'MemberExpr' and s.decl['n'] == '_bg_sz':
                return 'BG'
            lo, hi = q.interval_from_guards(f, site, expr)
            if hi != q.INF:
                return hi
            # guard of the form  x > MAX - _bg_sz - K  (symbolic): accept MAX - K
            for (a, pol) in q.controlling_atoms(f, site):
                t = a.strip(casts=True)
                if t.k == 'BinaryOperator' and t.op in ('>', '>=') and not pol and q.same_expr(t.children[0], expr):
                    r = q.linear(t.children[1], sym=lambda x: 'BG' if (x.strip(casts=True).k == 'MemberExpr' and x.strip(casts=True).decl['n'] == '_bg_sz') else x.text())
                    if set(r.t) <= {'BG'} and r.t.get('BG', 0) <= 0:
                        return r.c - (1 if t.op == '>=' else 0)
            return None
        off_terms = {k: v for k, v in lf.t.items() if k != 'BUF'}
        off = lf.c
        okb = True
        for k, v in off_terms.items():
            node = [x for x in dest.walk() if x.strip(casts=True).text() == k][:1]
            u = ub(node[0], c) if node else None
            if u is None or u == 'BG' or v != 1:
                okb = False
            else:
                off += u
        un = ub(n, c)
        if un == 'BG':
            ctx.ok('R15.1', R + 'read#sockRead@%d.preamble' % i, c.loc, 'preamble read of _bg_sz bytes at offset 0 (assumption: _bg_sz << %d)' % cap)
            continue
        ctx.check(okb and un is not None and off + un <= cap, 'R15.1', R + 'read#sockRead@%d.extent' % i, c.loc,
                  'sockRead(%s, %s): offset <= %s, length <= %s, buffer %d' % (dest.text(), n.text(), off, un, cap),
                  'sockRead(%s, %s) is not bounded by the %d-byte buffer through constants or dominating guards' % (dest.text(), n.text(), cap))
    # the byte-wise store msg_buf[offs++] = bt
    st = [n for n in f.all_nodes() if n.k == 'BinaryOperator' and n.op == '=' and n.children[0].strip().k == 'ArraySubscriptExpr' and
          is_buf(n.children[0].strip().children[0])]
    ctx.need(len(st) == 1, 'byte store into msg_buf not found')
    loop = [n for n in st[0].ancestors() if n.k in ('DoStmt', 'ForStmt', 'WhileStmt')]
    ctx.need(len(loop) >= 1, 'byte-wise preamble loop not found')
    idx = st[0].children[0].strip().children[1].strip(casts=True)
    ivar = idx.children[0].strip(casts=True) if idx.k == 'UnaryOperator' else idx
    # whatever the loop is written as: every way from the store back to the store passes a decision that leaves only index < cap
    # (`idx < cap` taken true, `idx >= cap` taken false, or the mirrored forms)
    cfg = f.cfg

    def uncertified(v, w, lab):
        if lab is None or not isinstance(lab[1], bool):
            return True
        a, pol = q.polar(cfg.cond_node(lab[0]), lab[1])
        s_ = a.strip(casts=True)
        if s_.k != 'BinaryOperator' or s_.op not in ('<', '>=', '>', '<='):
            return True
        l_, r_, op_ = s_.children[0], s_.children[1], s_.op
        if q.same_expr(r_, ivar):
            l_, r_, op_ = r_, l_, {'<': '>', '>': '<', '<=': '>=', '>=': '<='}[op_]
        if not q.same_expr(l_, ivar):
            return True
        c_ = r_.strip(casts=True).value
        if c_ is None:
            return True
        if (op_ == '<' and pol and c_ <= cap) or (op_ == '>=' and not pol and c_ <= cap) or (op_ == '<=' and pol and c_ <= cap - 1) or (op_ == '>' and not pol and c_ <= cap - 1):
            return False
        return True
    sv = cfg.vertex_of(st[0])
    back = cfg.reach_from(sv, edge_ok=uncertified)
    bounded = sv not in back
    ctx.check(bounded, 'R15.1', R + 'read#preamble-loop.bound', st[0].loc, 'the byte-wise preamble loop repeats the store only after a decision that leaves the index < %d' % cap,
              'the byte-wise store `%s` can be repeated without any test that keeps `%s` below the %d-byte buffer' % (st[0].text(), ivar.text(), cap))
    sr = prog.fn1(R + 'sockRead')
    ctx.saw(sr)
    lw = [n for n in sr.all_nodes() if n.k == 'WhileStmt']
    okl = False
    if len(lw) == 1:
        body = lw[0].child('body')
        rcv = [c for c in body.walk() if c.is_call and c.callee is not None and c.callee.get('n') == 'receiveBytes']
        subs = [n for n in body.walk() if n.k == 'CompoundAssignOperator' and n.op == '-=']
        adds = [n for n in body.walk() if n.k == 'CompoundAssignOperator' and n.op == '+=']
        if len(rcv) == 1 and subs and adds:
            lf2 = q.linear(rcv[0].args[0], sym=lambda x: 'W' if q.refers_to_decl(x, sr.param_ids[0]) else x.text())
            okl = lf2.t.get('W') == 1 and len(lf2.t) == 2 and q.same_expr(rcv[0].args[1], subs[0].children[0]) and \
                any(k == adds[0].children[0].strip(casts=True).text() for k in lf2.t)
        if not okl and len(rcv) == 1 and adds and not subs:
            # second idiom: one counter `done`; receive(where + done, total - done); done += received  (total = the size parameter or a const copy of it)
            def sy(x):
                s_ = x.strip(casts=True)
                if q.refers_to_decl(x, sr.param_ids[0]):
                    return 'W'
                if q.refers_to_decl(x, sr.param_ids[1]):
                    return 'SZ'
                if s_.k == 'DeclRefExpr' and s_.decl.get('sc') == 'local':
                    ds = q.local_defs(sr, s_.declid)
                    if len(ds) == 1 and ds[0][1] == 'init' and ds[0][2] is not None and q.refers_to_decl(ds[0][2], sr.param_ids[1]):
                        return 'SZ'
                return x.text()
            ld, ln = q.linear(rcv[0].args[0], sym=sy), q.linear(rcv[0].args[1], sym=sy)
            done = [k for k in ld.t if k not in ('W',)]
            okl = ld.t.get('W') == 1 and len(done) == 1 and ld.t[done[0]] == 1 and ld.c == 0 and dict(ln.t) == {'SZ': 1, done[0]: -1} and ln.c == 0 and \
                adds[0].children[0].strip(casts=True).text() == done[0]
    ctx.check(okl, 'R15.1', R + 'sockRead#loop', sr.loc, 'sockRead receives at `where + done` at most `remaining` bytes and updates both by what it got')

    # ---------------- R15.2
    ee = prog.fn1('FIX8::MessageBase::extract_element', sig='char *, char *')
    summ = {2: extent.summarise(ee, 2), 3: extent.summarise(ee, 3)}
    ecalls = [c for c in f.calls() if c.callee_q == ee.q and c.callee.get('sig') == ee.sig]
    ctx.need(len(ecalls) == 2, 'expected 2 extract_element calls in read()')
    for i, c in enumerate(ecalls):
        for pidx, s in summ.items():
            ok, need, capd, why = extent.check_site(f, c, s, pidx)
            ctx.check(ok, 'R15.2', R + 'read#extract_element@%d.%s' % (i, c.callee['pn'][pidx]), c.loc,
                      'extraction into `%s` (%s bytes) is bounded: %s' % (c.args[pidx].text(), capd, why),
                      'extraction can write past `%s` (%s bytes): %s' % (c.args[pidx].text(), capd, why))

    # ---------------- R15.3 acceptance dominated by the checks
    atoms = q.controlling(cfg, tv) if False else [q.polar(c, w) for (c, w) in cfg.controlling(tv)]
    def has(pred):
        return any(pred(a.strip(casts=True), pol) for a, pol in atoms)
    def tagis(ch):
        def p(s, pol):
            if s.k == 'BinaryOperator' and s.op in ('!=', '==') and s.children[1].strip(casts=True).value == ord(ch):
                l = s.children[0].strip(casts=True)
                if l.k == 'UnaryOperator' and l.op == '*' and l.children[0].strip(casts=True).k == 'DeclRefExpr' and l.children[0].strip(casts=True).decl['n'] == 'tag':
                    return (s.op == '==') == pol
            return False
        return p
    ctx.check(has(tagis('8')), 'R15.3', R + 'read#accept.tag8', f.loc, 'accepted only when the first tag starts with 8')
    ctx.check(has(tagis('9')), 'R15.3', R + 'read#accept.tag9', f.loc, 'accepted only when the second tag starts with 9')
    ctx.check(has(lambda s, pol: s.is_call and s.callee is not None and s.callee.get('n') == 'compare' and pol is False and
                  any(x.k == 'MemberExpr' and x.decl['n'] == '_beginStr' for x in s.walk())), 'R15.3', R + 'read#accept.beginstring', f.loc,
              'accepted only when BeginString equals the session\'s (compare() == 0)')
    mlend = None
    for c in f.calls():
        if c.callee_qp == 'FIX8::fast_atoi':
            h = c.parent
            while h is not None and h.k != 'DeclStmt':
                h = h.parent
            if h is not None:
                mlend = h.r['decls'][0][0]
                fa = c
    ctx.need(mlend is not None, 'BodyLength conversion not found')
    ctx.check(has(lambda s, pol: s.k == 'BinaryOperator' and s.op == '==' and q.refers_to_decl(s.children[0], mlend) and s.children[1].strip(casts=True).value == 0 and pol is False),
              'R15.3', R + 'read#accept.nonzero', f.loc, 'accepted only when BodyLength != 0')
    ctx.check(has(lambda s, pol: s.k == 'BinaryOperator' and s.op == '>' and q.refers_to_decl(s.children[0], mlend) and pol is False and
                  any(x.strip(casts=True).value == cap for x in s.children[1].walk())), 'R15.3', R + 'read#accept.max', f.loc,
              'accepted only when BodyLength <= max - preamble - checksum')
    # both reads complete: `(result = sockRead(..) != n)` false
    full = [(a, pol) for a, pol in atoms if any(x in reads for x in a.walk() if x.is_call)]
    okfull = 0
    for a, pol in full:
        s = a.strip(casts=True)
        ne = [x for x in s.walk() if x.k == 'BinaryOperator' and x.op == '!=' and any(y in reads for y in x.children[0].walk())]
        if ne and pol is False:
            rd = [y for y in ne[0].children[0].walk() if y in reads][0]
            if not any(is_buf(x) for x in rd.args[0].walk() if x.k in ('DeclRefExpr', 'MemberExpr')) or rd.args[1].strip(casts=True).text().endswith('_bg_sz'):
                continue
            if q.same_expr(ne[0].children[1], rd.args[1]) or ne[0].children[1].strip(casts=True).text().endswith(rd.args[1].strip(casts=True).text()):
                okfull += 1
    frame_reads = [rd for rd in reads if any(is_buf(x) for x in rd.args[0].walk() if x.k in ('DeclRefExpr', 'MemberExpr')) and not rd.args[1].strip(casts=True).text().endswith('_bg_sz')]
    ctx.check(frame_reads and okfull == len(frame_reads), 'R15.3', R + 'read#accept.complete-reads', f.loc,
              'accepted only when every read of the frame (body, checksum) returned the full requested length (%d read(s))' % len(frame_reads))
    app = [c for c in f.calls() if c.callee is not None and c.callee.get('n') == 'append' and q.refers_to_decl(c.obj, f.param_ids[0])]
    okapp = False
    if len(app) == 1 and cfg.dominates(cfg.vertex_of(app[0]), tv):
        lf = q.linear(app[0].args[1], sym=lambda x: 'MLEN' if q.refers_to_decl(x, mlend) else x.text())
        okapp = is_buf(app[0].args[0]) and lf.t == {'MLEN': 1} and lf.c == enumv.get('_chksum_sz')
    ctx.check(okapp, 'R15.3', R + 'read#append.count', f.loc, 'exactly BodyLength + %s bytes of the frame buffer are appended to the preamble' % enumv.get('_chksum_sz'))

    # ---------------- R15.4 digits, and few enough of them
    src = fa.args[0].strip(casts=True)
    digit_ok = False
    span_locals = {}        # local n = strspn(val, digits)
    for n in f.all_nodes():
        if n.k == 'DeclStmt':
            for dd, init in n.r.get('decls', []):
                if init >= 0:
                    for x in f.node(init).walk():
                        if x.is_call and x.callee_qp == 'strspn' and q.same_expr(x.args[0], src) and x.args[1].strip(casts=True).k == 'StringLiteral' and \
                                set(x.args[1].strip(casts=True).r.get('s', '')) == set('0123456789'):
                            span_locals[dd] = x
    def is_span(x):
        s_ = x.strip(casts=True)
        if s_.is_call and s_.callee_qp == 'strspn' and q.same_expr(s_.args[0], src) and s_.args[1].strip(casts=True).k == 'StringLiteral' and \
                set(s_.args[1].strip(casts=True).r.get('s', '')) == set('0123456789'):
            return True
        return s_.k == 'DeclRefExpr' and s_.declid in span_locals
    for a, pol in q.controlling_atoms(f, fa):
        for x in a.walk():
            if x.k == 'ArraySubscriptExpr' and q.same_expr(x.children[0], src) and is_span(x.children[1]) and pol is False and a.strip(casts=True) == x:
                digit_ok = True        # !val[strspn(val, digits)]  : the first non-digit is the terminator
            if x.is_call and x.callee is not None and x.callee.get('n') == 'find_first_not_of':
                lit = x.args[0].strip(casts=True)
                if lit.k == 'StringLiteral' and set(lit.r.get('s', '')) == set('0123456789'):
                    digit_ok = True
    ctx.check(digit_ok, 'R15.4', R + 'read#bodylength.digits', fa.loc, 'the BodyLength text is proven to consist of digits only before it is converted',
              'BodyLength is converted with fast_atoi without checking all of its characters (the first value byte arrives inside the unchecked '
              'fixed-size preamble): "9=A2" is taken as 172')
    # the conversion wraps modulo 2^bits: the number of digits must be bounded so that the value fits
    rt = f.tu.types[fa.callee['ret']]
    bits = rt.get('bits', 32)
    maxdig = len(str((1 << bits) - 1)) - 1
    hi = q.INF
    if fa.callee_qp in ('strtoul', 'strtoull', 'std::stoul'):
        hi = 0
    for a, pol in q.controlling_atoms(f, fa):
        for x in a.walk():
            if (x.k == 'DeclRefExpr' and x.declid in span_locals) or (x.is_call and x.callee_qp in ('strlen', 'strspn') and q.same_expr(x.args[0], src)):
                lo_, hi_ = q.interval_from_guards(f, fa, x, match=(lambda y, _x=x: q.same_expr(y, _x)))
                hi = min(hi, hi_)
    ctx.check(hi <= maxdig, 'R15.4', R + 'read#bodylength.no-wrap', fa.loc,
              'the BodyLength text has at most %s digits when it is converted to a %d-bit value (no wrap-around)' % (hi, bits),
              'BodyLength text of any length is converted with %s, which wraps modulo 2^%d: `9=4294967301` is taken as 5, passes the length check and a frame with a '
              'false BodyLength is handed on' % (fa.callee_q, bits))

    # ---------------- R15.5 reader loop
    ex = prog.fn1(R + 'execute')
    ctx.saw(ex)
    ec = ex.cfg
    rds = [c for c in ex.calls_to(R + 'read')]
    good = 0
    for rd in rds:
        msgd = rd.args[0].strip(casts=True).declid
        br = [b for b in q.branches(ex, lambda a: a == rd)]
        if len(br) != 1:
            continue
        tr = q.atom_edge(ec, br[0], True)
        sinks = [c for c in ex.calls() if (c.callee is not None and c.callee.get('n') == 'try_push' or c.callee_qp == 'FIX8::Session::process') and
                 c.args and q.refers_to_decl(c.args[0], msgd)]
        sv = q.verts(ec, sinks)
        region_exit = {ec.vertex_of(rd)}
        p = ec.path(tr[0], lambda x: x in region_exit, avoid=sv)
        r = q.count_on_paths(ec, tr[0], sv, stop=lambda v: v in region_exit)
        if p is None and r == (1, 1):
            good += 1
    ctx.check(good >= 1 and good == len([r for r in rds if True]) or good >= 1, 'R15.5', R + 'execute#one-handoff', ex.loc,
              'each message read is handed on exactly once (queue or Session::process) before the next read')
    ctx.floor('R15.1', 5)
    ctx.floor('R15.3', 7)
