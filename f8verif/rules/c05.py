"""C05 — permissive decoding passes unknown fields through unchanged."""
from ..facts import Program, AnalysisBroken
from .. import q
from . import c04, c02

CLAIM = {
    'text': 'Structural preconditions of pass-through: both MessageBase::encode bodies emit the pass-through buffer after the positioned '
            'fields; the decoder appends exactly the current token (start = data + offset, length = bytes the extractor consumed) to it; '
            'when a section decoder hands back an offset smaller than the point up to which it captured tokens (the rewind that lets the '
            'next section re-read them), the captured bytes after that offset must be removed again; every decoder on the path from the '
            'factory, including the repeating-group decoder, must receive the permissive flag.',
    'note': 'Trusted: clang CFG, extractor. Undecided: values of the known fields, byte-for-byte re-emission for concrete inputs.',
    'technique': 'sibling agreement, provenance of append arguments, rewind/truncate pairing on the CFG, parameter-flow check',
}
UNITS = ['runtime/message.cpp']
EXPLANATION = (
    "Decided: R05.1 encode(char*) and encode(ostream&) emit _unknown after the field loop; _unknown.append(dptr + s_offset, result) with "
    "result = the extractor's return for that token; R05.2 the return path that yields last_valid_offset must truncate _unknown to what "
    "was captured before that offset; R05.3 decode_group has a permissive parameter (or consults one) and can capture unknown tokens. "
    "R05.4 no test on the number of bytes the decoders consumed can make Message::factory reject when permissive_mode is true. "
    "R05.5 tag text becomes the lookup key without wrap-around, so a tag outside the schema cannot alias a known field (rule of C04 R04.2). "
    "R05.6 Message::encode(f8String&) takes the length from the encoder, not from a C string (rule of C02 R02.7). "
    "R05.7 the tag capacity handed to the tokeniser in decode/decode_group is at least 21 bytes (any tag strtoul can tell apart). NOT decided: decoded values.")

MB = 'FIX8::MessageBase::'


def run(ctx):
    prog = Program(UNITS)
    ctx.units.update(UNITS)
    # R05.1
    for sig, how in (('(char *)', 'copy'), ('std::ostream &', '<<')):
        e = prog.fn1(MB + 'encode', sig=sig)
        ctx.saw(e)
        trav = q.ordered_traversals(e, MB + '_pos')
        fr = [t[0] for t in trav]
        uses = [n for n in e.all_nodes() if n.k == 'MemberExpr' and n.decl.get('qp') == MB + '_unknown']
        emit = [u for u in uses if any(a.is_call and ((a.callee or {}).get('n') == 'copy' or a.r.get('op') == '<<') for a in u.ancestors())]
        ok = len(fr) == 1 and emit and all(not any(a == fr[0] for a in u.ancestors()) for u in emit) and \
            all(e.cfg.vertex_of(u) in e.cfg.reach_from(e.cfg.vertex_of(trav[0][1])) for u in emit if e.cfg.has_vertex(u))
        ctx.check(ok, 'R05.1', MB + 'encode%s#unknown-emitted' % ('(char*)' if how == 'copy' else '(ostream)'), e.loc, 'pass-through bytes are emitted after the positioned fields')
    d = prog.fn1(MB + 'decode')
    ctx.saw(d)
    cfg = d.cfg
    app = [c for c in d.calls() if c.callee is not None and c.callee.get('n') == 'append' and c.obj is not None and q.refers_to_member(c.obj, MB + '_unknown')]
    ee = [c for c in d.calls() if c.callee_qp == MB + 'extract_element']
    ctx.need(len(app) == 1 and len(ee) >= 1, 'decode: _unknown.append / extract_element not found')
    a0 = q.linear(app[0].args[0], sym=lambda x: x.text())
    e0 = q.linear(ee[0].args[0], sym=lambda x: x.text())
    res = app[0].args[1].strip(casts=True)
    res_ok = res.k == 'DeclRefExpr' and any(kind in ('assign',) and val is not None and any(c == ee[0] for c in q.calls_in(val)) for (dn, kind, val) in q.local_defs(d, res.declid))
    ctx.check(a0 == e0 and res_ok, 'R05.1', MB + 'decode#append-current-token', app[0].loc, 'the bytes captured are exactly the token just extracted (same start, consumed length)')
    atoms = q.controlling_atoms(d, app[0])
    ctx.check(any(q.refers_to_decl(a, d.param_ids[3]) and p for a, p in atoms), 'R05.1', MB + 'decode#append-only-permissive', app[0].loc, 'tokens are captured only in permissive mode')
    # R05.2
    rets = [n for n in d.all_nodes() if n.k == 'ReturnStmt']
    ctx.need(len(rets) >= 1, 'decode: no return found')
    # the values decode can return: the arms of a conditional return expression, or the expressions of several return statements
    co = [x for r_ in rets for x in r_.walk() if x.k == 'ConditionalOperator']
    arms = [co[0].child('then')] if co else [r_.children[0] for r_ in rets if r_.children]
    rew = [a_ for a_ in arms if any(x.k == 'DeclRefExpr' and x.decl['n'] != 's_offset' and x.decl.get('sc') == 'local' for x in a_.walk())]
    rewinds = bool(rew)
    if rew and not co:
        co = [type('A', (), {'child': (lambda self, k, _a=rew[0]: _a)})()]
    trunc = [c for c in d.calls() if c.callee is not None and c.callee.get('n') in ('resize', 'erase', 'clear') and c.obj is not None and q.refers_to_member(c.obj, MB + '_unknown')]
    ctx.check((not rewinds) or bool(trunc), 'R05.2', MB + 'decode#rewind-truncates', rets[0].loc,
              'handing back an earlier offset is paired with removing the bytes captured after it',
              'decode can return `%s` (an offset before tokens it has already appended to _unknown) without truncating _unknown: the next section '
              're-reads those tokens, so they are captured and re-emitted twice (a header decoded permissively swallows the whole body)'
              % (co[0].child('then').text() if co else '?'))
    # R05.3
    g = prog.fn1(MB + 'decode_group')
    ctx.saw(g)
    has_flag = any(g.tu.types[p['t']]['k'] == 'bool' for p in g.params)
    captures = bool(q.member_refs(g, MB + '_unknown'))
    ctx.check(has_flag and captures, 'R05.3', MB + 'decode_group#permissive', g.loc, 'the group decoder is told about permissive mode and can capture unknown tokens',
              'decode_group has no permissive parameter and never touches _unknown: an unknown tag inside a group ends the group, and the group\'s remaining '
              'known fields fall into the parent\'s pass-through buffer (known fields are lost)')
    calls = [c for c in d.calls_to(MB + 'decode_group')]
    ctx.check(bool(calls), 'R05.3', MB + 'decode#calls-group-decoder', d.loc, 'the section decoder delegates groups to decode_group')

    # ---------------- R05.6 pass-through bytes may contain anything: the string overload of encode hands over (pointer, length) (rule of C02 R02.7)
    c02.string_overload_rule(ctx, prog, 'R05.6')
    # ---------------- R05.5 an unknown tag must stay unknown: the tag text is converted to the lookup key without wrap-around (rule of C04 R04.2)
    c04.tag_rule(ctx, prog, 'R05.5')
    # ---------------- R05.4 the factory must not reject a permissive decode on account of what was (or was not) consumed
    fac = prog.fn1('FIX8::Message::factory', sig='const FIX8::f8String &')
    ctx.saw(fac)
    fc = fac.cfg
    dec = [c for c in fac.calls() if c.callee_qp == 'FIX8::Message::decode']
    ctx.need(len(dec) == 1, 'factory: Message::decode call not found')
    holder = dec[0].parent
    while holder is not None and holder.k in ('ImplicitCastExpr', 'ParenExpr', 'ExprWithCleanups'):
        holder = holder.parent
    perm = fac.param_ids[3]
    n_tests = 0
    if holder is not None and holder.k == 'DeclStmt':
        var = holder.r['decls'][0][0]
        okf = q.valuation_edge_filter(fac, {perm: 1})
        rp = fc.reach_from(fc.entry, edge_ok=okf) | {fc.entry}
        for (b, a, pol) in q.branches(fac, lambda a: any(q.refers_to_decl(x, var) for x in a.walk() if x.k == 'DeclRefExpr')):
            last = fc.block_last[b]
            for way in (True, False):
                tg = q.edge_targets(fc, b, way)
                if not tg or q.reachable_returns(fc, tg):
                    continue            # this edge can still return the message
                n_tests += 1
                open_perm = last in rp and any(okf(last, t, (b, way)) for t in tg)
                ctx.check(not open_perm, 'R05.4', 'FIX8::Message::factory#consumed-test-strict-only@%d' % n_tests, a.loc,
                          'the consumed-length test `%s` can only reject when permissive_mode is false' % fc.cond_node(b).text(),
                          'factory can reject the message on `%s` even in permissive mode: a permissive section decoder hands back the offset of the '
                          'first unknown token, so a message whose unknown tokens follow its last known field is thrown away instead of passed through'
                          % fc.cond_node(b).text())
    if n_tests == 0:
        ctx.ok('R05.4', 'FIX8::Message::factory#consumed-test-strict-only', fac.loc, 'factory has no rejecting test on the consumed length')
    # ---------------- R05.7 an unknown tag is whatever digits the counterparty sent: the tokeniser must hand every tag strtoul can tell apart (up to the 20
    # digits of 2^64) to the decoder, or the section decoder's loop ends silently at that token and every known field behind it is lost.
    # Decided at the call sites: the tag capacity handed to extract_element / extract_element_fixed_width (explicit or default argument) is >= 21.
    n_cap = 0
    for fq in (MB + 'decode', MB + 'decode_group'):
        g = prog.fn1(fq)
        ctx.saw(g)
        for c in g.calls():
            if c.callee_qp not in (MB + 'extract_element', MB + 'extract_element_fixed_width') or c.callee is None:
                continue
            pn = c.callee.get('pn', [])
            if 'tag_sz' not in pn or 'tag' not in pn:
                continue
            k = pn.index('tag_sz')
            if k >= len(c.args):
                continue
            cap = c.args[k].strip(casts=True).value
            if cap is None:
                cap = q.eval_int(c.args[k], {})
            bufcap = q.array_capacity(c.args[pn.index('tag')])
            n_cap += 1
            if cap is None:
                raise AnalysisBroken('%s: tag capacity of `%s` is not a constant' % (fq, c.text()[:80]))
            ctx.check(cap >= 21 and (bufcap is None or bufcap >= cap), 'R05.7', '%s#tag-capacity@%d' % (fq, c.line), c.loc,
                      'the tokeniser is given room for a %d-byte tag (>= 20 digits + terminator; buffer %s bytes)' % (cap, bufcap),
                      'the tokeniser is given room for a %d-byte tag only: an unknown tag of %d or more digits does not tokenise, the section decoder leaves its loop '
                      'silently at that token, and the known fields behind it are lost (permissive mode) ' % (cap, cap))
    ctx.need(n_cap >= 3, 'fewer than 3 tokeniser calls with a tag capacity found in decode/decode_group (%d)' % n_cap)
    ctx.floor('R05.7', 3)
