"""C17 — sent application messages are stored exactly as transmitted."""
from ..facts import Program, AnalysisBroken
from .. import q
from . import c18, c27

CLAIM = {
    'text': 'Static must/may analysis of Session::send_process: the bytes persisted for a sent application message derive '
            'only from this message\'s encoder output on every CFG path (reaching definitions), and the store is reached for '
            'single and batched sends, only for non-admin non-PossDup messages, keyed by the counter before its increment. '
            'Structural necessary conditions, not the behaviour over histories.',
    'note': 'Trusted: clang CFG, the extractor, Message::encode(char**) defines *ptr (C02). Undecided: equality of stored and wire bytes '
            'for concrete histories; thread interleavings (C25).',
    'technique': 'reaching-definitions provenance + dominance / control-dependence over the clang CFG',
}
UNITS = ['runtime/session.cpp']
EXPLANATION = (
    "Decided (structural, on every CFG path of Session::send_process): R17.1 the bytes handed to the "
    "persister's put(seqnum, bytes) originate only from the output of Message::encode of the same call "
    "(reaching definitions followed through locals and conversions); R17.2 that put is reachable on both "
    "branches of the end-of-batch test, is dominated by the not-PossDup and not-admin decisions, is keyed by "
    "the send counter and precedes the counter's increment. R17.3 the persisters seed the retransmission context with the session's next send number, so a number already used for a stored message is not handed out again after a replay (rule of C18 R18.6); R17.4 the file store records a message's offset as lseek(_fod, 0, SEEK_END) immediately before writing it (rule of C27). NOT decided: that the stored bytes equal the wire "
    "bytes for a concrete send history; concurrency (see C25).")
ASSUMPTIONS = ['Message::encode(char**) sets *hmsg_store to the start of the encoded message on every normal path '
               '(checked structurally under C02)']

SEND = 'FIX8::Session::send_process'
ENCODE = 'FIX8::Message::encode'
PUT = 'FIX8::Persister::put'
SEQ = 'FIX8::Session::_next_send_seq'


def run(ctx):
    prog = Program(UNITS)
    ctx.units.update(UNITS)
    rules(ctx, prog, 'R17.1', 'R17.2')
    # what is stored under a number stays the transmitted message: the number is not reused after a replay (R17.3 = C18 R18.6), and the file store
    # indexes each record where its bytes really went (R17.4 = C27 R27.3 append rule)
    prog2 = Program(UNITS + ['runtime/persist.cpp', 'runtime/filepersist.cpp'])
    ctx.units.update(['runtime/persist.cpp', 'runtime/filepersist.cpp'])
    c18.retrans_seed_rule(ctx, prog2, 'R17.3')
    cand = [f for f in prog2.fns('FIX8::FilePersister::put') if 'basic_string' in f.sig or 'f8String' in f.sig]
    ctx.need(len(cand) == 1, 'FilePersister::put(seq, bytes) not found')
    dw = [c for c in cand[0].calls() if c.callee_qp == 'write' and c27._fd_is(c.args[0], '_fod')]
    ctx.need(len(dw) == 1, 'FilePersister::put: data write not found')
    c27.append_rule(ctx, cand[0], dw[0], 'R17.4')
    ctx.floor('R17.3', 2)
    ctx.floor('R17.4', 1)
    ctx.floor('R17.1', 1)
    ctx.floor('R17.2', 5)


def rules(ctx, prog, R1, R2):
    """provenance and placement of the application-message store in send_process (also C25: 'the stored copy under each number is the
    transmitted message')"""
    fn = prog.fn1(SEND)
    ctx.saw(fn)
    cfg = fn.cfg
    puts = [c for c in fn.calls_to(PUT) if 'basic_string' in q.param_type_str(c, 1)]
    ctx.need(puts, 'no call of Persister::put(unsigned, const f8String&) in send_process')
    enc = [c for c in fn.calls_to(ENCODE) if len(c.args) == 1 and q.param_type_str(c, 0) == 'char **']
    ctx.need(len(enc) == 1, 'expected exactly one Message::encode(char**) call in send_process')
    enc = enc[0]

    for put in puts:
        # ---- R17.1 provenance of the stored bytes
        org = q.origins(fn, put.args[1], definite_out_calls=(ENCODE,))
        ctx.need(org, 'no origin found for the stored bytes')
        bad = [(k, n) for (k, n) in org if not (k == 'out' and n == enc)]
        if not bad:
            ctx.ok(R1, '%s#put.bytes' % SEND, put.loc,
                   'stored bytes derive only from the output of %s' % enc.text())
        seen = set()
        for (k, n) in bad:
            disc = n.text() if n is not None else k
            if disc in seen:
                continue
            seen.add(disc)
            ctx.fail(R1, '%s#put.bytes<-%s' % (SEND, disc), put.loc,
                     'bytes stored by %s may come from `%s` (%s), not from the encoder output of this message'
                     % (put.text(), disc, n.loc if n is not None else ''),
                     ['definition at %s' % (n.loc if n is not None else '?')])

        # ---- R17.2 guards and reachability
        atoms = q.controlling_atoms(fn, put)
        def is_dup_atom(a):
            a = a.strip()
            if a.k != 'DeclRefExpr' or not a.decl or a.decl.get('sc') != 'local':
                return False
            for (dn, kind, val) in q.local_defs(fn, a.declid):
                if kind == 'init' and val is not None and any(c.callee_qp == 'FIX8::MessageBase::have' and
                        c.args and c.args[0].strip(casts=True).value == 43 for c in q.calls_in(val)):
                    return True
            return False
        ctx.check(any(is_dup_atom(a) and pol is False for (a, pol) in atoms), R2, '%s#put.guard.notdup' % SEND, put.loc,
                  'put is dominated by the not-PossDup decision')
        ctx.check(any(pol is False and any(c.callee_qp == 'FIX8::MessageBase::is_admin' or c.callee_qp == 'FIX8::Message::is_admin'
                                           for c in q.calls_in(a)) for (a, pol) in atoms),
                  R2, '%s#put.guard.notadmin' % SEND, put.loc, 'put is dominated by !msg->is_admin()')
        # both sides of the end-of-batch decision reach the put
        eob = [b for b, blk in cfg.blocks.items() if blk.get('cond') is not None and len(blk['succ']) == 2 and
               any(c.callee_qp == 'FIX8::Message::get_end_of_batch' for c in q.calls_in(cfg.cond_node(b)))]
        ctx.need(eob, 'end-of-batch decision not found in send_process')
        pv = cfg.vertex_of(put)
        for b in eob:
            last = cfg.block_last[b]
            for way in (True, False):
                tgt = [w for (w, lab) in cfg.succ[last] if lab == (b, way)]
                reach = any(pv in cfg.reach_from(w) or w == pv for w in tgt)
                ctx.check(reach, R2, '%s#put.batch.%s' % (SEND, way), put.loc,
                          'put reachable when get_end_of_batch() is %s' % way)
        # key and ordering w.r.t. the increment
        ctx.check(q.refers_to_member(put.args[0].strip(casts=True), SEQ) or
                  any(q.refers_to_member(x, SEQ) for x in put.args[0].walk()) and put.args[0].strip(casts=True).k != 'BinaryOperator',
                  R2, '%s#put.key' % SEND, put.loc, 'put is keyed by _next_send_seq (unmodified)')
        writes = [w for (w, m) in q.member_writes(fn, SEQ)]
        ctx.need(writes, 'no increment of _next_send_seq in send_process')
        for w in writes:
            wv = cfg.vertex_of(w)
            ctx.check(pv not in cfg.reach_from(wv), R2, '%s#put.before.incr' % SEND, w.loc,
                      'no path from the counter update back to the put (stored under the number in the header)')
