"""C24 — session activation follows the configured schedule."""
from ..facts import Program, AnalysisBroken
from .. import q

CLAIM = {
    'text': 'The decision function of Schedule::test touches weekdays and times only through comparisons; its branch atoms are classified '
            'exactly (unclassifiable → analysis broken) and the extracted function active\' = f(previous, atoms) is evaluated over the '
            'complete finite quotient: all 49 (start day, end day) pairs × 7 weekdays × 3 time classes (before start, inside, after end) '
            '× previous state, iterating the weekly cycle of 21 abstract instants to its steady state and comparing with "inside the '
            'configured window"; the daily branch likewise; the weekday decoding tables are checked for agreement and unambiguous '
            'two-letter prefixes; end_day defaults to start_day.',
    'note': 'Exhaustive over the order-class quotient of the extracted formula (not an execution of fix8 code). Assumes start time < end '
            'time (enforced by create_schedule) and checks at least once per time class. Undecided: utc-offset arithmetic, decode_dow\'s '
            'control flow over arbitrary strings.',
    'technique': 'decision-function extraction + exhaustive enumeration over the finite order-class quotient; copy completeness of Schedule; critical-point evaluation of Tickval::adjust',
}
UNITS = ['runtime/session.cpp', 'runtime/f8utils.cpp', 'runtime/configuration.cpp']
EXPLANATION = (
    "Decided: R24.1 steady-state activity of the extracted Schedule::test decision function equals window membership for every (start "
    "day, end day) pair, grouped into the cases start<end, start=end, start>end, and for the daily form; R24.2 the case split on start "
    "day vs end day covers '='; R24.3 decode_dow tables: days[i] = (first letter of day_names[i], i), two-letter prefixes pairwise "
    "distinct, 7 entries; create_schedule: missing end_day defaults to start_day. R24.4 the day base and every test use the time after the offset adjustment; R24.5 decode_dow returns the weekday of the candidate whose second letter matched; R24.6 Schedule's user-written copy operations carry every data member and _toffset = minutes x Tickval::minute; R24.7 Tickval::adjust(by) moves the value by exactly by for either sign. NOT decided: wall-clock behaviour, "
    "string control flow of decode_dow.")
extra_cov = {}


def extra_coverage(ctx):
    return extra_cov


SCH = 'FIX8::Schedule::'


def run(ctx):
    prog = Program(UNITS)
    ctx.units.update(UNITS)
    f = prog.fn1(SCH + 'test')
    ctx.saw(f)
    prev = f.param_ids[0]
    active = None
    for n in f.all_nodes():
        if n.k == 'DeclStmt':
            for d, init in n.r['decls']:
                if init >= 0 and q.refers_to_decl(f.node(init), prev) and f.tu.types[f.tu.decls[d]['t']]['k'] == 'bool':
                    active = d
    ctx.need(active is not None, 'Schedule::test: local initialised from `prev` not found')

    def reads(n, member, depth=0):
        """n reads Schedule member `member`, directly or through a local initialised from an expression that does"""
        if q.reads_member(n, member):
            return True
        if depth < 3:
            for x in n.walk():
                if x.k == 'DeclRefExpr' and x.decl and x.decl.get('sc') == 'local':
                    for (dn, kind, v_) in q.local_defs(x.fn, x.declid):
                        if kind == 'init' and v_ is not None and reads(v_, member, depth + 1):
                            return True
        return False

    def mk_oracle(sd, ed, wd, tclass, daily):
        def val(n, bind=None, depth=0):
            s = n.strip(casts=True)
            if s.k == 'MemberExpr' and s.decl.get('qp') == SCH + '_start_day':
                return -1 if daily else sd
            if s.k == 'MemberExpr' and s.decl.get('qp') == SCH + '_end_day':
                return -1 if daily else ed
            if s.k == 'MemberExpr' and s.decl.get('n') == 'tm_wday':
                return wd
            if s.k == 'DeclRefExpr' and bind and s.declid in bind:
                return bind[s.declid]
            if s.k == 'DeclRefExpr' and s.decl and s.decl.get('sc') == 'local' and depth < 3:
                ds = [(k, v_) for (_, k, v_) in q.local_defs(s.fn, s.declid)]
                if len(ds) == 1 and ds[0][0] == 'init' and ds[0][1] is not None:
                    return val(ds[0][1], bind, depth + 1)         # a const local naming a sub-expression
            return s.value

        def bev(n, bind):
            """truth of a boolean expression over day comparisons (helper predicates extracted from the weekly tests)"""
            s = n.strip(casts=True)
            if s.k == 'BinaryOperator' and s.op in ('&&', '||'):
                a, b = bev(s.children[0], bind), bev(s.children[1], bind)
                if s.op == '&&':
                    return False if (a is False or b is False) else (True if (a and b) else None)
                return True if (a is True or b is True) else (False if (a is False and b is False) else None)
            if s.k == 'UnaryOperator' and s.op == '!':
                a = bev(s.children[0], bind)
                return None if a is None else (not a)
            if s.k == 'BinaryOperator' and s.op in ('<', '>', '<=', '>=', '==', '!='):
                a, b = val(s.children[0], bind), val(s.children[1], bind)
                if a is None or b is None:
                    return None
                return {'<': a < b, '>': a > b, '<=': a <= b, '>=': a >= b, '==': a == b, '!=': a != b}[s.op]
            return None

        def oracle(atom):
            s = atom.strip(casts=True)
            if s.k == 'BinaryOperator' and s.op in ('<', '>', '<=', '>=', '==', '!='):
                a, b = val(s.children[0]), val(s.children[1])
                if a is None or b is None:
                    return None
                return {'<': a < b, '>': a > b, '<=': a <= b, '>=': a >= b, '==': a == b, '!=': a != b}[s.op]
            if s.is_call and s.callee_qp == 'FIX8::Tickval::in_range':
                # in_range(today + _start, today + _end)
                ok = reads(s.args[0], SCH + '_start') and reads(s.args[1], SCH + '_end')
                return (tclass == 'inside') if ok else None
            if s.is_call and (s.callee_qp or '').startswith(SCH) and s.callee_qp not in (SCH + 'test',):
                # a predicate of Schedule extracted from the tests: evaluate its single return with the arguments bound
                for h in prog.fns(s.callee_qp):
                    rr = [x for x in h.all_nodes() if x.k == 'ReturnStmt' and x.children]
                    if len(rr) == 1 and len(h.param_ids) == len(s.args):
                        bind = {pid: val(a) for pid, a in zip(h.param_ids, s.args)}
                        return bev(rr[0].children[0], bind)
                return None
            if s.is_call and s.r.get('op') in ('>', '>=', '<', '<='):
                ops = ([s.obj] if s.obj is not None else []) + s.args
                if reads(ops[1], SCH + '_end') and not reads(ops[1], SCH + '_start') and not reads(ops[0], SCH + '_end'):
                    if s.r['op'] == '>':
                        return tclass == 'after'
                    if s.r['op'] == '>=':
                        return None      # boundary instant not represented in the quotient
                if reads(ops[1], SCH + '_start') and not reads(ops[0], SCH + '_start'):
                    if s.r['op'] == '<':
                        return tclass == 'before'
                    if s.r['op'] == '>=':
                        return tclass != 'before'
            return None
        return oracle

    def step(sd, ed, wd, tclass, p, daily=False):
        kind, val, env = q.follow(f, mk_oracle(sd, ed, wd, tclass, daily), track={active, prev}, env={prev: int(p)})
        if kind != 'return' or val is None:
            raise AnalysisBroken('Schedule::test: could not evaluate the returned value')
        return bool(val)

    TC = ('before', 'inside', 'after')
    # daily
    bad = []
    for tc in TC:
        for p in (False, True):
            got = step(0, 0, 3, tc, p, daily=True)
            if got != (tc == 'inside'):
                bad.append('time %s, previously %s -> %s' % (tc, p, got))
    ctx.check(not bad, 'R24.1', SCH + 'test#daily', f.loc, 'daily schedule: active exactly when the time of day is inside [start, end] (6 cases)',
              'daily schedule wrong: ' + '; '.join(bad))

    def in_window(sd, ed, wd, tc):
        if sd == ed:
            return wd == sd and tc == 'inside'
        span = (ed - sd) % 7
        off = (wd - sd) % 7
        if off > span:
            return False
        if off == 0:
            return tc != 'before'
        if off == span:
            return tc != 'after'
        return True

    groups = {'start<end': [], 'start=end': [], 'start>end': []}
    evals = 0
    for sd in range(7):
        for ed in range(7):
            g = 'start<end' if sd < ed else 'start=end' if sd == ed else 'start>end'
            state = False
            mism = None
            for cycle in range(3):
                for wd in range(7):
                    for tc in TC:
                        state = step(sd, ed, wd, tc, state)
                        evals += 1
                        if cycle == 2 and mism is None and state != in_window(sd, ed, wd, tc):
                            mism = (wd, tc, state)
            if mism is not None:
                groups[g].append((sd, ed) + mism)
    extra_cov.update({'exhaustive': True, 'abstract_evaluations': evals,
                      'quotient': '49 (start day, end day) pairs x 21 abstract instants x 3 cycles + 6 daily cases'})
    names = ['su', 'mo', 'tu', 'we', 'th', 'fr', 'sa']
    for g, ms in groups.items():
        msg = None
        if ms:
            sd, ed, wd, tc, st = ms[0]
            msg = ('weekly schedule %s→%s: in steady state it is %s on %s (%s the daily time window), expected %s; %d of %d day pairs of this '
                   'kind disagree' % (names[sd], names[ed], 'active' if st else 'inactive', names[wd], tc, 'inactive' if st else 'active',
                                      len(ms), {'start<end': 21, 'start=end': 7, 'start>end': 21}[g]))
        ctx.check(not ms, 'R24.1', SCH + 'test#weekly.' + g, f.loc, 'weekly schedule with %s: steady-state activity = window membership' % g, msg)

    # R24.2 coverage of '=' in the case split
    rel = set()
    for (b, a, pol) in q.branches(f, lambda a: a.strip(casts=True).k == 'BinaryOperator' and q.reads_member(a, SCH + '_start_day') and q.reads_member(a, SCH + '_end_day')):
        s = a.strip(casts=True)
        l_sd = q.reads_member(s.children[0], SCH + '_start_day')
        op = s.op if l_sd else {'<': '>', '>': '<', '<=': '>=', '>=': '<=', '==': '==', '!=': '!='}[s.op]
        rel.add(op)
    covers_eq = bool(rel & {'<=', '>=', '==', '!='})
    ctx.check(covers_eq, 'R24.2', SCH + 'test#case-split.eq', f.loc, 'the case split on start day vs end day handles start = end',
              'start day and end day are only compared with %s: a schedule that starts and ends on the same weekday matches no case' % sorted(rel))

    # R24.3 tables
    dn = prog.vars('FIX8::(anon)::day_names')
    dy = prog.vars('FIX8::(anon)::days')
    ctx.need(len(dn) == 1 and len(dy) == 1, 'day_names / days tables not found')
    names_lit = [x.r.get('s') for x in dn[0].init.walk() if x.k == 'StringLiteral']
    pairs = []
    for x in dy[0].init.walk():
        if x.k in ('CXXConstructExpr', 'InitListExpr') and len(x.children) == 2 and x.children[0].strip(casts=True).k == 'CharacterLiteral':
            pairs.append((chr(x.children[0].strip(casts=True).value), x.children[1].strip(casts=True).value))
    ctx.check(len(names_lit) == 7 and len(pairs) == 7, 'R24.3', 'decode_dow#tables.size', dn[0].file.split('/')[-1] + ':%d' % dn[0].line, 'seven day names and seven (letter, index) pairs')
    ctx.check(all(p == (names_lit[i][0], i) for i, p in enumerate(pairs)) if len(pairs) == 7 and len(names_lit) == 7 else False, 'R24.3',
              'decode_dow#tables.agree', dn[0].file.split('/')[-1] + ':%d' % dy[0].line, 'days[i] = (first letter of day_names[i], i)')
    ctx.check(len({n[:2] for n in names_lit}) == len(names_lit) and all(len(n) == 2 for n in names_lit), 'R24.3', 'decode_dow#tables.prefix-unique',
              dn[0].file.split('/')[-1] + ':%d' % dn[0].line, 'two-letter prefixes are pairwise distinct')
    ctx.check(names_lit == ['su', 'mo', 'tu', 'we', 'th', 'fr', 'sa'], 'R24.3', 'decode_dow#tables.tm_wday-order', dn[0].file.split('/')[-1] + ':%d' % dn[0].line,
              'index order is tm_wday order (Sunday = 0)')
    cs = prog.fn1('FIX8::Configuration::create_schedule')
    ctx.saw(cs)
    ed_decl = [n for n in cs.all_nodes() if n.k == 'DeclStmt' and any(cs.tu.decls[d]['n'] == 'end_day' for d, _ in n.r['decls'])]
    ok = False
    if ed_decl:
        init = cs.node(ed_decl[0].r['decls'][0][1]).strip(casts=True)
        if init.k == 'ConditionalOperator':
            els = init.child('else').strip(casts=True)
            ok = els.k == 'ConditionalOperator' and els.child('else').strip(casts=True).k == 'DeclRefExpr' and els.child('else').strip(casts=True).decl['n'] == 'start_day'
    ctx.check(ok, 'R24.3', 'FIX8::Configuration::create_schedule#end-day-default', cs.loc, 'a missing end_day defaults to start_day (same-day weekly window)')
    # ---------------- R24.4 the day base is taken from the LOCAL time: now.adjust(offset) precedes every other read of `now`
    cfg = f.cfg
    adj = [c for c in f.calls() if c.callee_qp == 'FIX8::Tickval::adjust' and c.obj is not None and c.obj.strip(casts=True).k == 'DeclRefExpr']
    ctx.need(len(adj) == 1, 'Schedule::test: now.adjust(...) not found')
    nowd = adj[0].obj.strip(casts=True).declid
    ctx.check(any(x.k == 'MemberExpr' and x.decl.get('qp') == SCH + '_toffset' for a in adj[0].args for x in a.walk()), 'R24.4', SCH + 'test#offset-applied', adj[0].loc,
              'the configured utc offset is applied to the current time')
    av = cfg.vertex_of(adj[0])
    early = []
    for n in f.all_nodes():
        if n.k == 'DeclRefExpr' and n.declid == nowd and cfg.has_vertex(n) and n not in list(adj[0].walk()):
            par = n.parent
            is_decl = False
            v = cfg.vertex_of(n)
            if not cfg.dominates(av, v):
                early.append(n)
    ctx.check(not early, 'R24.4', SCH + 'test#local-time-basis', (early[0].loc if early else adj[0].loc),
              'every value derived from `now` (the day base `today`, the weekday, the range tests) is taken after the offset adjustment',
              '`now` is read at %s before the utc offset is applied (`%s`): the day base is the UTC date while the time of day is local, so around local midnight '
              'the window is tested against the wrong day' % (early[0].loc if early else '', early[0].parent.text() if early and early[0].parent is not None else ''))

    # ---------------- R24.5 decode_dow: the weekday returned belongs to the candidate whose second letter matched
    dd = prog.fn1('FIX8::decode_dow')
    ctx.saw(dd)
    dcfg = dd.cfg
    incs = [n for n in dd.all_nodes() if n.k in ('UnaryOperator', 'CXXOperatorCallExpr') and (n.op if n.k == 'UnaryOperator' else n.r.get('op')) == '++' and dcfg.has_vertex(n)]
    derefs = [n for n in dd.all_nodes() if n.k in ('ArraySubscriptExpr', 'CXXOperatorCallExpr') and dcfg.has_vertex(n) and
              any(x.k == 'DeclRefExpr' and x.decl.get('n') == 'day_names' for x in n.walk()) and
              (n.k == 'ArraySubscriptExpr' and any(x.k == 'DeclRefExpr' and x.decl.get('n') == 'day_names' for x in n.children[0].walk()))]
    ctx.need(len(derefs) >= 2 and len(incs) >= 1, 'decode_dow: two candidate look-ups in day_names and an iterator increment expected (%d, %d)' % (len(derefs), len(incs)))
    rets = [n for n in dd.all_nodes() if n.k == 'ReturnStmt']
    fin = rets[-1]
    reads = [x for x in fin.walk() if x.k == 'MemberExpr' and x.decl.get('n') == 'second' and dcfg.has_vertex(x) and
             not any(a in derefs for a in x.ancestors())]
    ctx.need(reads, 'decode_dow: the weekday read `->second` of the final return not found')
    incv = {dcfg.vertex_of(n) for n in incs}
    bad = None
    for dnode in derefs:
        # the comparison this look-up feeds: directly, or through a local initialised from it
        holder = None
        for a in dnode.ancestors():
            if a.k == 'DeclStmt':
                holder = a.r['decls'][0][0]
                break
        def feeds(atom, _d=dnode, _h=holder):
            return _d in list(atom.walk()) or (_h is not None and any(x.k == 'DeclRefExpr' and x.declid == _h for x in atom.walk()))
        for (b, a, pol) in q.branches(dd, feeds):
            tg = q.atom_edge(dcfg, (b, a, pol), True)
            dv = dcfg.vertex_of(dnode)
            for r in reads:
                rv = dcfg.vertex_of(r)
                # an increment strictly after the look-up and before the read, on a path through the match edge
                for iv in incv:
                    own = any(dcfg.vertex_of(x) == iv for x in dnode.walk() if dcfg.has_vertex(x))
                    if own:
                        continue          # the increment that selects THIS candidate is part of the look-up itself
                    before_branch = iv in dcfg.reach_from(dv) and dcfg.block_last[b] in (dcfg.reach_from(iv) | {iv})
                    after_branch = any(iv in (dcfg.reach_from(t) | {t}) for t in tg) and rv in dcfg.reach_from(iv)
                    reaches = any(rv in (dcfg.reach_from(t) | {t}) for t in tg)
                    if reaches and (before_branch or after_branch):
                        bad = (dnode, a)
    ctx.check(bad is None, 'R24.5', 'FIX8::decode_dow#matched-candidate', fin.loc,
              'when a candidate\'s second letter matches, the iterator still points at that candidate when its weekday is returned',
              'the candidate looked up by `%s` can match (`%s`) after the iterator has been advanced past it: the weekday returned is the NEXT candidate\'s '
              '("su" decodes to Saturday, "tu" to Thursday)' % (bad[0].text() if bad else '', bad[1].text() if bad else ''))
    # ---------------- R24.6 the offset travels with the schedule: every user-written copy constructor / copy assignment of Schedule carries each data member
    # (the login schedule reaches the session by assignment; a member left behind keeps the target's old value, e.g. offset 0)
    recs = [r for t in prog.tus for r in t.records if r.get('q') == 'FIX8::Schedule']
    ctx.need(recs, 'struct FIX8::Schedule not found')
    fields = [x['n'] for x in recs[0]['fields']]
    ctx.need('_toffset' in fields and len(fields) >= 7, 'Schedule: expected the seven data members incl. _toffset, found %s' % fields)
    n_copy = 0
    seen_c = set()
    for g in prog.all_functions():
        if g.rec != 'FIX8::Schedule' or len(g.param_ids) != 1 or g.loc in seen_c:
            continue
        pt = g.tu.types[g.params[0]['t']]
        if pt.get('k') != 'ref' or g.tu.types[pt['pointee']].get('rec') != 'FIX8::Schedule':
            continue
        is_ctor = g.kind == 'ctor'
        is_asg = (g.q or '').startswith('FIX8::Schedule::operator=')
        if not (is_ctor or is_asg) or g.raw.get('defaulted') or 'cfg' not in g.raw:
            continue
        seen_c.add(g.loc)
        ctx.saw(g)
        n_copy += 1
        src = g.param_ids[0]
        covered = set()
        for (m, e, it) in g.inits:
            if m is not None and any(x.k == 'MemberExpr' and x.decl['n'] == m['n'] and any(q.refers_to_decl(y, src) for y in x.walk() if y.k == 'DeclRefExpr') for x in e.walk()):
                covered.add(m['n'])
        for fl in fields:
            for (w, mm) in q.member_writes(g, 'FIX8::Schedule::' + fl):
                rhs = w.children[1] if w.k == 'BinaryOperator' else (w.args[-1] if w.args else None)
                if rhs is not None and any(x.k == 'MemberExpr' and x.decl['n'] == fl and any(q.refers_to_decl(y, src) for y in x.walk() if y.k == 'DeclRefExpr') for x in rhs.walk()):
                    covered.add(fl)
        missing = [x for x in fields if x not in covered]
        ctx.check(not missing, 'R24.6', 'FIX8::Schedule::%s#carries-every-member' % ('copy-ctor' if is_ctor else 'operator='), g.loc,
                  'the %s takes each of %s from its argument' % ('copy constructor' if is_ctor else 'copy assignment', fields),
                  'the %s of Schedule does not carry %s: a schedule that reaches its user this way (the <login> schedule is assigned) keeps the target\'s old value — '
                  'with _toffset left at 0 every window of a non-UTC configuration is tested against UTC' % ('copy constructor' if is_ctor else 'copy assignment', missing))
    if n_copy == 0:
        ctx.ok('R24.6', 'FIX8::Schedule#carries-every-member', 'include/fix8/session.hpp:%d' % recs[0].get('l', 0), 'Schedule has no user-written copy operations (the implicit ones copy every member)')
    # the derived offset is the configured minutes times one minute of ticks, wherever a constructor takes the minutes
    for g in prog.all_functions():
        if g.rec == 'FIX8::Schedule' and g.kind == 'ctor' and len(g.param_ids) >= 4 and g.loc not in seen_c:
            seen_c.add(g.loc)
            es = [e for (m, e, it) in g.inits if m is not None and m['n'] == '_toffset']
            ctx.need(len(es) == 1, 'Schedule(start, end, ...): _toffset initialiser not found')
            muls = [x for x in es[0].walk() if x.k == 'BinaryOperator' and x.op == '*']
            okm = len(muls) == 1 and any(x.k == 'MemberExpr' and x.decl['n'] == '_utc_offset' or (x.k == 'DeclRefExpr' and x.decl.get('n') == 'utc_offset') for x in muls[0].walk()) and \
                any(x.k == 'DeclRefExpr' and x.decl.get('n') == 'minute' for x in muls[0].walk())
            ctx.check(okm, 'R24.6', 'FIX8::Schedule::Schedule#offset-derived', g.loc, '_toffset = utc offset in minutes x Tickval::minute')
    # ---------------- R24.7 Tickval::adjust(by) moves the value by exactly `by`, for either sign (Schedule::test hands it the offset; west of Greenwich it is negative)
    adjf = prog.fn1('FIX8::Tickval::adjust')
    ctx.saw(adjf)
    rets_a = [n for n in adjf.all_nodes() if n.k == 'ReturnStmt' and n.children]
    ctx.need(len(rets_a) == 1, 'Tickval::adjust: single return expected')
    byp = adjf.param_ids[0]

    def delta(n, v):
        s_ = n.strip(casts=True)
        if s_.k == 'ConditionalOperator':
            c_ = q.eval_int(s_.child('cond'), {byp: v})
            if c_ is None:
                return None
            return delta(s_.child('then') if c_ else s_.child('else'), v)
        if (s_.k == 'CXXOperatorCallExpr' and s_.r.get('op') in ('+=', '-=')) or (s_.k == 'CompoundAssignOperator' and s_.op in ('+=', '-=')):
            a_ = s_.args if s_.k == 'CXXOperatorCallExpr' else s_.children
            if len(a_) != 2 or not any(x.k == 'CXXThisExpr' for x in a_[0].walk()):
                return None
            r_ = q.eval_int(a_[1], {byp: v})
            if r_ is None:
                return None
            return r_ if (s_.r.get('op') or s_.op) == '+=' else -r_
        return None
    consts = {x.value for x in rets_a[0].walk() if x.value is not None and x.k != 'DeclRefExpr'}
    pts = {-36000000000000, -1, 0, 1, 36000000000000} | {c + d for c in consts if isinstance(c, int) for d in (-1, 0, 1)}
    bad = None
    for v in sorted(pts):
        dv = delta(rets_a[0].children[0], v)
        if dv is None:
            raise AnalysisBroken('Tickval::adjust: `%s` is not a +=/-= of the argument on *this (by = %d)' % (rets_a[0].children[0].text(), v))
        if dv != v:
            bad = (v, dv)
            break
    ctx.check(bad is None, 'R24.7', 'FIX8::Tickval::adjust#moves-by-argument', adjf.loc, 'adjust(by) changes the value by exactly by, at every critical point of `%s`' % rets_a[0].children[0].text(),
              ('adjust(%d) moves the value by %d (`%s`): a negative utc offset is applied with the wrong sign, windows open and close 2 x |offset| off' % (bad[0], bad[1], rets_a[0].children[0].text())) if bad else None)
    ctx.floor('R24.6', 2)
    ctx.floor('R24.7', 1)
    ctx.floor('R24.1', 4)
