"""C32 — XML configuration parser preserves element trees."""
from ..facts import Program, AnalysisBroken
from .. import q

CLAIM = {
    'text': 'Single-pass decoding rule on XmlElement::InplaceXlate: a search-and-replace loop that restarts its search at offset 0 must not '
            'be able to match again inside text it has just produced, and text produced by an earlier loop must not be matchable by a '
            'later loop. Decided from the code: which loops restart at 0 (offset argument of SearchString), the replacement alphabet of '
            'each loop (values of the static entity table / arbitrary byte for numeric references) and the first literal character of each '
            'pattern (constructor arguments of the static RegExp objects).',
    'note': 'Only the reference-decoding clause of the property is decided. Undecided: the tree-building state machine, attribute '
            'parsing, path lookup, memory safety on arbitrary bytes.',
    'technique': 'table agreement: replacement alphabet vs. pattern first-characters, plus loop restart offset (AST of static initialisers and call arguments); offset-parameter agreement; container comparator type facts',
}
UNITS = ['runtime/xml.cpp']
EXPLANATION = (
    "Decided: R32.1 for each decoding loop in InplaceXlate: (a) does the search resume after the replaced text (offset argument derived from "
    "the match) or restart at 0; (b) can its replacement alphabet contain the first character of its own pattern or of a pattern applied "
    "later. A loop that restarts at 0 with such an alphabet decodes its own output again (`&amp;lt;` → `&lt;` → `<`). R32.2 both path lookups descend with the remaining path and select children by the next component; R32.3 a loop that resumes at an offset advances it by what it inserted; R32.4 a loop that searches from an offset hands the same offset to every consumer of the match (Replace/Erase have no offset parameter); R32.5 the attribute map and the child index are keyed by the exact name (default std::string ordering; a case-folding comparator is a violation). NOT decided: anything "
    "else about trees or arbitrary input.")

X = 'XmlElement::'


def run(ctx):
    prog = Program(UNITS)
    ctx.units.update(UNITS)
    f = prog.fn1(X + 'InplaceXlate')
    ctx.saw(f)
    # patterns of the static RegExp objects
    pats = {}
    for name in ('rCX_', 'rCE_', 'rEn_', 'rEv_'):
        vs = prog.vars(X + name)
        ctx.need(len(vs) == 1, 'static RegExp %s not found' % name)
        lits = [x for x in vs[0].init.walk() if x.k == 'StringLiteral']
        ctx.need(len(lits) == 1, 'pattern literal of %s not found' % name)
        pats[name] = lits[0].r.get('s') or bytes.fromhex(lits[0].r['hex']).decode('latin1')
    # entity table values
    tab = prog.vars(X + 'stringtochar_')
    ctx.need(len(tab) == 1, 'stringtochar_ not found')
    values = set()
    n_ent = 0
    for x in tab[0].init.walk():
        if x.k in ('InitListExpr', 'CXXConstructExpr') and len(x.children) == 2:
            a, b = x.children[0].strip(casts=True), x.children[1].strip(casts=True)
            if any(y.k == 'StringLiteral' for y in a.walk()) and b.value is not None:
                values.add(b.value)
                n_ent += 1
    ctx.need(n_ent >= 30, 'entity table has %d entries, expected >= 30' % n_ent)
    loops = [n for n in f.all_nodes() if n.k in ('WhileStmt', 'ForStmt')]
    decoders = []
    for l in loops:
        if l.child('cond') is None:
            continue
        ss = [c for c in q.calls_in(l.child('cond')) if c.callee_qp == 'FIX8::RegExp::SearchString']
        if len(ss) != 1:
            continue
        obj = ss[0].obj.strip(casts=True)
        name = obj.decl['n'] if obj.k in ('MemberExpr', 'DeclRefExpr') else None
        reps = [c for c in l.child('body').walk() if c.is_call and c.callee_qp == 'FIX8::RegExp::Replace']
        decoders.append((l, ss[0], name, reps))
    ctx.need(len(decoders) == 2 and [d[2] for d in decoders] == ['rCX_', 'rCE_'], 'expected the two decoding loops (named, then numeric references)')

    def first_char(p):
        return p[1] if p[0] == '\\' else p[0]
    alph = {}
    for (l, ss, name, reps) in decoders:
        off = ss.args[3] if len(ss.args) > 3 else None
        restarts = off is None or off.k == 'CXXDefaultArgExpr' or off.strip(casts=True).value == 0
        if name == 'rCX_':
            a = set(values) | {ord('?')}
        else:
            a = set(range(256))
        alph[name] = a
        later = [d[2] for d in decoders[decoders.index((l, ss, name, reps)):]]
        rematch = [p for p in later if ord(first_char(pats[p])) in a]
        ctx.check(not (restarts and name in rematch), 'R32.1', X + 'InplaceXlate#%s.self' % name, l.loc,
                  'the %s loop cannot decode its own output' % name,
                  'the %s loop restarts its search at offset 0 after every replacement and its replacement text can contain %r, the first '
                  'character of its own pattern %r: references are decoded twice (e.g. %s)'
                  % (name, first_char(pats[name]), pats[name], '&amp;lt; → &lt; → <' if name == 'rCX_' else '&#38;#65; → &#65; → A'))
        others = [p for p in rematch if p != name]
        ctx.check(not others, 'R32.1', X + 'InplaceXlate#%s.later' % name, l.loc,
                  'text produced by the %s loop cannot be matched by a later decoding loop' % name,
                  'text produced by the %s loop can start a match of the later pattern(s) %s (e.g. &amp;#65; → &#65; → A)' % (name, others))
    # ---------------- R32.4 SearchString(…, offset) searches source.c_str() + offset: the positions it leaves in the match are relative to that offset.
    # Every consumer of the match inside such a loop must be handed the same offset; a consumer without an offset parameter (Replace, Erase) reads them as absolute.
    for (l, ss, name, reps) in decoders:
        off = ss.args[3] if len(ss.args) > 3 else None
        if off is None or off.k == 'CXXDefaultArgExpr' or off.strip(casts=True).value == 0:
            ctx.ok('R32.4', X + 'InplaceXlate#%s.match-offset' % name, l.loc, 'the %s loop searches from offset 0: match positions are absolute' % name)
            continue
        bad = None
        for c in l.child('body').walk():
            if not c.is_call or not (c.callee_qp or '').startswith('FIX8::RegExp::') or not c.args or not q.same_expr(c.args[0], ss.args[0]):
                continue
            pn = c.callee.get('pn', [])
            if 'offset' in pn:
                oa = c.args[pn.index('offset')]
                if not q.same_expr(oa, off):
                    bad = (c, 'is given offset `%s` but the search started at `%s`' % (oa.text(), off.text()))
            elif c.callee.get('n') in ('Replace', 'Erase'):
                bad = (c, 'has no offset parameter and applies the match positions to the whole string, but the search started at `%s` and the positions are relative '
                          'to it: from the second reference on the replacement lands %s characters too early (`a&lt;b&gt;c` decodes to `a>t;c`)' % (off.text(), off.text()))
        ctx.check(bad is None, 'R32.4', X + 'InplaceXlate#%s.match-offset' % name, (bad[0].loc if bad else l.loc),
                  'every consumer of the %s match is handed the offset the search started at' % name,
                  ('%s %s' % (bad[0].callee_qp, bad[1])) if bad else None)
    # ---------------- R32.3 a loop that resumes its search at an offset must advance the offset by what it INSERTED, not by what it removed
    n_off = 0
    for (l, ss, name, reps) in decoders:
        off = ss.args[3] if len(ss.args) > 3 else None
        if off is None or off.k == 'CXXDefaultArgExpr' or off.strip(casts=True).value == 0:
            continue
        offl = [x.declid for x in off.walk() if x.k == 'DeclRefExpr' and x.decl and x.decl.get('sc') == 'local']
        if not offl:
            continue
        n_off += 1
        body = l.child('body')
        repl = [c for c in body.walk() if c.is_call and c.callee is not None and c.callee.get('n') == 'replace' and len(c.args) >= 3]
        adv = [n for n in body.walk() if n.k == 'CompoundAssignOperator' and n.op == '+=' and q.refers_to_decl(n.children[0], offl[0])]
        bad = None
        for r in repl:
            for a in adv:
                if f.cfg.has_vertex(a) and f.cfg.has_vertex(r) and f.cfg.vertex_of(a) in f.cfg.reach_from(f.cfg.vertex_of(r)) and \
                        q.same_expr(a.children[1], r.args[1]):
                    bad = (a, r)
        ctx.check(bad is None, 'R32.3', X + 'InplaceXlate#%s.resume-offset' % name, (bad[0].loc if bad else l.loc),
                  'the %s loop resumes after the text it inserted' % name,
                  'after replacing %s characters by the decoded character the resume offset is advanced by the REMOVED length (`%s`): the characters that follow the '
                  'reference are skipped, so a second reference close behind the first (`&lt;&gt;`) is left undecoded'
                  % ('the matched', bad[0].text() if bad else ''))
    if n_off == 0:
        ctx.ok('R32.3', X + 'InplaceXlate#resume-offset', f.loc, 'no decoding loop resumes at an offset (both rescan from the start)')

    # ---------------- R32.5 the attribute map and the child index are keyed by the exact name: the container types use the default ordering of std::string
    # (two names are one key only when they are equal).  A comparator whose body folds case makes `a` and `A` one attribute: ParseAttrs reports a duplicate.
    tu0 = f.tu
    n_k = 0
    for mem, cont in ((X[:-2] + '::attrs_', 'std::map'), (X[:-2] + '::children_', 'std::multimap')):
        ds = [d for d in tu0.decls if d.get('qp') == mem and d.get('k') == 'Field']
        ctx.need(len(ds) >= 1, mem + ' not found')
        t = tu0.types[ds[0]['t']]
        pt = tu0.types[t['pointee']] if t['k'] == 'ptr' else t
        ctx.need(pt.get('recp') == cont, '%s is no longer a %s (%s)' % (mem, cont, pt.get('c')))
        canon = pt['c']
        # canonical spelling lists only non-default template arguments: key, mapped [, comparator [, allocator]]
        depth, args, cur = 0, [], ''
        for ch in canon[canon.index('<') + 1:canon.rindex('>')]:
            if ch == '<':
                depth += 1
            elif ch == '>':
                depth -= 1
            if ch == ',' and depth == 0:
                args.append(cur.strip())
                cur = ''
            else:
                cur += ch
        args.append(cur.strip())
        n_k += 1
        if len(args) == 2 or (len(args) >= 3 and args[2].startswith('std::less<')):
            ctx.ok('R32.5', mem + '#exact-keys', 'include/fix8/xml.hpp:%d' % ds[0].get('l', 0), '%s is a %s ordered by std::less<std::string>: names are one key only when equal' % (mem.split('::')[-1], cont))
            continue
        comp = args[2]
        folds = False
        bodies = [g for g in prog.all_functions() if (g.rec or '').split('<')[0] == comp.split('<')[0] and g.q and 'operator()' in g.q]
        FOLD = ('strcasecmp', 'strncasecmp', '_stricmp', 'stricmp', 'tolower', 'toupper', 'icompare')
        work, seen_f = list(bodies), set()
        for _ in range(4):          # the comparator body and what it calls, three levels down
            nxt = []
            for g in work:
                if g.q in seen_f:
                    continue
                seen_f.add(g.q)
                for c in g.all_nodes():
                    cal = c.callee if c.is_call else (c.decl if c.k == 'DeclRefExpr' and c.decl is not None and c.decl.get('k') in ('Function', 'CXXMethod') else None)
                    if cal is None:
                        continue
                    if cal.get('n') in FOLD:
                        folds = True
                    elif cal.get('qp'):
                        nxt += prog.fns(cal['qp'])
            work = nxt
        if not bodies or not folds:
            raise AnalysisBroken('%s is ordered by %s, whose body is not decided (does it identify different names?)' % (mem, comp))
        ctx.fail('R32.5', mem + '#exact-keys', 'include/fix8/xml.hpp:%d' % ds[0].get('l', 0),
                 '%s is keyed through %s, which compares names ignoring case: an element with attributes `a` and `A` (names that differ only in case) is rejected as '
                 'having a duplicate attribute, and a lookup answers to any spelling' % (mem.split('::')[-1], comp))
    # ---------------- R32.2 path lookups: both find overloads descend with the REMAINING path and select children by the NEXT component
    finds = [g for g in prog.fns(X + 'find') if len(g.param_ids) >= 4]
    ctx.need(len(finds) == 2, 'expected the two path-lookup overloads of XmlElement::find, found %d' % len(finds))
    shapes = []
    for g in finds:
        ctx.saw(g)
        what = g.param_ids[0]
        rec = [c for c in g.calls() if c.callee_qp == X + 'find' and c.obj is not None and not any(x.k == 'MemberExpr' and x.decl.get('n') == 'root_' for x in c.obj.walk())]
        ctx.need(len(rec) == 1, g.q + ': recursive descent call not found')
        er = [c for c in g.calls() if c.callee is not None and c.callee.get('n') == 'equal_range']
        ctx.need(len(er) == 1, g.q + ': child selection (equal_range) not found')
        def role(n):
            s_ = n.strip(casts=True)
            if s_.k != 'DeclRefExpr' or s_.decl.get('sc') != 'local':
                return '?'
            defs = q.local_defs(g, s_.declid)
            inits = [v for (dn, k, v) in defs if k == 'init' and v is not None]
            erased = any(c.callee is not None and c.callee.get('n') == 'erase' and c.obj is not None and q.refers_to_decl(c.obj, s_.declid) for c in g.calls())
            if inits and any(x.k == 'DeclRefExpr' and x.declid == what for x in inits[0].walk()) and erased:
                return 'remaining-path'
            if inits and any(x.k == 'ConditionalOperator' for x in inits[0].walk()) and any(c.callee is not None and c.callee.get('n') == 'substr' for c in q.calls_in(inits[0])):
                return 'next-component'
            return '?'
        shapes.append((g, rec[0], role(rec[0].args[0]), er[0], role(er[0].args[0])))
    for (g, rc_, r1, e_, r2) in shapes:
        ctx.check(r1 == 'remaining-path' and r2 == 'next-component', 'R32.2', g.q.split('(')[0] + '/%d#descent' % len(g.param_ids), rc_.loc,
                  'children are selected by the next path component and searched with the whole remaining path',
                  'the recursive lookup is given the %s (`%s`) and children are selected by the %s (`%s`): with three or more path components the rest of the path is '
                  'dropped, so the first child of the right name is returned whatever lies below it' % (r1, rc_.args[0].text(), r2, e_.args[0].text()))
    ctx.floor('R32.2', 2)
    ctx.floor('R32.1', 3)
    ctx.floor('R32.4', 2)
    ctx.floor('R32.5', 2)
