"""C22 — heartbeat and test-request supervision follows the protocol."""
import itertools
from ..facts import Program, AnalysisBroken
from .. import q

CLAIM = {
    'text': 'Decision table of Session::heartbeat_service extracted from the CFG: every branch atom is classified (shutdown, connected, '
            'idle-send >= H, idle-receive > H+20%, state tests, logging); the reachability of each action (Heartbeat, TestRequest, '
            'Logout, stop, state changes) is enumerated over all consistent atom valuations and compared with the protocol table; '
            'operators and operands of the two timing atoms are checked exactly; H+20% is H + H/5 at every site that computes it; '
            'TestRequest is answered with a Heartbeat carrying the inbound TestReqID; an inbound Heartbeat leaves test_request_sent; '
            'timestamps are refreshed after a successful send / read.',
    'note': 'Trusted: clang CFG, extractor; an unclassifiable branch atom is exit 2, not a guess. Undecided: timelines and timer '
            'scheduling (C31).',
    'technique': 'decision-table extraction + exhaustive enumeration over atom valuations; provenance; must-pass-through',
}
UNITS = ['runtime/session.cpp', 'runtime/connection.cpp']
EXPLANATION = (
    "Decided: R22.1 action reachability in heartbeat_service for all 12 consistent valuations of (idle-send>=H, idle-recv>H20, "
    "state==test_request_sent, state!=terminated) under not-shutdown ∧ connected equals the protocol table, and nothing is sent "
    "when shut down or disconnected; the timing atoms are exactly `(now-_last_sent).secs() >= hb_interval` and "
    "`(now-_last_received).secs() > hb_interval20pc`; R22.2 every store to _hb_interval20pc is h + h/5 of the value stored to "
    "_hb_interval; R22.3 handle_test_request sends generate_heartbeat(TestReqID read from the inbound message), handle_heartbeat "
    "moves test_request_sent -> continuous; R22.4 send_process refreshes _last_sent on every path after a successful "
    "Connection::send and FIXReader::read refreshes _last_received before `return true`. R22.5 the timer callbacks stop the session only with stop(false), and stop(false) cannot reach _timer.clear() (the timer thread holds that lock). NOT decided: behaviour over timelines.")

S = 'FIX8::Session::'


def run(ctx):
    prog = Program(UNITS)
    ctx.units.update(UNITS)
    f = prog.fn1(S + 'heartbeat_service')
    ctx.saw(f)
    cfg = f.cfg
    st = dict(prog.enum('FIX8::States::SessionStates')['e'])

    def ts_reads(n, depth=0):
        """which of the two activity timestamps an expression reads, directly or through locals initialised from them"""
        out = set()
        for x in n.walk():
            if x.k == 'MemberExpr' and x.decl and x.decl.get('qp') in (S + '_last_sent', S + '_last_received'):
                out.add(x.decl['qp'].split('::')[-1])
            if x.k == 'DeclRefExpr' and x.decl and x.decl.get('sc') == 'local' and depth < 3:
                for (dn, kind, val) in q.local_defs(f, x.declid):
                    if val is not None:
                        out |= ts_reads(val, depth + 1)
        return out

    def classify(a):
        s = a.strip(casts=True)
        interval_rhs = s.k == 'BinaryOperator' and len(s.children) == 2 and any(x.is_call and x.callee_qp in ('FIX8::Connection::get_hb_interval', 'FIX8::Connection::get_hb_interval20pc')
                                                                                 for x in s.children[1].walk())
        if interval_rhs and ts_reads(s.children[0]):
            return 'time'
        if ts_reads(s) and not interval_rhs and not (s.k == 'BinaryOperator' and any(x.is_call and x.callee_qp == 'FIX8::Tickval::secs' for x in s.walk())) \
                and not (s.is_call and s.callee_qp == 'FIX8::Tickval::secs'):
            return 'tsel'      # a choice between the two timestamps (e.g. max(_last_sent, _last_received)): unconstrained, judged at the timing test
        if s.is_call and s.callee_qp == S + 'is_shutdown':
            return 'shutdown'
        if s.k == 'MemberExpr' and s.decl and s.decl.get('qp') == S + '_connection':
            return 'conn'
        if s.is_call and s.callee_qp == 'FIX8::Connection::is_connected':
            return 'connected'
        if s.is_call and s.callee_qp == S + 'is_loggable':
            return 'log'
        if q.reads_member(s, 'FIX8::LoginParameters::_silent_disconnect'):
            return 'silent'
        if s.k == 'BinaryOperator' and s.op in ('<', '>', '<=', '>=', '==', '!='):
            l, r = s.children
            if r.strip(casts=True).value == 0 and l.strip(casts=True).is_call and l.strip(casts=True).callee_qp == 'FIX8::Tickval::secs' and \
                    not any(x.is_call and x.r.get('op') == '-' for x in l.walk()):
                return 'log'       # `_last_received.secs() != 0`: "was anything ever received" - only chooses the log text
            if q.reads_member(s, S + '_last_sent') or q.reads_member(s, S + '_last_received'):
                return 'time'
            if q.member_value_of(l, S + '_state') and r.strip(casts=True).value is not None:
                v = r.strip(casts=True).value
                if v == st['st_test_request_sent'] and s.op in ('==', '!='):
                    return ('A3', s.op == '==')
                if v == st['st_session_terminated'] and s.op in ('==', '!='):
                    return ('A4', s.op == '!=')
        if s.is_call and s.callee_qp == 'FIX8::Tickval::secs':
            return 'log'       # `if (_last_received.secs())` only chooses the log text
        return None

    brs = q.branches(f, lambda a: True)
    cls = {}
    for (b, a, pol) in brs:
        c = classify(a)
        if c is None and a.strip(casts=True).value is not None:
            c = 'const'
        if c is None:
            raise AnalysisBroken('unclassified branch atom in heartbeat_service: %s at %s' % (a.text(), a.loc))
        cls[b] = (c, a, pol)
    times = [(b, a, pol) for b, (c, a, pol) in cls.items() if c == 'time']
    ctx.check(len(times) == 2, 'R22.1', S + 'heartbeat_service#time-atoms', f.loc, 'exactly two timing decisions')
    A = {}
    NEG = {}
    mixed = False
    for (b, a, pol) in times:
        s = a.strip(casts=True)
        l, r = s.children
        tsr = ts_reads(l)
        lhs_sent, lhs_recv = '_last_sent' in tsr, '_last_received' in tsr
        def shaped(e, depth=0):
            if any(x.is_call and x.callee_qp == 'FIX8::Tickval::secs' for x in e.walk()) and any(x.is_call and x.r.get('op') == '-' for x in e.walk()):
                return True
            if depth < 2:
                for x in e.walk():
                    if x.is_call and x.callee_qp:
                        for h in prog.fns(x.callee_qp):
                            rr = [n for n in h.all_nodes() if n.k == 'ReturnStmt' and n.children]
                            if h.tu is f.tu and len(rr) == 1 and shaped(rr[0].children[0], depth + 1):
                                return True          # a helper computing (later - earlier).secs()
            return False
        shape = shaped(l)
        hb = any(x.is_call and x.callee_qp == 'FIX8::Connection::get_hb_interval' for x in r.walk())
        hb20 = any(x.is_call and x.callee_qp == 'FIX8::Connection::get_hb_interval20pc' for x in r.walk())
        if lhs_sent and not lhs_recv:
            A['A1'] = (b, pol)
            NEG['A1'] = s.op == '<'            # `!(idle < H)` is the same test written negatively
            ctx.check(s.op in ('>=', '<') and hb and not hb20 and shape, 'R22.1', S + 'heartbeat_service#A1.exact', a.loc,
                      'idle-send test is (now - _last_sent).secs() >= heartbeat interval',
                      'idle-send test is `%s` — expected (now - _last_sent).secs() >= get_hb_interval()' % a.text())
        elif lhs_recv and not lhs_sent:
            A['A2'] = (b, pol)
            NEG['A2'] = s.op == '<='
            ctx.check(s.op in ('>', '<=') and hb20 and not hb and shape, 'R22.1', S + 'heartbeat_service#A2.exact', a.loc,
                      'idle-receive test is (now - _last_received).secs() > heartbeat interval + 20%',
                      'idle-receive test is `%s` — expected (now - _last_received).secs() > get_hb_interval20pc()' % a.text())
        else:
            hbx = any(x.is_call and x.callee_qp == 'FIX8::Connection::get_hb_interval' for x in r.walk())
            ctx.fail('R22.1', S + 'heartbeat_service#time-atom.operands', a.loc,
                     'the timing test `%s` measures idleness from %s: %s' % (a.text(), ' and '.join(sorted(tsr)) or 'neither timestamp',
                     'a Heartbeat is due when nothing was SENT for the interval, whatever was received - a peer that keeps sending suppresses our heartbeats' if hbx
                     else 'the TestRequest/Logout supervision must look at what was RECEIVED only'))
            mixed = True
    if mixed and not ('A1' in A and 'A2' in A):
        ctx.note('decision table of heartbeat_service not evaluated: a timing atom does not have the expected operands (reported above)')
        return _rest(ctx, prog, f, S, st)
    ctx.need('A1' in A and 'A2' in A, 'timing atoms A1/A2 not both identified')

    actions = {
        'heartbeat': [c for c in f.calls_to(S + 'send') if any(x.callee_qp == S + 'generate_heartbeat' for x in q.calls_in(c))],
        'testrequest': [c for c in f.calls_to(S + 'send') if any(x.callee_qp == S + 'generate_test_request' for x in q.calls_in(c))],
        'logout': [c for c in f.calls_to(S + 'send') if any(x.callee_qp == S + 'generate_logout' for x in q.calls_in(c))],
        'stop': f.calls_to(S + 'stop'),
        'to_test_request_sent': [c for c in f.calls_to(S + 'do_state_change') if c.args[0].strip(casts=True).value == st['st_test_request_sent']],
        'to_terminated': [c for c in f.calls_to(S + 'do_state_change') if c.args[0].strip(casts=True).value == st['st_session_terminated']],
    }
    for k, v in actions.items():
        ctx.need(len(v) >= 1, 'action %s not found in heartbeat_service' % k)
    spec = {
        'heartbeat': lambda a1, a2, a3, a4: a1,
        'testrequest': lambda a1, a2, a3, a4: a2 and not a3 and a4,
        'to_test_request_sent': lambda a1, a2, a3, a4: a2 and not a3 and a4,
        'logout': lambda a1, a2, a3, a4: a2 and a3,
        'stop': lambda a1, a2, a3, a4: a2 and a3,
        'to_terminated': lambda a1, a2, a3, a4: a2 and a3,
    }

    def efilter(env):
        def eo(v, w, lab):
            if lab is None or not isinstance(lab[1], bool):
                return True
            b = lab[0]
            if b not in cls:
                return True
            c, a, pol = cls[b]
            truth = pol if lab[1] else (not pol)       # truth of the atom on this edge
            if c == 'shutdown':
                return truth == env['shutdown']
            if c in ('conn', 'connected'):
                return truth == env['connected']
            if c == 'time':
                key = 'A1' if A['A1'][0] == b else 'A2'
                return (truth != NEG.get(key, False)) == env[key]
            if isinstance(c, tuple):
                key, positive = c
                return (truth if positive else (not truth)) == env[key]
            return True
        return eo

    rows = 0
    for a1, a2, a3, a4 in itertools.product((False, True), repeat=4):
        if a3 and not a4:
            continue
        env = {'shutdown': False, 'connected': True, 'A1': a1, 'A2': a2, 'A3': a3, 'A4': a4}
        reach = cfg.reach_from(cfg.entry, edge_ok=efilter(env))
        rows += 1
        for act, sites in actions.items():
            got = any(cfg.vertex_of(s) in reach for s in sites)
            want = bool(spec[act](a1, a2, a3, a4))
            ctx.check(got == want, 'R22.1', S + 'heartbeat_service#%s@%d%d%d%d' % (act, a1, a2, a3, a4), sites[0].loc,
                      '%s %s when idle-send>=H:%s idle-recv>H20:%s test_request_sent:%s not-terminated:%s'
                      % (act, 'performed' if want else 'not performed', a1, a2, a3, a4),
                      '%s is %s but the protocol table says %s when idle-send>=H:%s idle-recv>H20:%s state==test_request_sent:%s state!=terminated:%s'
                      % (act, 'reachable' if got else 'unreachable', 'required' if want else 'forbidden', a1, a2, a3, a4))
    for env0 in ({'shutdown': True, 'connected': True}, {'shutdown': False, 'connected': False}):
        env = dict(env0, A1=True, A2=True, A3=False, A4=True)
        reach = cfg.reach_from(cfg.entry, edge_ok=efilter(env))
        anyact = [act for act, sites in actions.items() if any(cfg.vertex_of(s) in reach for s in sites)]
        ctx.check(not anyact, 'R22.1', S + 'heartbeat_service#idle@%s' % ('shutdown' if env0['shutdown'] else 'disconnected'), f.loc,
                  'nothing is sent when %s' % ('shut down' if env0['shutdown'] else 'not connected'))
    # heartbeat timer keeps running: return value
    rets = [n for (v, kind, n) in cfg.exits() if kind == 'return']
    sd = [b for b, (c, a, pol) in cls.items() if c == 'shutdown']
    ctx.need(len(sd) == 1, 'is_shutdown() decision not found')
    rs = q.reachable_returns(cfg, q.atom_edge(cfg, (sd[0], cls[sd[0]][1], cls[sd[0]][2]), True))
    ctx.check(rs and all(q.return_value(r) == 0 for r in rs), 'R22.1', S + 'heartbeat_service#shutdown.stops-timer', f.loc,
              'returns false (timer not re-armed) once shut down')

    return _rest(ctx, prog, f, S, st)


def _rest(ctx, prog, f, S, st):
    cfg = f.cfg
    # ---------------- R22.2
    n22 = 0
    for fn in prog.all_functions():
        stores = []
        for (m, e, it) in fn.inits:
            if m is not None and m.get('qp') == 'FIX8::Connection::_hb_interval20pc':
                stores.append((e, [e2 for (m2, e2, _) in fn.inits if m2 is not None and m2.get('qp') == 'FIX8::Connection::_hb_interval']))
        for (w, m) in q.member_writes(fn, 'FIX8::Connection::_hb_interval20pc'):
            base = [w2.children[1] for (w2, _) in q.member_writes(fn, 'FIX8::Connection::_hb_interval') if len(w2.children) == 2]
            stores.append((w.children[1], base))
        for (e, base) in stores:
            n22 += 1
            ctx.saw(fn)
            s = e.strip(casts=True)
            ok = False
            if s.k == 'BinaryOperator' and s.op == '+':
                a, b = s.children[0].strip(casts=True), s.children[1].strip(casts=True)
                if b.k == 'BinaryOperator' and b.op == '/' and b.children[1].strip(casts=True).value == 5:
                    x = b.children[0].strip(casts=True)
                    if a.k == 'DeclRefExpr' and x.k == 'DeclRefExpr' and a.declid == x.declid:
                        ok = bool(base) and all(bb.strip(casts=True).k == 'DeclRefExpr' and bb.strip(casts=True).declid == a.declid for bb in base)
            ctx.check(ok, 'R22.2', fn.qp + '#hb20', e.loc, 'H20 = H + H/5 of the interval stored alongside',
                      '_hb_interval20pc is computed as `%s`' % e.text())
    ctx.need(n22 >= 2, 'expected >= 2 stores to _hb_interval20pc, found %d' % n22)

    # ---------------- R22.3
    tr = prog.fn1(S + 'handle_test_request')
    ctx.saw(tr)
    snd = [c for c in tr.calls_to(S + 'send') if any(x.callee_qp == S + 'generate_heartbeat' for x in q.calls_in(c))]
    ctx.need(len(snd) == 1, 'send(generate_heartbeat(..)) not found in handle_test_request')
    gh = [x for x in q.calls_in(snd[0]) if x.callee_qp == S + 'generate_heartbeat'][0]
    ok = False
    for x in gh.args[0].walk():
        if x.k == 'DeclRefExpr' and x.decl and q.field_num(tr.tu.types[x.decl['t']]['c']) == 112:
            outs = [dn for (dn, kind, val) in q.reaching_defs(tr, x.declid, x) if kind == 'out' and dn.callee_qp == 'FIX8::MessageBase::get'
                    and dn.obj is not None and q.refers_to_decl(dn.obj, tr.param_ids[1])]
            ok = bool(outs)
    ctx.check(ok, 'R22.3', S + 'handle_test_request#echo', gh.loc, 'Heartbeat answer carries the TestReqID(112) read from the inbound TestRequest')
    p = q.escape_path(tr.cfg, [tr.cfg.entry], q.verts(tr.cfg, snd))
    ctx.check(p is None, 'R22.3', S + 'handle_test_request#always', tr.loc, 'the Heartbeat answer is sent on every path')
    gen = prog.fn1(S + 'generate_heartbeat')
    ctx.saw(gen)
    news = [n for n in gen.all_nodes() if n.k == 'CXXNewExpr' and q.field_num(gen.tu.types[n.r['alloc']]['c']) == 112]
    ctx.check(len(news) == 1 and q.refers_to_decl(news[0].child('init').strip().args[0], gen.param_ids[0]), 'R22.3',
              S + 'generate_heartbeat#testreqid', gen.loc, 'generate_heartbeat adds TestReqID(112) = its argument')
    if news:
        atoms = q.controlling_atoms(gen, news[0])
        ctx.check(all((a.is_call and a.callee_qp == 'std::basic_string::empty' and pol is False) for a, pol in atoms) and len(atoms) == 1,
                  'R22.3', S + 'generate_heartbeat#nonempty', news[0].loc, 'TestReqID added exactly when non-empty')
    hh = prog.fn1(S + 'handle_heartbeat')
    ctx.saw(hh)
    cont = [c for c in hh.calls_to(S + 'do_state_change') if c.args[0].strip(casts=True).value == st['st_continuous']]
    ok = False
    for c in cont:
        atoms = q.controlling_atoms(hh, c)
        for a, pol in atoms:
            s = a.strip(casts=True)
            if s.k == 'BinaryOperator' and ((s.op == '==' and pol) or (s.op == '!=' and pol is False)) and q.member_value_of(s.children[0], S + '_state') and \
                    s.children[1].strip(casts=True).value == st['st_test_request_sent']:
                ok = True
    ctx.check(ok, 'R22.3', S + 'handle_heartbeat#resume', hh.loc, 'inbound Heartbeat in state test_request_sent returns to continuous')
    # ... whatever the Heartbeat carries: the transition may depend on the session state only
    for c in cont:
        extra = [a for a, pol in q.controlling_atoms(hh, c) if any(x.k == 'DeclRefExpr' and x.declid == hh.param_ids[1] for x in a.walk())]
        ctx.check(not extra, 'R22.3', S + 'handle_heartbeat#resume.unconditional', c.loc,
                  'the return to continuous does not depend on the content of the Heartbeat',
                  'the return to continuous additionally requires `%s`: a plain Heartbeat arriving while a TestRequest is pending leaves the session in '
                  'test_request_sent, and the next supervision tick logs out instead of probing again' % (extra[0].text() if extra else ''))

    # ---------------- R22.4
    sp = prog.fn1(S + 'send_process')
    ctx.saw(sp)
    scfg = sp.cfg
    snds = q.branches(sp, lambda a: a.is_call and a.callee_qp == 'FIX8::Connection::send')
    ctx.need(len(snds) == 1, 'Connection::send decision not found in send_process')
    nows = q.verts(scfg, [c for c in sp.calls() if c.callee_qp == 'FIX8::Tickval::now' and c.obj is not None and q.refers_to_member(c.obj, S + '_last_sent')])
    p = q.escape_path(scfg, q.atom_edge(scfg, snds[0], True), nows)
    ctx.check(p is None and bool(nows), 'R22.4', S + 'send_process#last_sent', snds[0][1].loc, '_last_sent.now() follows every successful Connection::send')
    rd = prog.fn1('FIX8::FIXReader::read')
    ctx.saw(rd)
    rcfg = rd.cfg
    upd = q.verts(rcfg, rd.calls_to(S + 'update_received'))
    ur = prog.fn1(S + 'update_received')
    ctx.check(any(c.callee_qp == 'FIX8::Tickval::now' and c.obj is not None and q.refers_to_member(c.obj, S + '_last_received') for c in ur.calls()),
              'R22.4', S + 'update_received#now', ur.loc, 'update_received() is _last_received.now()')
    truerets = [v for (v, kind, n) in rcfg.exits() if kind == 'return' and q.return_value(n) == 1]
    ctx.need(truerets, 'no `return true` in FIXReader::read')
    ok = bool(upd) and all(any(rcfg.dominates(u, v) for u in upd) for v in truerets)
    ctx.check(ok, 'R22.4', 'FIX8::FIXReader::read#last_received', rd.loc, 'every `return true` of FIXReader::read is dominated by update_received()')
    # ---------------- R22.5 the supervision runs on the timer thread, inside Timer::operator() and under the timer's (non-recursive) spin lock:
    # the session can only end itself from there if that path never takes the same lock again.  Timer::clear() takes it, so
    #   (a) every stop the supervision issues is stop(false), and
    #   (b) under clearTimer == false no path of Session::stop reaches _timer.clear().
    stopf = prog.fn1(S + 'stop')
    ctx.saw(stopf)
    scfg = stopf.cfg
    clears = [c for c in stopf.calls() if c.callee is not None and c.callee.get('n') == 'clear' and c.obj is not None and q.refers_to_member(c.obj, S + '_timer')]
    ctx.need(len(clears) >= 1, 'Session::stop: _timer.clear() not found')
    ctp = stopf.param_ids[0]

    def no_clear_timer(v, w, lab):
        if lab is None or not isinstance(lab[1], bool):
            return True
        cn = scfg.cond_node(lab[0])
        if cn is None:
            return True
        a, pol = q.polar(cn, lab[1])
        if q.refers_to_decl(a, ctp) and a.strip(casts=True).k == 'DeclRefExpr':
            return pol is False
        return True
    reach_nc = scfg.reach_from(scfg.entry, edge_ok=no_clear_timer)
    hit = [c for c in clears if scfg.vertex_of(c) in reach_nc]
    ctx.check(not hit, 'R22.5', S + 'stop#no-clear-when-asked-not-to', (hit[0].loc if hit else stopf.loc),
              'with clearTimer == false no path of stop() reaches _timer.clear()',
              'stop(false) can still reach _timer.clear(): heartbeat_service calls stop(false) from inside Timer::operator(), which holds the timer spin lock that clear() '
              'takes — the timer thread deadlocks on its own lock, the Logout goes out but the session never terminates')
    n_sup = 0
    for svc in ('heartbeat_service', 'activation_service'):
        for g in prog.fns(S + svc):
            ctx.saw(g)
            for c in g.calls_to(S + 'stop'):
                n_sup += 1
                a0 = c.args[0] if c.args else None
                okf = a0 is not None and a0.k != 'CXXDefaultArgExpr' and a0.strip(casts=True).value == 0
                ctx.check(okf, 'R22.5', S + svc + '#stop-without-clearing@%d' % c.line, c.loc, 'the timer callback stops the session with stop(false)',
                          'the timer callback calls `%s`: stop() with clearTimer true clears the timer, whose lock the calling timer thread already holds (self-deadlock)' % c.text())
    ctx.need(n_sup >= 1, 'no stop() call found in the timer callbacks')
    ctx.floor('R22.5', 2)
    ctx.floor('R22.1', 70)
