#!/usr/bin/env python3
"""development helper: prints the brief handed to an independent sub-agent that is asked to break one property.
The brief contains the property text and a scratch worktree path only - nothing about the checks in /verif."""
import json
import sys

pid, wt = sys.argv[1], sys.argv[2]
round2 = len(sys.argv) > 3 and sys.argv[3] == '2'
p = [json.loads(l) for l in open('/verif/properties.jsonl') if l.strip()]
p = [x for x in p if x['id'] == pid][0]
mech = '\n'.join('  - %s (%s)' % (m['name'], m['where']) for m in p['anchors'].get('mechanism', []))
ROUND2 = ''
if round2:
    ROUND2 = """ROUND 2: an earlier round has already produced the most direct changes inside the functions named above (flipped comparison operators,
dropped guards and swapped statements in the anchored functions themselves). Aim elsewhere this time, for example: (i) a helper, constant,
table, default argument, macro, typedef or integer width that the anchored code depends on; (ii) the OTHER implementation of the same interface
(the memory vs. file variant, the ostream vs. char* overload, the group path vs. the top-level path, the batch path vs. the single path, the
acceptor vs. initiator branch); (iii) two cooperating sites that each still look right on their own; (iv) an initialisation, configuration,
reset or teardown path; (v) state that survives from one call to the next. A change whose faulty behaviour is carried by DATA FLOW (a value
computed in one place and trusted in another) is more interesting than one more changed condition.
"""
print(f"""You are helping to evaluate a verification effort for the open-source C++ FIX protocol engine fix8. Your job is to play
the role of a developer who introduces a subtle regression. You work ONLY inside the scratch git worktree {wt}
(a checkout of the fix8 repository, already configured and fully built in-tree with autotools; its 31 unit tests pass).
Do not read or touch /repo or /verif or any other worktree under /tmp/wt - they are off limits and irrelevant to you.

THE PROPERTY you must break (this is all you are given about it):

  id: {p['id']}
  title: {p['title']}
  statement: {p['statement']}
  quantified over: {p['quantifier']['text']}
  why the existing tests cannot settle it: {p['why_tests_cant']}
  code it is anchored in: {', '.join(p['anchors']['files'])}
{mech}
  (line numbers are approximate; read the code)

WHAT TO PRODUCE: TWO independent changes ("a" and "b") to the fix8 library/compiler source (files under runtime/, include/fix8/,
compiler/ - never tests, schemas, generated files or build files), each of which
  1. still compiles (the whole tree: `make -j8` at the top of the worktree succeeds),
  2. leaves all 31 existing tests passing (`make -k check` at the top; the tests live in utests/; a quick loop is
     `make -C runtime -j8 && make -C utests -j8 check`),
  3. breaks the property above for some input / history / schedule / crash point inside the property's quantifier, and
  4. needs something SPECIFIC to manifest - a particular interleaving, a crash or fault at a particular point, a multi-step
     sequence of operations, an unusual input or boundary value, or two cooperating sites that each look fine alone. It must NOT
     be something ordinary use would expose at once (if a plain logon/new-order exchange or the existing tests show it, it is too crude).
  5. looks like something a real developer could plausibly commit: an optimisation, a refactor, a "simplification", an off-by-one,
     a wrong operator, a dropped guard, a changed order of two statements, a mis-merged condition, a wrong variable of the same type,
     a cache that is not invalidated... not gratuitous sabotage, no dead code, no comments that give it away. Keep each change small
     (typically 1-15 lines). The two changes should use different mechanisms and preferably different functions/sites.
{ROUND2}For each change also write a DEMONSTRATION: a small stand-alone C++ program (or gtest-free test) plus a shell script that builds
and runs it against the worktree's own build, which exits 0 on the unmodified code and exits non-zero (printing what went wrong)
with your change applied. You must actually run it both ways and confirm.

HOW TO WORK
  * Start with `git -C {wt} status` (clean apart from *.trs files). Read the anchored code first.
  * Make change a, rebuild, run the tests, run the demo (must fail); save `git diff -- runtime include compiler > {wt}/_seed/a/patch.diff`;
    then `git checkout -- runtime include compiler`, rebuild, run the demo again (must pass). Same for b (in _seed/b/).
    Each patch must apply on its own to a clean checkout with `git apply`.
  * Files to leave behind, per change X in {{a,b}}:
      {wt}/_seed/X/patch.diff     the change (git diff, paths relative to the repo root)
      {wt}/_seed/X/demo.cpp       the demonstration (more files if needed)
      {wt}/_seed/X/demo.sh        `demo.sh <repo-root>` builds+runs the demo against the build in <repo-root>; exit 0 = property
                                  observed to hold, exit 1 = property broken (print the observation), other codes = could not run.
                                  It must take the root as its argument (default {wt}) and write scratch files only under a mktemp dir it removes.
      {wt}/_seed/X/notes.md       5-15 lines: what was changed, why it breaks the property, what exactly is needed for it to manifest,
                                  why the 31 tests do not notice, and the commands you ran with their outcomes.
  * A link line that works for programs using the library and the unit-test schema classes (namespace FIX8::UTEST, `ctx()`):
      g++ -std=gnu++17 -DHAVE_CONFIG_H -I$R/runtime -I$R -I$R/include -I$R/utests demo.cpp -L$R/runtime/.libs -L$R/utests/.libs \\
          -lutest -lfix8 -lPocoFoundation -lPocoNet -lPocoUtil -lpthread -Wl,-rpath,$R/runtime/.libs:$R/utests/.libs -o demo
    (R = repo root). utests/*.cpp show how messages, sessions with the mock connection (utests/mockConnection.hpp,
    `#define F8MOCK_CONNECTION 1`, session_test.cpp includes ../runtime/session.cpp), persisters and loggers are driven.
    For code in headers/templates the demo simply recompiles it; for code in runtime/*.cpp the demo links the rebuilt libfix8.so,
    so demo.sh should run `make -C $R/runtime -j8 >/dev/null` (and `make -C $R/utests -j8 libutest.la >/dev/null` if it needs the schema classes) first.
    The schema compiler is $R/compiler/f8c (see utests/Makefile.am for a command line).
  * Header changes trigger long rebuilds of test/ (a huge generated FIX50SP2 unit, ~3 min): use the quick loop while iterating and do
    ONE full `make -j8 && make -k check` per change at the end to confirm requirements 1 and 2.
  * No network. Do not install anything. Do not commit. Do not create files outside {wt} except mktemp scratch that you delete.

FINAL ANSWER: for each of a and b, three lines - the one-sentence summary of the change (file:function), what it needs to manifest,
and the observed demo outputs (unmodified: pass / changed: fail, with the failing observation) plus the result of the full build and
`make -k check` with the change. If you could only produce one convincing change, say so; do not pad with a crude one.
""")
