"""K4 — extent analysis: how many bytes may a callee write through a pointer parameter, as a function of
its other parameters, and does every call site provide a destination at least that large?

Callee summaries are computed from the AST/CFG (bump stores `*p++ = x` bounded by a dominating
comparison of p with an end pointer derived from `p + capacity - k`; `memcpy(p, _, n)` + `p[n] = 0`).
Nothing is executed."""
from .facts import Node, AnalysisBroken
from . import q


class Summary:
    """extent of writes through one pointer parameter"""

    def __init__(self, fn, pidx):
        self.fn, self.pidx = fn, pidx
        self.kind = None          # 'cap' (bounded by capacity parameter), 'len' (n+1 of a length parameter), 'unbounded', 'none'
        self.cap_param = None     # index of the capacity / length parameter
        self.slack = 0
        self.reason = ''
        self.sites = []

    def __repr__(self):
        return '<extent %s p%d %s param=%s %s>' % (self.fn.qp, self.pidx, self.kind, self.cap_param, self.reason)


def _deref_target(n):
    """for an lvalue expression that stores through a pointer: returns (pointer DeclRefExpr node, form)
    form in 'bump' (*p++), 'point' (*p), 'index' (p[i])"""
    s = n.strip()
    if s.k == 'UnaryOperator' and s.op == '*':
        c = s.children[0].strip()
        if c.k == 'UnaryOperator' and c.op == '++' and c.r.get('post'):
            d = c.children[0].strip()
            if d.k == 'DeclRefExpr':
                return d, 'bump'
        if c.k == 'DeclRefExpr':
            return c, 'point'
        c2 = c.strip(casts=True)
        if c2.k == 'BinaryOperator' and c2.op == '+':
            d = c2.children[0].strip(casts=True)
            if d.k == 'DeclRefExpr':
                return d, 'offset'
    if s.k == 'ArraySubscriptExpr':
        d = s.children[0].strip(casts=True)
        if d.k == 'DeclRefExpr':
            return d, 'index'
    return None, None


def stores_through(fn, declid):
    """[(store node, form, lhs node)] for every assignment whose target dereferences local/param `declid`"""
    out = []
    for n in fn.all_nodes():
        if n.k in ('BinaryOperator', 'CompoundAssignOperator') and n.op == '=':
            # chained `*a = *b = 0`: every lhs in the chain
            lhs = n.children[0]
            d, form = _deref_target(lhs)
            if d is not None and d.declid == declid:
                out.append((n, form, lhs))
    return out


def summarise(fn, pidx):
    s = Summary(fn, pidx)
    pid = fn.param_ids[pidx]
    cfg = fn.cfg
    st = stores_through(fn, pid)
    mem = [c for c in fn.calls() if c.callee_qp in ('memcpy', 'memmove', 'strncpy') and q.refers_to_decl(c.args[0], pid)]
    raw = [c for c in fn.calls() if c.callee_qp in ('strcpy', 'strcat', 'sprintf') and q.refers_to_decl(c.args[0], pid)]
    if raw:
        s.kind, s.reason = 'unbounded', 'unbounded libc write %s' % raw[0].text()
        s.sites = raw
        return s
    if not st and not mem:
        s.kind = 'none'
        return s
    bumps = [(n, lhs) for (n, form, lhs) in st if form == 'bump']
    if mem:
        # memcpy(p, _, n) [+ p[n] = 0]
        if len(mem) == 1 and not bumps:
            n = mem[0].args[2].strip(casts=True)
            if n.k == 'DeclRefExpr' and n.declid in fn.param_ids:
                idxs = [(x, lhs) for (x, form, lhs) in st if form == 'index']
                extra = 0
                for (x, lhs) in idxs:
                    i = lhs.strip().children[1]
                    if q.refers_to_decl(i, n.declid):
                        extra = 1
                    elif i.strip(casts=True).value == 0:
                        pass
                    else:
                        s.kind, s.reason = 'unbounded', 'store at index `%s`' % i.text()
                        return s
                s.kind, s.cap_param, s.slack = 'len', fn.param_ids.index(n.declid), extra
                s.sites = mem
                return s
        s.kind, s.reason = 'unbounded', 'memcpy with a length that is not a parameter'
        s.sites = mem
        return s
    if not bumps:
        s.kind = 'none' if all(form == 'point' for (_, form, _) in st) else 'unbounded'
        s.reason = 'indexed stores' if s.kind == 'unbounded' else ''
        return s
    # every bump store must be dominated by a comparison of the pointer with an end pointer
    caps = set()
    for (n, lhs) in bumps:
        found = None
        for (a, pol) in q.controlling_atoms(fn, n):
            t = a.strip(casts=True)
            if t.k != 'BinaryOperator' or t.op not in ('==', '!=', '<', '>=', '>', '<='):
                continue
            l, r = t.children
            if q.refers_to_decl(l, pid):
                other, op = r, t.op
            elif q.refers_to_decl(r, pid):
                other, op = l, {'==': '==', '!=': '!=', '<': '>', '>': '<', '<=': '>=', '>=': '<='}[t.op]
            else:
                continue
            inside = (op == '==' and not pol) or (op == '!=' and pol) or (op == '<' and pol) or (op == '>=' and not pol)
            if not inside:
                continue
            e = other.strip(casts=True)
            if e.k != 'DeclRefExpr' or e.decl.get('sc') != 'local':
                continue
            defs = q.local_defs(fn, e.declid)
            if len(defs) != 1 or defs[0][1] != 'init' or defs[0][2] is None:
                continue
            # the end pointer is computed from the parameter's entry value: its init must precede every store
            if not cfg.dominates(cfg.vertex_of(defs[0][0]), cfg.vertex_of(n)):
                continue
            mods = [m for (m, kind, val) in q.local_defs(fn, pid) if cfg.has_vertex(m) and cfg.vertex_of(defs[0][0]) in cfg.reach_from(cfg.vertex_of(m))]
            if mods:
                continue
            lf = q.linear(defs[0][2], sym=lambda x: ('P' if q.refers_to_decl(x, pid) else
                                                     ('C%d' % fn.param_ids.index(x.strip(casts=True).declid)) if x.strip(casts=True).k == 'DeclRefExpr' and x.strip(casts=True).declid in fn.param_ids else x.text()))
            cs = [k for k in lf.t if k.startswith('C') and k[1:].isdigit()]
            if lf.t.get('P') == 1 and len(cs) == 1 and lf.t[cs[0]] == 1 and len(lf.t) == 2:
                found = (int(cs[0][1:]), -lf.c)
        if found is None:
            s.kind = 'unbounded'
            s.reason = 'store `%s` at %s advances the pointer without comparing it with an end derived from a capacity parameter' % (lhs.text(), n.loc)
            s.sites = [n]
            return s
        caps.add(found)
    if len(caps) != 1:
        s.kind, s.reason = 'unbounded', 'bump stores bounded by different capacities %s' % sorted(caps)
        return s
    (cp, k) = caps.pop()
    if k < 1:
        s.kind, s.reason = 'unbounded', 'no room is left for the terminator (end = p + capacity - %d)' % k
        return s
    s.kind, s.cap_param, s.slack = 'cap', cp, k
    s.sites = [n for (n, _) in bumps]
    return s


def arg_value(call, pidx):
    """constant value of the pidx-th argument of a call (default arguments included), else None"""
    args = call.args
    if pidx >= len(args):
        return None
    a = args[pidx]
    v = a.strip(casts=True).value
    if v is None and a.k == 'CXXDefaultArgExpr':
        ch = a.children
        if ch:
            v = ch[-1].strip(casts=True).value
    return v


def check_site(fn, call, summ, dest_idx, capacity_of=None):
    """(ok, needed bytes or None, capacity or None, why) for one call site"""
    dest = call.args[dest_idx]
    cap = q.array_capacity(dest)
    if cap is None and capacity_of is not None:
        cap = capacity_of(dest)
    if summ.kind == 'none':
        return True, 0, cap, 'callee writes nothing through this parameter'
    if summ.kind == 'unbounded':
        return False, None, cap, 'callee extent is not bounded by any capacity: ' + summ.reason
    if cap is None:
        return False, None, None, 'destination `%s` has no statically known capacity' % dest.text()
    if summ.kind == 'cap':
        v = arg_value(call, summ.cap_param)
        if v is None:
            return False, None, cap, 'capacity argument is not a constant'
        return v <= cap, v, cap, 'capacity argument %d vs destination of %d bytes' % (v, cap)
    if summ.kind == 'len':
        n = call.args[summ.cap_param]
        v = n.strip(casts=True).value
        if v is not None:
            need = v + summ.slack
            return need <= cap, need, cap, 'length %d + %d' % (v, summ.slack)
        lo, hi = q.interval_from_guards(fn, call, n)
        if hi == q.INF:
            return False, None, cap, 'length argument `%s` has no dominating upper bound' % n.text()
        st = n.strip(casts=True)
        pt = call.callee['pt'][summ.cap_param] if call.callee and 'pt' in call.callee and summ.cap_param < len(call.callee['pt']) else None
        ptype = fn.tu.types[pt] if pt is not None else {}
        if st.type and st.type.get('signed') and ptype.get('signed') is False and lo < 0:
            return False, None, cap, ('length argument `%s` is signed (%s) and only bounded above (<= %d): a negative value passes the guard and converts to a '
                                      'huge unsigned length' % (n.text(), st.type.get('c', 'int'), hi))
        need = hi + summ.slack
        return need <= cap, need, cap, 'length `%s` <= %d by a dominating guard, + %d' % (n.text(), hi, summ.slack)
    return False, None, cap, 'unknown summary kind'
