"""C27 — file persister survives process crashes without corruption."""
from ..facts import Program, AnalysisBroken
from .. import q

CLAIM = {
    'text': 'Write-order and coverage rules on FilePersister (crash model: the process may die after any completed write/seek): in '
            'put(seq,bytes) the data bytes are written before the index record that points to them, each by a single write whose '
            'result is compared with the full length, and the in-memory index is updated last; the control record is rewritten by '
            'one write of sizeof(record) at offset 0; the index replay in initialise() inserts a record only when a full record was '
            'read (interval of the read result at the insert is exactly sizeof(record)); the first slot of the index file must be '
            'reserved for the control record before any message index record can be appended.',
    'note': 'Trusted: clang CFG, extractor, POSIX append/seek semantics. Undecided: crash points themselves are not enumerated — the '
            'rules state the orderings that make every crash point benign; durability (fsync) is out of scope of the property\'s '
            'crash model.',
    'technique': 'order (dominance) of effectful calls; result-interval from dominating guards; must-dominate slot reservation',
}
UNITS = ['runtime/filepersist.cpp']
EXPLANATION = (
    "Decided: R27.1 slot reservation: the index append in put(seq,bytes) is dominated by evidence that the control record exists "
    "(index has key 0 / non-empty) or the creating branch of initialise() writes one; R27.2 at `_index.insert` in initialise() the "
    "result of read(_iod,&rec,sizeof rec) is proven == sizeof rec by dominating guards; R27.3 put(seq,bytes): write(data) ≺ "
    "write(index) ≺ _index.insert, both writes compared against their full length with failure returning false; the offset stored is "
    "the data file's end before the write; R27.4 control put: lseek(_iod,0,SEEK_SET) ≺ single write(sizeof(IPrec)). R27.5 every tested lseek result in FilePersister counts only a negative value as failure; R27.6 in the index replay of initialise() no test on the record's offset/size fields can keep a complete record out of the index. R27.8 the file range get seeks to the indexed offset for every record (rules of C18 R18.2). R27.7 no open() of the store files carries O_APPEND (the control record is rewritten in place). NOT decided: "
    "enumeration of crash points × operation sequences.")

F = 'FIX8::FilePersister::'


def _fd_is(n, member):
    return q.refers_to_member(n.strip(casts=True), F + member)


class WSite:
    """a write to a descriptor as seen from a FilePersister method: the write(2) call itself, or a call to a small helper of the unit that is
    summarised as `returns true iff write(fd-parameter, ..., SZ) == SZ` (its only write, its only return)"""

    def __init__(self, node, fd, size, helper=None):
        self.node, self.fd, self.size, self.helper = node, fd, size, helper
        self.loc = node.loc


def write_sites(prog, fn):
    out = []
    for c in fn.calls():
        if c.callee_qp == 'write':
            out.append(WSite(c, c.args[0], c.args[2]))
            continue
        if not c.callee_qp or c.callee is None or c.callee.get('n') in ('read', 'lseek', 'ftruncate', 'open', 'close'):
            continue
        for h in prog.fns(c.callee_qp):
            if h.tu is not fn.tu or 'cfg' not in h.raw or len(h.param_ids) != len(c.args):
                continue
            ws = [x for x in h.calls() if x.callee_qp == 'write']
            rr = [x for x in h.all_nodes() if x.k == 'ReturnStmt' and x.children]
            if len(ws) != 1 or len(rr) != 1:
                continue
            fdp = ws[0].args[0].strip(casts=True)
            if fdp.k != 'DeclRefExpr' or fdp.declid not in h.param_ids:
                continue
            e = rr[0].children[0].strip(casts=True)
            if e.k == 'BinaryOperator' and e.op == '==' and any(x == ws[0] for x in e.walk()):
                other = e.children[1] if any(x == ws[0] for x in e.children[0].walk()) else e.children[0]
                if q.same_expr(other, ws[0].args[2]) or (other.strip(casts=True).value is not None and other.strip(casts=True).value == ws[0].args[2].strip(casts=True).value):
                    out.append(WSite(c, c.args[h.param_ids.index(fdp.declid)], ws[0].args[2], h))
            break
    return out


def positioned_writes_rule(ctx, prog, RID):
    """the store addresses its writes: the control record is rewritten at offset 0 (lseek + write) and every record offset is the seek result the data write
    follows.  A descriptor opened with O_APPEND ignores the position on every write, so the open() calls of the index file may not carry that flag."""
    O_APPEND = 0o2000
    n = 0
    for g in prog.all_functions():
        if not (g.rec or '').endswith('FilePersister'):
            continue
        for c in g.calls():
            if c.callee_qp != 'open' or len(c.args) < 2:
                continue
            # only the INDEX file is rewritten in place (the data file is always written at its end: O_APPEND there changes nothing)
            asg = [a for a in c.ancestors() if a.k == 'BinaryOperator' and a.op == '=' and q.refers_to_member(a.children[0].strip(casts=True), F + '_iod')]
            if not asg:
                continue
            n += 1
            fl = c.args[1].strip(casts=True).value
            if fl is None:
                fl = q.eval_int(c.args[1], {})
            if fl is None:
                raise AnalysisBroken('%s: flags of `%s` are not a constant' % (g.q, c.text()[:80]))
            ctx.check(not (fl & O_APPEND), RID, '%s#open-positioned@%d' % (g.qp, c.line), c.loc,
                      'the store file is opened without O_APPEND (flags 0%o): lseek positions its writes' % fl,
                      '`%s` opens a store file with O_APPEND: every write then goes to the end of the file whatever lseek said, so the in-place rewrite of the control '
                      'record (lseek(_iod, 0, SEEK_SET) + write) appends instead — slot 0 keeps the numbers of the first run and the next start recovers stale sequence '
                      'numbers' % c.text()[:90])
    ctx.need(n >= 2, 'fewer than 2 open() calls of the index file found in FilePersister (%d)' % n)


def append_rule(ctx, put, data_write, RID):
    """the data bytes of a record go to the END of the data file (get() repositions the same descriptor, so the current position is not the end)"""
    pc = put.cfg
    seeks = [c for c in put.calls() if c.callee_qp == 'lseek' and _fd_is(c.args[0], '_fod')]
    ctx.check(len(seeks) == 1 and seeks[0].args[1].strip(casts=True).value == 0 and seeks[0].args[2].strip(casts=True).value == 2 and
              pc.dominates(pc.vertex_of(seeks[0]), pc.vertex_of(data_write)), RID, F + 'put#append', data_write.loc,
              'data is appended: lseek(_fod, 0, SEEK_END) dominates the data write and yields the stored offset',
              'the data write is not preceded by lseek(_fod, 0, SEEK_END) (whence is %s): get() and the range get() reposition the same descriptor, so a put after '
              'a get writes into the middle of the data file and overwrites stored messages'
              % (seeks[0].args[2].strip(casts=True).value if seeks else 'missing'))


def run(ctx):
    prog = Program(UNITS)
    ctx.units.update(UNITS)
    put = prog.fn1(F + 'put', sig='const FIX8::f8String &)')
    ctx.saw(put)
    pc = put.cfg
    writes = write_sites(prog, put)
    wsi = [w for w in writes if _fd_is(w.fd, '_iod')]
    wsd = [w for w in writes if _fd_is(w.fd, '_fod')]
    ctx.need(len(wsi) == 1 and len(wsd) == 1, 'put(seq,bytes): expected one index write and one data write')
    wi, wd = [wsi[0].node], [wsd[0].node]
    for w_ in wsi + wsd:
        if w_.helper is not None:
            ctx.saw(w_.helper)
    ins = [c for c in put.calls() if c.callee is not None and c.callee.get('n') == 'insert' and c.obj is not None and q.refers_to_member(c.obj, F + '_index')]
    ctx.need(len(ins) == 1, 'put(seq,bytes): _index.insert not found')
    # ---------------- R27.3 order
    ctx.check(pc.dominates(pc.vertex_of(wd[0]), pc.vertex_of(wi[0])), 'R27.3', F + 'put#data-before-index', wi[0].loc,
              'the data bytes are written before the index record that points to them',
              'the index record is written before the data it points to: a crash between the two writes leaves a sequence number whose '
              'offset is later filled by another message')
    ctx.check(pc.dominates(pc.vertex_of(wi[0]), pc.vertex_of(ins[0])) and pc.dominates(pc.vertex_of(wd[0]), pc.vertex_of(ins[0])),
              'R27.3', F + 'put#index-map-last', ins[0].loc, 'the in-memory index is updated only after both writes')
    for ws_, tag in ((wsi[0], 'index'), (wsd[0], 'data')):
        w = ws_.node
        brs = q.branches(put, lambda a, _w=w: any(x == _w for x in a.walk()))
        good = False
        for br in brs:
            s = br[1].strip(casts=True)
            if ws_.helper is not None and s == w:
                # the helper's result is the completeness test itself
                fail = q.atom_edge(pc, br, False)
                rs = q.reachable_returns(pc, fail)
                good = bool(rs) and all(q.return_value(r) == 0 for r in rs) and q.reachable_any(pc, fail, q.verts(pc, ins)) is None
            elif ws_.helper is None and s.k == 'BinaryOperator' and s.op in ('!=', '=='):
                other = s.children[1] if any(x == w for x in s.children[0].walk()) else s.children[0]
                full = q.same_expr(other, w.args[2]) or (other.strip(casts=True).value is not None and other.strip(casts=True).value == w.args[2].strip(casts=True).value) \
                    or other.strip(casts=True).text().replace('(long)', '') == w.args[2].strip(casts=True).text().replace('(unsigned int)', '')
                fail = q.atom_edge(pc, br, s.op == '!=')
                rs = q.reachable_returns(pc, fail)
                good = full and bool(rs) and all(q.return_value(r) == 0 for r in rs) and q.reachable_any(pc, fail, q.verts(pc, ins)) is None
        ctx.check(good, 'R27.3', F + 'put#%s-write.checked' % tag, w.loc, 'a short or failed %s write returns false and leaves the in-memory index unchanged' % tag)
    # offset stored = end of data file
    append_rule(ctx, put, wd[0], 'R27.3')

    # ---------------- R27.1 slot reservation
    atoms = q.controlling_atoms(put, wi[0])
    def control_exists(a, pol):
        s = a.strip(casts=True)
        txt = s.text()
        if s.is_call and s.r.get('op') in ('!=', '==') and any(x.is_call and x.callee and x.callee.get('n') == 'find' and x.args and x.args[0].strip(casts=True).value == 0 for x in s.walk()):
            return (s.r['op'] == '!=') == pol
        if s.is_call and s.callee and s.callee.get('n') == 'empty' and s.obj is not None and q.refers_to_member(s.obj, F + '_index'):
            return pol is False
        return False
    reserved = any(control_exists(a, pol) for a, pol in atoms)
    init = prog.fn1(F + 'initialise')
    ctx.saw(init)
    ic = init.cfg
    if not reserved:
        # does the creating branch write a control record?
        created = [w for (w, m) in q.member_writes(init, F + '_wasCreated')]
        wr0 = [w.node for w in write_sites(prog, init) if _fd_is(w.fd, '_iod')] + [c for c in init.calls() if
               (c.callee_qp == F + 'put' and q.param_type_str(c, 1) == 'const unsigned int')]
        reserved = bool(created) and bool(wr0) and any(ic.vertex_of(x) in ic.reach_from(ic.vertex_of(created[0])) or
                                                        ic.dominates(ic.vertex_of(x), ic.vertex_of(created[0])) for x in wr0)
    ctx.check(reserved, 'R27.1', F + 'put#slot0.reserved', wi[0].loc,
              'slot 0 of the index file holds the control record before any message index record is appended',
              'a message stored before the first control record occupies index slot 0; the first control store (written at offset 0) '
              'overwrites it and the message is gone after reopen')

    # ---------------- R27.4 control record write
    cp = prog.fn1(F + 'put', sig='(const unsigned int, const unsigned int)')
    ctx.saw(cp)
    cc = cp.cfg
    sk = [c for c in cp.calls() if c.callee_qp == 'lseek' and _fd_is(c.args[0], '_iod')]
    cws = [w for w in write_sites(prog, cp) if _fd_is(w.fd, '_iod')]
    wr = [w.node for w in cws]
    ctx.need(len(sk) == 1 and len(wr) == 1, 'control put: lseek/write on the index file not found')
    ctx.check(sk[0].args[1].strip(casts=True).value == 0 and sk[0].args[2].strip(casts=True).value == 0 and
              cc.dominates(cc.vertex_of(sk[0]), cc.vertex_of(wr[0])), 'R27.4', F + 'put#control.at0', wr[0].loc,
              'the control record is written at offset 0 (lseek(_iod, 0, SEEK_SET) dominates the write)')
    sz = cws[0].size.strip(casts=True)
    rec = cp.tu.record('FIX8::IPrec')
    ctx.check(sz.k == 'UnaryExprOrTypeTraitExpr' and sz.value is not None, 'R27.4', F + 'put#control.single-write', wr[0].loc,
              'one write of sizeof(IPrec) (%s bytes)' % sz.value)
    fail = [br for br in q.branches(cp, lambda a: any(x == sk[0] for x in a.walk()))]
    ctx.check(len(fail) == 1 and all(q.return_value(r) == 0 for r in q.reachable_returns(cc, q.atom_edge(cc, fail[0], True))) and
              q.reachable_any(cc, q.atom_edge(cc, fail[0], True), {cc.vertex_of(wr[0])}) is None,
              'R27.4', F + 'put#control.seek-checked', sk[0].loc, 'a failed seek returns false without writing')

    # ---------------- R27.2 replay: only complete records
    rd = [c for c in init.calls() if c.callee_qp == 'read' and _fd_is(c.args[0], '_iod')]
    ctx.need(len(rd) == 1, 'initialise(): index read not found')
    n = rd[0].args[2].strip(casts=True).value
    ctx.need(n is not None, 'initialise(): read size is not a constant')
    holder = rd[0].parent
    while holder is not None and holder.k != 'DeclStmt':
        holder = holder.parent
    ctx.need(holder is not None, 'initialise(): read result is not kept in a local')
    rdecl = holder.r['decls'][0][0]
    iins = [c for c in init.calls() if c.callee is not None and c.callee.get('n') == 'insert' and c.obj is not None and q.refers_to_member(c.obj, F + '_index')]
    ctx.need(len(iins) == 1, 'initialise(): _index.insert not found')
    lo, hi = q.interval_from_guards(init, iins[0], rd[0], lo=-1, hi=n, match=lambda x: q.refers_to_decl(x, rdecl))
    ctx.check((lo, hi) == (n, n), 'R27.2', F + 'initialise#replay.complete-record', iins[0].loc,
              'an index record is replayed only when all %d bytes were read' % n,
              'read() result at the insert is only known to lie in [%s, %s] (record size %d): a torn last record is replayed with stale '
              'bytes from the previous one' % (lo, hi, n))
    # ---------------- R27.5 offset 0 is a valid file position: a seek has failed only when its result is negative
    n_sk = 0
    for fnx in prog.all_functions():
        if not (fnx.rec or '').endswith('FilePersister'):
            continue
        for c in fnx.calls():
            if c.callee_qp != 'lseek':
                continue
            res = {c}
            par = c.parent
            while par is not None and par.k in ('ImplicitCastExpr', 'ParenExpr', 'CStyleCastExpr'):
                par = par.parent
            if par is not None and par.k == 'BinaryOperator' and par.op in ('-', '+'):
                par2 = par.parent
            holder = c.parent
            while holder is not None and holder.k not in ('DeclStmt', 'BinaryOperator', 'CompoundStmt', 'IfStmt', 'WhileStmt'):
                holder = holder.parent
            names = set()
            if holder is not None and holder.k == 'DeclStmt':
                for dd, ini_ in holder.r.get('decls', []):
                    if ini_ >= 0 and c in list(fnx.node(ini_).walk()):
                        names.add(dd)
            for (b, a, pol) in q.branches(fnx, lambda a: True):
                t = a.strip(casts=True)
                if t.k != 'BinaryOperator' or t.op not in ('<', '<=', '==', '!=', '>', '>='):
                    continue
                l, r = t.children
                involves = (c in list(l.walk()) and l.strip(casts=True) == c) or (l.strip(casts=True).k == 'DeclRefExpr' and l.strip(casts=True).declid in names)
                if not involves or r.strip(casts=True).value is None:
                    continue
                n_sk += 1
                k = r.strip(casts=True).value
                fails_only_negative = (t.op == '<' and k == 0) or (t.op == '<=' and k == -1) or (t.op == '==' and k == -1) or (t.op == '!=' and k == -1) or \
                    (t.op == '>=' and k == 0) or (t.op == '>' and k == -1)
                ctx.check(fails_only_negative, 'R27.5', '%s#seek-result@%s' % (fnx.qp, t.text().replace(' ', '')[:40]), t.loc,
                          'the seek result is tested for failure as negative only (`%s`)' % t.text(),
                          'the seek result is tested with `%s`: offset 0 is a valid position (a torn FIRST record leaves exactly that), so a crash inside the very first '
                          'index write makes initialise() fail for ever' % t.text())
    ctx.need(n_sk >= 3, 'fewer than 3 tested lseek results in FilePersister (%d)' % n_sk)
    # ---------------- R27.6 replay keeps every complete record: the control record stores arbitrary numbers in its fields, so no test on the record's
    # offset/size fields may keep a record with sequence number 0 out of the index
    recl = None
    for a_ in rd[0].args:
        for x in a_.walk():
            if x.k == 'DeclRefExpr' and x.decl and x.decl.get('sc') == 'local':
                recl = x.declid
    ctx.need(recl is not None, 'initialise(): record buffer of the index read not found')
    iv = ic.vertex_of(iins[0])
    rv = ic.vertex_of(rd[0])
    content = []
    for (b, a, pol) in q.branches(init, lambda a: any(x.k == 'DeclRefExpr' and x.declid == recl for x in a.walk())):
        flds = {x.decl['n'] for x in a.walk() if x.k == 'MemberExpr' and x.decl and x.decl.get('k') == 'Field'}
        # a predicate method of the record counts by the fields its body reads (Prec::valid() ...)
        for x in a.walk():
            if x.is_call and x.callee_qp and x.obj is not None and any(y.k == 'DeclRefExpr' and y.declid == recl for y in x.obj.walk()):
                for g in prog.fns(x.callee_qp):
                    flds |= {y.decl['n'] for y in g.all_nodes() if y.k == 'MemberExpr' and y.decl and y.decl.get('k') == 'Field'}
        if flds & {'_offset', '_size'}:
            content.append((b, a, pol, flds))
    dropped = None
    for (b, a, pol, flds) in content:
        for way in (True, False):
            def eo(v, w, lab, _b=b, _way=way):
                if lab is not None and isinstance(lab[1], bool) and lab[0] == _b:
                    return lab[1] == _way
                return True
            if iv not in ic.reach_from(rv, edge_ok=eo, avoid=[rv]):
                dropped = (a, way)
    ctx.check(dropped is None, 'R27.6', F + 'initialise#replay.no-content-filter', iins[0].loc,
              'no test on a record\'s offset/size fields can keep a complete index record out of the replayed index (%d such test(s))' % len(content),
              'when `%s` is %s the record just read is not inserted into the index: the control record keeps the TARGET sequence number in its size field, so a '
              'control record with a large number is dropped on reopen and get(sender, target) fails' % (dropped[0].text() if dropped else '', dropped[1] if dropped else ''))
    positioned_writes_rule(ctx, prog, 'R27.7')
    # ---------------- R27.8 after a crash the bytes behind the last indexed record are orphans of an interrupted put: both retrievals read a record from the offset
    # its index entry names — the range get seeks for EVERY record (rules of C18 R18.2 on the file persister), never trusting the position the previous read left
    from . import c18 as _c18
    from ..engine import Ctx as _Ctx
    sub18 = _Ctx('C18', ctx.tier)
    _c18.range_get_rules(sub18, Program(UNITS + ['runtime/persist.cpp', 'runtime/session.cpp']), 'R18.2')
    n18 = 0
    for o in sub18.obl:
        if 'FilePersister' in o['key'] and ('record.' in o['key'] or '#stop' in o['key'] or '#step' in o['key']):
            n18 += 1
            ctx._rec(o['ok'], 'R27.8', o['key'].split('@', 1)[1], o['site'], o['what'], o['detail'])
    ctx.need(n18 >= 3, 'range-get rules of the file persister not evaluated (%d)' % n18)
    ctx.floor('R27.7', 2)
    ctx.floor('R27.3', 5)
    ctx.floor('R27.4', 3)
