"""Independent reader of FIX schema XML (QuickFIX-style, as shipped in /repo/schema): yields the metadata a correct
schema compiler must produce. Uses Python's xml.etree — not fix8's XML parser, not f8c's data structures.

Reading rules (from the schema format itself, cross-checked once against f8c's output, see DESIGN §5 C13):
  * <fields>: number, name, type (upper-cased), <value enum description [range]>.
  * <header>, <trailer>, <messages><message name msgtype msgcat>: children in document order are <field>, <group>,
    <component>; a <component name required> is replaced by the children of <components><component name>; a child of a
    component that is not required is itself not required; a <group>'s children are its own definition (recursively).
  * position = 1-based rank in document order among the fields and group count fields of the definition.
  * BeginString(8), BodyLength(9), MsgType(35), CheckSum(10) are written by the framework and are never mandatory.
"""
import re
import xml.etree.ElementTree as ET

SPECIAL = {8, 9, 35, 10}


class Member:
    __slots__ = ('name', 'num', 'required', 'group', 'line')

    def __init__(self, name, num, required, group=None):
        self.name, self.num, self.required, self.group = name, num, required, group

    def __repr__(self):
        return '%s(%d)%s%s' % (self.name, self.num, '!' if self.required else '', '{%d}' % len(self.group) if self.group is not None else '')


class Schema:
    def __init__(self, path, fixt=None, extra_fields=None):
        self.path = path
        root = ET.parse(path).getroot()
        self.version = (root.get('type', 'FIX'), root.get('major'), root.get('minor'), root.get('servicepack'))
        self.fields = {}          # num -> dict(name,type,values=[(enum,desc,range)])
        self.byname = {}
        troot = ET.parse(fixt).getroot() if fixt else None
        for r in ([troot] if troot is not None else []) + [root]:
            for f in r.findall('./fields/field'):
                num, name, typ = f.get('number'), f.get('name'), f.get('type')
                if not (num and name and typ):
                    continue
                num = int(num.strip())
                if num in self.fields:
                    continue
                vals = []
                for v in f.findall('./value'):
                    e = v.get('enum')
                    if e is None:
                        continue
                    d = v.get('description') or e
                    vals.append((e, d, v.get('range')))
                self.fields[num] = {'name': name.strip(), 'type': typ.strip().upper(), 'values': vals}
                self.byname[name.strip()] = num
        # components are scoped by the schema file that defines them: the transport (FIXT) file's header, trailer and messages are expanded with the
        # transport file's components, the application file's messages with the application file's (a component name may exist in both)
        self.components = {}
        self._scope = {}
        for r in ([troot] if troot is not None else []) + [root]:
            sc_ = {}
            for c in r.findall('./components/component'):
                sc_.setdefault(c.get('name'), c)
                self.components.setdefault(c.get('name'), c)
            self._scope[id(r)] = sc_
        self.extra = []           # (num, name, type, {message: required})
        if extra_fields:
            for m in re.finditer(r"<field\s+([^>]*?)/>", extra_fields):
                at = dict(re.findall(r"(\w+)='([^']*)'", m.group(1)))
                num = int(at['number'])
                self.fields[num] = {'name': at['name'], 'type': at['type'].upper(), 'values': []}
                self.byname[at['name']] = num
                msgs = {}
                for tok in at.get('messages', '').split():
                    mn, _, req = tok.partition(':')
                    msgs[mn] = (req == 'Y')
                self.extra.append((num, at['name'], msgs))
        hroot = troot if troot is not None else root
        self._comps = self._scope[id(hroot)]
        self.header = self._expand(hroot.find('./header'), True)
        self.trailer = self._expand(hroot.find('./trailer'), True)
        self.messages = {}        # msgtype -> dict(name, admin, members)
        self.order = []
        for r in ([troot] if troot is not None else []) + [root]:
            for m in r.findall('./messages/message'):
                mt, name, cat = m.get('msgtype'), m.get('name'), m.get('msgcat')
                if mt is None or name is None or cat is None or mt in self.messages:
                    continue
                self._comps = self._scope[id(r)]
                members = self._expand(m, True)
                # user fields given on the f8c command line (-F) are not placed by the schema; f8c puts them in front of the
                # message's own fields, in tag order — accepted as the reference placement
                xs = [Member(fname, num, msgs[name]) for (num, fname, msgs) in sorted(self.extra) if name in msgs]
                members = xs + members
                self.messages[mt] = {'name': name, 'admin': cat == 'admin', 'members': members}
                self.order.append(mt)

    def _expand(self, el, enclosing_required, depth=0):
        out = []
        if el is None or depth > 12:
            return out
        for ch in list(el):
            tag = ch.tag
            name = ch.get('name')
            req = (ch.get('required') == 'Y')
            if tag == 'field':
                num = self.byname.get(name)
                if num is None:
                    continue
                out.append(Member(name, num, req and enclosing_required and num not in SPECIAL))
            elif tag == 'group':
                num = self.byname.get(name)
                if num is None:
                    continue
                out.append(Member(name, num, req and enclosing_required, group=self._expand(ch, True, depth + 1)))
            elif tag == 'component':
                comp = getattr(self, '_comps', self.components).get(name)
                if comp is not None:
                    out += self._expand(comp, enclosing_required and req, depth + 1)
        # a definition keeps the first occurrence of a tag only
        seen, ded = set(), []
        for m in out:
            if m.num in seen:
                continue
            seen.add(m.num)
            ded.append(m)
        return ded


def definition_rows(members):
    """expected trait rows of one definition: sorted by tag: (num, pos rank, mandatory, is_group)"""
    rows = []
    for i, m in enumerate(members):
        rows.append((m.num, i + 1, bool(m.required), m.group is not None))
    return sorted(rows)
