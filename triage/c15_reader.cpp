// build with EXTRA=-fno-access-control (FIXReader::read is private)
// R15.4 (and R15.2 after the extractor fix): what FIXReader::read does with a corrupt preamble, over a real loopback socket.
#include <iostream>
#include <sstream>
#include <string>
#include <vector>
#include <map>
#include <set>
#include <memory>
#include <thread>
#include <functional>
#include <algorithm>
#include <unordered_map>
#include <Poco/Net/ServerSocket.h>
#include <Poco/Net/StreamSocket.h>
#include <fix8/f8includes.hpp>
#include "utest_types.hpp"
#include "utest_router.hpp"
#include "utest_classes.hpp"
using namespace FIX8; using namespace FIX8::UTEST;
struct S : Session { S(const F8MetaCntx& c, const SessionID& id) : Session(c, id) {} bool handle_application(const unsigned, const Message *&) { return true; } };
static std::string show(std::string s) { for (auto& c : s) if (c == 1) c = '|'; return s; }
static int trial(const char *name, const std::string& wire, bool expect_error)
{
    Poco::Net::ServerSocket srv(Poco::Net::SocketAddress("127.0.0.1", 0));
    Poco::Net::StreamSocket cli; cli.connect(srv.address());
    Poco::Net::StreamSocket acc(srv.acceptConnection());
    S ss(ctx(), SessionID("FIX.4.2:A->B"));
    FIXReader rd(&acc, ss, pm_thread);
    cli.sendBytes(wire.data(), (int)wire.size()); cli.shutdownSend();
    std::string got; bool r = false, threw = false; std::string what;
    try { r = rd.read(got); } catch (std::exception& e) { threw = true; what = e.what(); }
    bool error = threw || !r;
    std::cout << name << ": " << (threw ? "threw " + what.substr(0, 50) : r ? "returned message [" + show(got).substr(0, 60) + "...]" : "returned false") << std::endl;
    return error == expect_error ? 0 : 1;
}
int main()
{
    int bad = 0;
    std::string body("35=0\00149=B\00156=A\00134=1\00152=20200101-00:00:00\001");
    bad += trial("valid", "8=FIX.4.2\0019=" + std::to_string(body.size()) + "\001" + body + "10=000\001", false);
    bad += trial("non-numeric first BodyLength byte", "8=FIX.4.2\0019=A2\001" + std::string(172, 'x') + "10=000\001", true);
    bad += trial("2500-byte junk with no SOH after 8=", "8=" + std::string(11, 'y') + std::string(2500, '7') + "\001" + std::string(200, 'z'), true);
    // R15.4 no-wrap: 2^32 + 5 as BodyLength wraps to 5; the five bytes `35=0|` plus a 7-byte checksum field make a "valid" frame
    bad += trial("BodyLength 4294967301 (wraps to 5)", std::string("8=FIX.4.2\0019=4294967301\001") + "35=0\001" + "10=000\001", true);
    std::cout << (bad ? "DEFECT" : "HOLDS") << std::endl;
    return bad ? 1 : 0;
}
