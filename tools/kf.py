#!/usr/bin/env python3
"""development helper: add/replace an entry in known_findings.json
usage: kf.py <property> <key> <known|fixed> <commit|-> <what> [replayed_with]"""
import json, sys, os
V = os.path.dirname(os.path.dirname(os.path.abspath(__file__)))
p = os.path.join(V, 'known_findings.json')
d = json.load(open(p))
prop, key, status, commit, what = sys.argv[1:6]
rw = sys.argv[6] if len(sys.argv) > 6 else ''
d['findings'] = [f for f in d['findings'] if not (f['property'] == prop and f['key'] == key)]
e = {'property': prop, 'key': key, 'status': status}
if commit != '-':
    e['commit'] = commit
    what = 'fixed: property=%s %s %s' % (prop, commit, what) if status == 'fixed' else what
e['what'] = what
if rw:
    e['replayed_with'] = rw
d['findings'].append(e)
d['findings'].sort(key=lambda f: (f['property'], f['key']))
json.dump(d, open(p, 'w'), indent=1)
