// R04.1: strict mode silently drops fields after a tag unknown to every section. R04.2: tag numbers wrap modulo 65536.
#include "/repo/runtime/message.cpp"     // compiled into this TU so that the working-tree source is what runs
#include "utest_types.hpp"
#include "utest_router.hpp"
#include "utest_classes.hpp"
using namespace FIX8::UTEST;
static f8String frame(const f8String& body35on)
{
    std::ostringstream o; o << "8=FIX.4.2\0019=" << body35on.size() << '\001' << body35on;
    f8String s(o.str()); unsigned sum = 0; for (unsigned char c : s) sum += c;
    char cs[8]; snprintf(cs, sizeof cs, "10=%03u\001", sum % 256); return s + cs;
}
static int strict(const char *name, const f8String& body, bool expect_accept)
{
    bool accepted = false; f8String re;
    try { std::unique_ptr<Message> m(Message::factory(ctx(), frame(body), false, false)); accepted = true; m->encode(re); for (auto& c : re) if (c == 1) c = '|'; }
    catch (f8Exception& e) { re = e.what(); }
    std::cout << name << ": " << (accepted ? "ACCEPTED, re-encodes as " : "rejected: ") << re.substr(0, 110) << std::endl;
    return accepted == expect_accept ? 0 : 1;
}
int main()
{
    int bad = 0;
    const f8String logon("35=A\00134=1\00149=CLIENT\00156=SERVER\00152=20130304-02:44:30\001108=30\00198=0\001");
    bad += strict("conforming logon", logon, true);
    bad += strict("unknown tag 1234 then Text after all mandatory fields", logon + "1234=blah\00158=lost\001", false);
    bad += strict("tag 65644 (= 65536 + 108) instead of HeartBtInt", "35=A\00134=1\00149=CLIENT\00156=SERVER\00152=20130304-02:44:30\00165644=30\00198=0\001", false);
    std::cout << (bad ? "DEFECT" : "HOLDS") << std::endl;
    return bad ? 1 : 0;
}
