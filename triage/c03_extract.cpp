// R03.1: tag/value extraction into fixed stack buffers. Build with EXTRA="-fsanitize=address -g";
// message.cpp is compiled into this TU so that ASan instruments the decoder.
#include "/repo/runtime/message.cpp"
#include "utest_types.hpp"
#include "utest_router.hpp"
#include "utest_classes.hpp"
using namespace FIX8::UTEST;
static f8String frame(const f8String& body35on)
{
    std::ostringstream o; o << "8=FIX.4.2\0019=" << body35on.size() << '\001' << body35on;
    f8String s(o.str()); unsigned sum = 0; for (unsigned char c : s) sum += c;
    char cs[8]; snprintf(cs, sizeof cs, "10=%03u\001", sum % 256); return s + cs;
}
int main()
{
    const char *names[] = { "3000-byte Text value", "60-digit BodyLength", "3000-digit tag" };
    f8String inputs[] = {
        frame("35=0\00149=A\00156=B\00134=1\00152=20200101-00:00:00\00158=" + f8String(3000, 'x') + "\001"),
        f8String("8=FIX.4.2\0019=") + f8String(60, '1') + "\00135=0\00110=000\001",
        frame("35=0\00149=A\00156=B\00134=1\00152=20200101-00:00:00\001" + f8String(3000, '5') + "=x\001"),
    };
    for (int i = 0; i < 3; ++i)
    {
        try { std::unique_ptr<Message> m(Message::factory(ctx(), inputs[i])); std::cout << names[i] << ": decoded" << std::endl; }
        catch (f8Exception& e) { std::cout << names[i] << ": rejected (" << f8String(e.what()).substr(0, 40) << ")" << std::endl; }
    }
    std::cout << "HOLDS (no memory error)" << std::endl;
    return 0;
}
