"""C20 — sequence gaps are recovered with a conformant counterparty."""
from ..facts import Program, AnalysisBroken
from .. import q
from . import c19

CLAIM = {
    'text': 'Control-dependence and decision rules on the receive counter: its per-message increment in Session::process must depend on '
            'the message having been accepted in sequence; a sequence number above the expected one must never be answered by '
            'throwing (only by ResendRequest); handle_sequence_reset adopts NewSeqNo >= expected (stored so that the per-message '
            'increment lands on NewSeqNo) and throws below it, covering all orderings.',
    'note': 'Trusted: clang CFG, extractor. Undecided: everything about concrete histories (which messages a counterparty replays, '
            'delivery at-least-once); this check decides the three code-shape preconditions without which no conformant history '
            'can be recovered.',
    'technique': 'control-dependence of a counter update; decision-table coverage over order classes; linear-form arithmetic',
}
UNITS = ['runtime/session.cpp']
EXPLANATION = (
    "Decided: R20.1 the main-path `++_next_receive_seq` of Session::process is control-dependent on a decision that mentions the "
    "message's sequence number (comparison with the expected number, or the enforce/sequence_check verdict); R20.2 "
    "handle_sequence_reset: case split on NewSeqNo vs expected covers >=/< ; '>=' assigns expected := NewSeqNo - 1 and process() adds "
    "exactly 1 afterwards; '<' only throws; R20.3 in sequence_check no throw is reachable in the seqnum > expected case; R20.6 explicit start numbers: the initiator applies the parameters of this start() call, _req_next_* are stored only on the acceptor path (rule of C16 R16.5); R20.5 the acceptor's reset decision reads the VALUE of ResetSeqNumFlag; R20.4 a PossDup replay is refused only for OrigSendingTime strictly after SendingTime (rule of C19 R19.2). "
    "R20.7 after a served ResendRequest the state is continuous again on every path; R20.8 enforce() delivers exactly what sequence_check accepts (rule of C19 R19.2). NOT decided: histories, replays, delivery.")

S = 'FIX8::Session::'
RECV = S + '_next_receive_seq'


def seqreset_compare_rule(ctx, prog, RID):
    """handle_sequence_reset judges NewSeqNo against the EXPECTED inbound number (enforce() skips sequence_check for SequenceReset, so this handler is
    the only place a stale reset can be refused)"""
    f = prog.fn1(S + 'handle_sequence_reset')
    ctx.saw(f)
    cmp_ = []
    for (b, a, pol) in q.branches(f, lambda a: a.strip(casts=True).k == 'BinaryOperator' and a.strip(casts=True).op in ('<', '>', '<=', '>=') and
                                  any(q.reads_local_of_field(x, 36) for x in a.strip(casts=True).children)):
        t = a.strip(casts=True)
        other = [x for x in t.children if not q.reads_local_of_field(x, 36)]
        cmp_.append((t, other[0] if other else None))
    ctx.need(cmp_, 'handle_sequence_reset: no comparison of NewSeqNo(36) found')
    bad = [(t, o) for (t, o) in cmp_ if o is None or not q.reads_member(o, RECV)]
    ctx.check(not bad, RID, S + 'handle_sequence_reset#newseqno-vs-expected', cmp_[0][0].loc,
              'NewSeqNo is compared with the expected inbound number',
              'NewSeqNo is compared with `%s`, not with the expected inbound number: a stale SequenceReset (MsgSeqNum 2, NewSeqNo 3 after 2..5 were consumed) winds the expected '
              'number back and already delivered messages are accepted again' % (bad[0][1].text() if bad and bad[0][1] is not None else '?'))


def decision_expr(prog, f, e):
    """the expression a bool local is initialised from, seen through a predicate helper of the unit that is handed the message (single return)"""
    es = e.strip(casts=True)
    if es.is_call and es.callee_qp and es.args and len(f.param_ids) > 1 and any(q.refers_to_decl(a_, f.param_ids[1]) for a_ in es.args):
        for h_ in prog.fns(es.callee_qp):
            rr_ = [x for x in h_.all_nodes() if x.k == 'ReturnStmt' and x.children]
            if h_.tu is f.tu and len(rr_) == 1:
                return rr_[0].children[0]
    return e


def reset_by_value_rule(ctx, prog, RID):
    """the acceptor resets its numbers only for ResetSeqNumFlag = Y: the decision reads the field's VALUE, not merely its presence"""
    f = prog.fn1(S + 'handle_logon')
    ctx.saw(f)
    loc = None
    for n in f.all_nodes():
        if n.k == 'DeclStmt':
            for dd, init in n.r.get('decls', []):
                if init >= 0 and f.tu.types[f.tu.decls[dd]['t']]['k'] == 'bool':
                    e = f.node(init)
                    es = e.strip(casts=True)
                    if es.is_call and es.callee_qp and es.args and any(q.refers_to_decl(a_, f.param_ids[1]) for a_ in es.args):
                        # a predicate helper of the unit handed this message: its single return expression is the decision
                        for h_ in prog.fns(es.callee_qp):
                            rr_ = [x for x in h_.all_nodes() if x.k == 'ReturnStmt' and x.children]
                            if h_.tu is f.tu and len(rr_) == 1:
                                ctx.saw(h_)
                                e = rr_[0].children[0]
                    if any(c.callee_qp == 'FIX8::MessageBase::have' and c.args and c.args[0].strip(casts=True).value == 141 for c in q.calls_in(e)) or \
                            any(q.field_num((x.type or {}).get('c', '')) == 141 for x in e.walk()) or \
                            any(x.k == 'DeclRefExpr' and x.decl and q.field_num(x.fn.tu.types[x.decl['t']]['c']) == 141 for x in e.walk()):
                        loc = (dd, e)
    ctx.need(loc is not None, 'handle_logon: the reset decision (a bool initialised from ResetSeqNumFlag 141) not found')
    e = loc[1]
    # a value read: Field<...,141>::get() / operator()() somewhere in the expression
    reads_value = any(x.is_call and x.callee is not None and x.callee.get('n') in ('get', 'operator()') and (x.callee.get('rec') or '').startswith('FIX8::Field<') and
                      q.field_num(x.callee.get('rec') or '') == 141 for x in e.walk())
    ctx.check(reads_value, RID, S + 'handle_logon#reset.by-value', e.loc,
              'the reset decision reads the value of ResetSeqNumFlag',
              'the reset decision `%s` only tests whether ResetSeqNumFlag is present: a Logon carrying an explicit 141=N resets both sequence numbers to 1 (and purges the '
              'store), the counterparty continues at its true number and the session ends with InvalidMsgSequence' % e.text())


def run(ctx):
    prog = Program(UNITS)
    ctx.units.update(UNITS)
    pr = prog.fn1(S + 'process')
    ctx.saw(pr)
    cfg = pr.cfg
    writes = q.member_writes(pr, RECV)
    h = cfg.handler_entry(lambda n: 'exct' in n.r and 'f8Exception' in pr.tu.types[n.r['exct']]['c'])
    hreach = cfg.reach_from(h) if h is not None else set()
    main = [(w, m) for (w, m) in writes if cfg.vertex_of(w) not in hreach]
    ctx.need(len(main) == 1, 'expected one main-path increment of the receive counter in process(), found %d' % len(main))
    w = main[0][0]
    seqloc = None
    for c in pr.calls_to(S + 'handle_application'):
        seqloc = c.args[0].strip(casts=True).declid
    ctx.need(seqloc is not None, 'handle_application call not found')
    atoms = q.controlling_atoms(pr, w)
    def mentions_seq(a):
        for x in a.walk():
            if x.k == 'DeclRefExpr' and x.declid == seqloc:
                return True
            if x.is_call and x.callee_qp in (S + 'enforce', S + 'sequence_check'):
                return True
            if x.k == 'DeclRefExpr' and x.decl and x.decl.get('sc') == 'local':
                for (dn, kind, val) in q.local_defs(pr, x.declid):
                    if val is not None and any(y.k == 'DeclRefExpr' and y.declid == seqloc for y in val.walk()) and \
                            q.reads_member(val, RECV):
                        return True
        return False
    ctx.check(any(mentions_seq(a) for a, pol in atoms), 'R20.1', S + 'process#recv-incr.unconditional', w.loc,
              'the expected inbound number is advanced only for a message accepted in sequence',
              'the expected inbound number is incremented after every handled message, whatever its sequence number '
              '(a message above the expected number advances it; a conformant replay then ends in MsgSequenceTooLow)')

    # R20.2
    f = prog.fn1(S + 'handle_sequence_reset')
    ctx.saw(f)
    c2 = f.cfg
    def rel(a):
        s = a.strip(casts=True)
        if s.k != 'BinaryOperator' or s.op not in ('<', '>', '<=', '>='):
            return None
        l, r = s.children
        if q.reads_local_of_field(l, 36) and q.reads_member(r, RECV):
            return s.op
        if q.reads_local_of_field(r, 36) and q.reads_member(l, RECV):
            return {'<': '>', '>': '<', '<=': '>=', '>=': '<='}[s.op]
        return None
    brs = q.branches(f, lambda a: rel(a) is not None)
    ctx.need(brs, 'no comparison of NewSeqNo(36) with the expected number in handle_sequence_reset')
    def region(order):
        def truth(op):
            return {'>': order == 'GT', '<': order == 'LT', '>=': order != 'LT', '<=': order != 'GT'}[op]
        def eo(v, w_, lab):
            if lab is None or not isinstance(lab[1], bool):
                return True
            a, pol = q.polar(c2.cond_node(lab[0]), lab[1])
            op = rel(a)
            return True if op is None else truth(op) == pol
        return eo
    got = [g for g in f.calls() if g.callee_qp == 'FIX8::MessageBase::get' and g.args and q.reads_local_of_field(g.args[0], 36)]
    ctx.need(got, 'NewSeqNo is not read from the message in handle_sequence_reset')
    start = [x for x in q.atom_edge(c2, q.branches(f, lambda a: a == got[0])[0], True)] if q.branches(f, lambda a: a == got[0]) else [c2.entry]
    ws = q.member_writes(f, RECV)
    for order in ('GT', 'EQ'):
        eo = region(order)
        wv = set()
        for (w2, m) in ws:
            rhs = w2.args[-1] if w2.args else None
            lf = q.linear(rhs, sym=lambda x: 'NSN' if q.reads_local_of_field(x, 36) else x.text()) if rhs is not None else None
            if lf is not None and lf.t == {'NSN': 1} and lf.c == -1:
                wv.add(c2.vertex_of(w2))
        p = q.escape_path(c2, start, wv, edge_ok=eo)
        ctx.check(p is None and bool(wv), 'R20.2', S + 'handle_sequence_reset#adopt.%s' % order, f.loc,
                  'NewSeqNo %s expected: expected := NewSeqNo - 1 on every path' % ('>' if order == 'GT' else '='),
                  None, c2.describe_path(p) if p else None)
    eo = region('LT')
    rs = q.reachable_returns(c2, start, edge_ok=eo)
    ctx.check(not rs, 'R20.2', S + 'handle_sequence_reset#toolow.throws', f.loc, 'NewSeqNo < expected: no normal return (throws)')
    # process() adds exactly one after the handler
    hs = pr.calls_to(S + 'handle_sequence_reset')
    ctx.need(len(hs) == 1, 'handle_sequence_reset call not found in process()')
    r = q.count_on_paths(cfg, cfg.vertex_of(hs[0]), {cfg.vertex_of(w)},
                         stop=lambda v: cfg.V[v].node is not None and cfg.V[v].node.k == 'ReturnStmt')
    ctx.check(r == (1, 1), 'R20.2', S + 'process#after-seqreset.plus1', hs[0].loc,
              'exactly one increment of the expected number follows handle_sequence_reset on every path (NewSeqNo-1+1)',
              'increments after handle_sequence_reset: %s' % (r,))

    # R20.3
    sc = prog.fn1(S + 'sequence_check')
    ctx.saw(sc)
    c3 = sc.cfg
    p0 = sc.param_ids[0]
    def rel3(a):
        s = a.strip(casts=True)
        if s.k != 'BinaryOperator' or s.op not in ('<', '>', '<=', '>=', '==', '!='):
            return None
        l, r_ = s.children
        if q.refers_to_decl(l, p0) and q.member_value_of(r_, RECV):
            return s.op
        if q.refers_to_decl(r_, p0) and q.member_value_of(l, RECV):
            return {'<': '>', '>': '<', '<=': '>=', '>=': '<=', '==': '==', '!=': '!='}[s.op]
        return None
    ctx.need(q.branches(sc, lambda a: rel3(a) is not None), 'no seqnum comparison in sequence_check')
    def gt(v, w_, lab):
        if lab is None or not isinstance(lab[1], bool):
            return True
        a, pol = q.polar(c3.cond_node(lab[0]), lab[1])
        op = rel3(a)
        if op is None:
            return True
        return {'>': True, '<': False, '>=': True, '<=': False, '==': False, '!=': True}[op] == pol
    reach = c3.reach_from(c3.entry, edge_ok=gt)
    thr = [n for (v, kind, n) in c3.exits() if kind == 'throw' and v in reach]
    ctx.check(not thr, 'R20.3', S + 'sequence_check#gt.throws', sc.loc,
              'a sequence number above the expected one is never answered by an exception',
              'seqnum > expected outside state continuous throws %s (session terminated for a sequence reason; a Logon carrying a '
              'higher number cannot be recovered)' % (thr[0].children[0].tstr if thr else ''),
              [t.loc for t in thr])
    # R20.4 replayed messages (PossDup, number below the expected one) are refused only when OrigSendingTime is strictly later than SendingTime
    c19.origsendingtime_rule(ctx, sc, 'R20.4', prog)
    # R20.8 what sequence_check accepts is delivered: the replay a conformant counterparty sends for a gap arrives below the expected number with PossDupFlag
    # (the receive counter already ran ahead, see the known finding R20.1) and must not be dropped by the gate
    c19.enforce_gate_rule(ctx, prog, 'R20.8')
    # R20.7 once a ResendRequest has been served the session is continuous again, whatever the range held: the completion branch of retrans_callback
    # (reached on every path of both range gets, C18 R18.2) or handle_resend_request itself restores the state unconditionally
    def to_state(c, name):
        return c.callee_qp == S + 'do_state_change' and c.args and any(x.k == 'DeclRefExpr' and x.decl is not None and x.decl.get('n') == name for x in c.args[0].walk())
    rc_ = prog.fn1(S + 'retrans_callback')
    hr_ = prog.fn1(S + 'handle_resend_request')
    ctx.saw(rc_), ctx.saw(hr_)
    rcc, hrc = rc_.cfg, hr_.cfg
    cont_cb = [c for c in rc_.calls() if to_state(c, 'st_continuous') and rcc.has_vertex(c)]
    nm = q.branches(rc_, lambda a: any(x.k == 'MemberExpr' and x.decl is not None and x.decl.get('n') == '_no_more_records' for x in a.walk()))
    ok_cb = False
    if len(nm) == 1 and cont_cb:
        starts = q.atom_edge(rcc, nm[0], True)
        ok_cb = q.escape_path(rcc, starts, q.verts(rcc, cont_cb)) is None
    recv = [c for c in hr_.calls() if to_state(c, 'st_resend_request_received') and hrc.has_vertex(c)]
    cont_hr = [c for c in hr_.calls() if to_state(c, 'st_continuous') and hrc.has_vertex(c)]
    ctx.need(recv, 'handle_resend_request: do_state_change(st_resend_request_received) not found')
    ok_hr = bool(cont_hr) and all(q.escape_path(hrc, [x for (x, lab) in hrc.succ[hrc.vertex_of(r_)]], q.verts(hrc, cont_hr)) is None for r_ in recv)
    ctx.check(ok_cb or ok_hr, 'R20.7', S + 'handle_resend_request#continuous-again', recv[0].loc,
              'after serving a ResendRequest the state returns to continuous on every path (%s)' % ('in the completion branch of retrans_callback' if ok_cb else 'in handle_resend_request'),
              'the return to st_continuous after a served ResendRequest is conditional (e.g. on the number of records replayed): a request whose range holds no stored '
              'application message leaves the session in st_resend_request_received, where the next inbound gap throws InvalidMsgSequence and ends the session')
    reset_by_value_rule(ctx, prog, 'R20.5')
    from . import c16 as _c16
    _c16.start_numbers_rule(ctx, prog, 'R20.6')
    ctx.floor('R20.4', 2)
    ctx.floor('R20.2', 4)
