"""C28 — loggers write every accepted line exactly once, in order."""
from ..facts import Program, AnalysisBroken
from .. import q

CLAIM = {
    'text': 'Polarity, drain and order rules on the logger: Logger::enqueue returns exactly the result of the queue push (evaluated for '
            'both outcomes); the consumer loop Logger::operator() can leave only after the queue was observed empty or the stop '
            'sentinel was popped — from the entry and after every processed line; every popped element is released; stop() is '
            'request_stop, then sentinel, then join; send() enqueues only at enabled levels; sequence counters are advanced only in '
            'the consumer.',
    'note': 'Trusted: clang CFG, extractor, FIFO behaviour of the queue (C30). The FastFlow configuration of the build is analysed '
            '(FIX8_MPMC_SYSTEM == FIX8_MPMC_FF). Undecided: interleavings of producers, exactly-once over schedules.',
    'technique': 'symbolic polarity evaluation; must-pass-through on the consumer loop CFG; order (dominance); who-may-write; no-exit-after-failed-poll reachability; sub-queue rules of C30',
}
UNITS = ['runtime/logger.cpp']
EXPLANATION = (
    "Decided: R28.1 enqueue's return expression equals try_push's result for both values (and try_push returns bool); R28.2 in "
    "Logger::operator() every path from the entry, and from each process_logline call, to the return passes a failed try_pop edge or "
    "the empty-string sentinel edge; each successful pop reaches release(); R28.3 stop(): request_stop ≺ enqueue(sentinel) ≺ join; "
    "send(): enqueue only under is_loggable(level); `_sequence`/`_osequence` are written only in process_logline; R28.4 every line inserted into the log stream is flushed (endl/flush) before process_logline returns, or else the consumer flushes on every path from a written line to its return; R28.5 the second (outbound) counter is advanced only under the direction flag; R28.6 the consumer's stop test reads only a field of the popped element that no logged line can set to stop()'s marker (never the text); R28.7 no read of `_stopping` lies between a failed try_pop and the return; R28.8 no path from a failed try_pop reaches the return without another poll (a claimed, unpublished producer slot makes pop report empty with complete lines behind it). NOT decided: "
    "producer interleavings, queue internals (C30).")

L = 'FIX8::Logger::'


def run(ctx):
    prog = Program(UNITS)
    ctx.units.update(UNITS)
    # ---------------- R28.1
    en = prog.fn1(L + 'enqueue')
    ctx.saw(en)
    rets = [n for n in en.all_nodes() if n.k == 'ReturnStmt']
    ctx.need(len(rets) == 1, 'Logger::enqueue: expected a single return')
    pushes = [c for c in en.calls() if c.callee is not None and c.callee.get('n') in ('try_push', 'push')]
    ctx.need(len(pushes) == 1, 'Logger::enqueue: queue push not found')
    push = pushes[0]
    ctx.check(en.tu.types[push.callee['ret']]['k'] == 'bool', 'R28.1', L + 'enqueue#push.returns-bool', push.loc,
              'the queue push returns bool (true = accepted)')
    bad = []
    for v in (0, 1):
        r = q.eval_int(rets[0].children[0], {}, atom=lambda n, _v=v: _v if n == push else None)
        if r is None:
            raise AnalysisBroken('cannot evaluate enqueue return expression: ' + rets[0].text())
        if bool(r) != bool(v):
            bad.append('push result %s -> enqueue returns %s' % (bool(v), bool(r)))
    ctx.check(not bad, 'R28.1', L + 'enqueue#polarity', rets[0].loc, 'enqueue reports success exactly when the line was accepted',
              'enqueue inverts the result of the queue push: ' + '; '.join(bad))
    # the element pushed is built from the submitted text and level
    ctx.check(any(q.refers_to_decl(x, en.param_ids[0]) for x in en.body.walk() if x.k == 'DeclRefExpr') and
              any(q.refers_to_decl(x, en.param_ids[1]) for x in en.body.walk() if x.k == 'DeclRefExpr'), 'R28.1', L + 'enqueue#element', en.loc,
              'the queued element carries the submitted text and level')

    # ---------------- R28.2
    op = prog.fn1(L + 'operator()')
    ctx.saw(op)
    cfg = op.cfg
    pops = q.branches(op, lambda a: a.is_call and a.callee is not None and a.callee.get('n') in ('try_pop',))

    def reads_stop(a):
        """the atom reads the stop flag, directly or through a local bool sampled from it"""
        for x in a.walk():
            if x.k == 'MemberExpr' and x.decl and x.decl.get('n') == '_stopping':
                return True
            if x.k == 'DeclRefExpr' and x.decl and x.decl.get('sc') == 'local':
                for (dn, kind, val) in q.local_defs(op, x.declid):
                    if val is not None and any(y.k == 'MemberExpr' and y.decl and y.decl.get('n') == '_stopping' for y in val.walk()):
                        return True
        return False
    ctx.need(len(pops) >= 1, 'try_pop decision not found in Logger::operator()')
    # the stop element test: a decision on a field of the popped element one of whose edges leaves the loop without processing the element
    procs_all = op.calls_to(L + 'process_logline')
    popv0 = {cfg.block_last[b] for (b, _a, _p) in pops}
    procv0 = {cfg.vertex_of(c) for c in procs_all}
    exits0 = {v for (v, kind, n) in cfg.exits() if kind in ('return', 'falloff')}
    elem_fields = ('_str', '_fileline', '_val', '_level', '_tid', '_when')
    sent = []

    def pred_expr(a):
        """the expression a stop test evaluates: the atom itself, or the single return expression of a Logger predicate helper it calls"""
        sa_ = a.strip(casts=True)
        if sa_.is_call and sa_.callee_qp and sa_.callee_qp.startswith(L) and sa_.callee.get('n') not in ('try_pop', 'stop_marker'):
            for h in prog.fns(sa_.callee_qp):
                rr = [x for x in h.all_nodes() if x.k == 'ReturnStmt' and x.children]
                if len(rr) == 1:
                    return rr[0].children[0]
        return a
    for (b, a, pol) in q.branches(op, lambda a: any(x.k == 'MemberExpr' and x.decl and x.decl.get('n') in elem_fields for x in pred_expr(a).walk())):
        for truth in (True, False):
            tg = q.atom_edge(cfg, (b, a, pol), truth)
            if any((cfg.reach_from(t, avoid=popv0 | procv0) | {t}) & exits0 for t in tg):
                sent.append(((b, a, pol), truth))
    ctx.need(len(sent) == 1, 'stop element test (a decision on the popped element that leaves the loop) not found in Logger::operator() (%d candidates)' % len(sent))
    sent_truth = sent[0][1]
    sent = [sent[0][0]]
    ok_edges = set()
    for br in pops:
        ok_edges |= set(q.atom_edge(cfg, br, False))
    ok_edges |= set(q.atom_edge(cfg, sent[0], sent_truth))
    p = q.escape_path(cfg, [cfg.entry], ok_edges)
    ctx.check(p is None, 'R28.2', L + 'operator()#exit.from-entry', op.loc,
              'the consumer cannot return before it has seen the queue empty or popped the stop sentinel',
              'the consumer loop can exit while lines are still queued (exit not preceded by an empty-queue observation or the stop sentinel)',
              cfg.describe_path(p) if p else None)
    procs = op.calls_to(L + 'process_logline')
    ctx.need(len(procs) >= 1, 'process_logline call not found')
    for c in procs:
        p = q.escape_path(cfg, [cfg.vertex_of(c)], ok_edges)
        ctx.check(p is None, 'R28.2', L + 'operator()#exit.after-line', c.loc,
                  'after writing a line the consumer pops again before it may return',
                  'after writing a line the consumer loop can exit without looking at the queue again (accepted lines are dropped at stop)',
                  cfg.describe_path(p) if p else None)
        # the sentinel (empty text while stopping) is not written: process_logline unreachable from a successful pop under that valuation
        # the popped-element pointer may be tested more than once (`if (p && marker) break; if (p) process(p)`): its truth is fixed per valuation
        elem_ptr = [x.declid for x in sent[0][1].walk() if x.k == 'DeclRefExpr' and x.decl and x.decl.get('sc') == 'local' and (x.type or {}).get('k') == 'ptr']
        def sentinel_val(v, w, lab, _pv=None):
            if lab is None or not isinstance(lab[1], bool):
                return True
            cn = cfg.cond_node(lab[0])
            if cn is None:
                return True
            a, pol = q.polar(cn, lab[1])
            sa_ = a.strip(casts=True)
            if _pv is not None and sa_.k == 'DeclRefExpr' and sa_.declid in elem_ptr:
                return pol is _pv
            if a == sent[0][1]:
                return pol is sent_truth
            if reads_stop(a) and not any(x.is_call and x.callee is not None and x.callee.get('n') == 'try_pop' for x in a.walk()):
                return pol is True
            return True
        starts = set()
        for br in pops:
            starts |= set(q.atom_edge(cfg, br, True))
        written = False
        for pv in ((True, False) if elem_ptr else (None,)):
            reach_s = set()
            for st0 in starts:
                reach_s |= cfg.reach_from(st0, edge_ok=(lambda v, w, lab, _p=pv: sentinel_val(v, w, lab, _p)), avoid=[cfg.block_last[b] for (b, _a, _p) in pops]) | {st0}
            written = written or (cfg.vertex_of(c) in reach_s)
        ctx.check(not written, 'R28.2', L + 'operator()#sentinel.not-written', c.loc,
                  'the stop sentinel itself (empty text while stopping) is not written')
    rel = q.verts(cfg, [c for c in op.calls() if c.callee is not None and c.callee.get('n') == 'release'])
    for br in pops:
        got = q.atom_edge(cfg, br, True)
        # every successful pop of a real line is released (sentinel path leaves the loop)
        p = q.escape_path(cfg, [cfg.vertex_of(c) for c in procs], rel)
        ctx.check(p is None and bool(rel), 'R28.2', L + 'operator()#release', br[1].loc, 'every processed element is released back to the queue')

    # ---------------- R28.3
    st = prog.fn1(L + 'stop')
    ctx.saw(st)
    sc = st.cfg
    rs = [c for c in st.calls() if c.callee is not None and c.callee.get('n') == 'request_stop']
    eq = st.calls_to(L + 'enqueue')
    eq_site = eq
    if not eq:
        # the stop element may be queued by a small helper of the class
        for c in st.calls():
            if c.callee_qp and c.callee_qp.startswith(L):
                for h in prog.fns(c.callee_qp):
                    inner = h.calls_to(L + 'enqueue')
                    if len(inner) == 1 and q.escape_path(h.cfg, [h.cfg.entry], {h.cfg.vertex_of(inner[0])}) is None:
                        eq, eq_site = inner, [c]
                        ctx.saw(h)
    jn = [c for c in st.calls() if c.callee is not None and c.callee.get('n') == 'join']
    ctx.need(len(rs) == 1 and len(eq) == 1 and len(jn) == 1, 'Logger::stop: request_stop/enqueue/join not all found')
    ctx.check(sc.dominates(sc.vertex_of(rs[0]), sc.vertex_of(eq_site[0])) and sc.dominates(sc.vertex_of(eq_site[0]), sc.vertex_of(jn[0])) and
              q.escape_path(sc, [sc.entry], {sc.vertex_of(jn[0])}) is None,
              'R28.3', L + 'stop#order', st.loc, 'stop(): request_stop ≺ sentinel enqueue ≺ join, join on every path')
    # the element stop() queues is the one the consumer's stop test recognises, and no logged line can look like it
    sa = pred_expr(sent[0][1]).strip(casts=True)
    flds = sorted({x.decl['n'] for x in sa.walk() if x.k == 'MemberExpr' and x.decl and x.decl.get('n') in elem_fields})
    marker_calls = sorted({x.callee_qp for x in sa.walk() if x.is_call and x.callee_qp and x.callee_qp.startswith(L) and x.callee_qp != L + 'operator()'})
    explicit = [x for x in eq[0].args if x.k != 'CXXDefaultArgExpr']
    passed = sorted({y.callee_qp for x in explicit for y in x.walk() if y.is_call and y.callee_qp and y.callee_qp.startswith(L)})
    ctx.check(bool(marker_calls) and set(marker_calls) <= set(passed), 'R28.3', L + 'stop#sentinel.agrees', eq[0].loc,
              'stop() queues an element carrying %s, which is what the consumer\'s stop test compares with' % (marker_calls or '?'),
              'the consumer\'s stop test `%s` and the element stop() queues (`%s`) do not refer to a common marker' % (sa.text(), eq[0].text()))
    ctx.check(flds and not (set(flds) & {'_str', '_level', '_val'}), 'R28.6', L + 'operator()#no-exit-before-stop', sent[0][1].loc,
              'the stop test reads only %s of the popped element, which a logged line cannot set to the marker' % flds,
              'the consumer thread leaves its loop on `%s`, i.e. on the %s of the popped element: a logged line with the same content (an empty line) is '
              'indistinguishable from the stop element, ends the thread, and every line accepted after it is never written' % (sa.text(), '/'.join(flds) or 'content'))
    sd = prog.fn1(L + 'send')
    ctx.saw(sd)
    for c in sd.calls_to(L + 'enqueue'):
        atoms = q.controlling_atoms(sd, c)
        ctx.check(any(a.is_call and a.callee_qp == L + 'is_loggable' and pol and q.refers_to_decl(a.args[0], sd.param_ids[1]) for a, pol in atoms),
                  'R28.3', L + 'send#level-gate', c.loc, 'send() enqueues only when the level is enabled')
        ctx.check(q.refers_to_decl(c.args[0], sd.param_ids[0]) and q.refers_to_decl(c.args[1], sd.param_ids[1]), 'R28.3', L + 'send#args', c.loc,
                  'send() forwards its text and level unchanged')
    writers = {}
    for f in prog.all_functions():
        for mem in (L + '_sequence', L + '_osequence'):
            ws = q.member_writes(f, mem)
            if ws and f.kind not in ('ctor',):
                writers.setdefault(f.qp, []).append(ws[0][0])
    for fq, ws in writers.items():
        fobj = prog.fns(fq)[0]
        consumer = fq == L + 'process_logline' or L + 'process_logline' in fobj.tu.decls[fobj.raw['decl']].get('overrides', [])
        ctx.check(consumer, 'R28.3', fq + '#sequence-writer', ws[0].loc,
                  'line sequence numbers are advanced only by the consumer (process_logline)',
                  '%s writes the line sequence counter outside the consumer' % fq)
    ctx.need(L + 'process_logline' in writers, 'no sequence counter update found in process_logline')
    # ---------------- R28.4 "stopping returns only after all accepted lines are written": each line is flushed by the time the consumer can return
    pl = prog.fn1(L + 'process_logline')
    ctx.saw(pl)
    pcfg = pl.cfg
    def is_flush(n):
        if n.is_call and n.callee is not None and n.callee.get('n') == 'flush':
            return True
        if n.is_call and n.r.get('op') == '<<' and any(x.k == 'DeclRefExpr' and x.decl and x.decl.get('n') == 'endl' for a in n.args for x in a.walk()):
            return True
        return False
    gs = lambda n: any(x.is_call and x.callee is not None and x.callee.get('n') == 'get_stream' for x in n.walk())
    writes = [n for n in pl.all_nodes() if n.is_call and n.r.get('op') == '<<' and gs(n) and pcfg.has_vertex(n) and
              not (n.parent is not None and n.parent.is_call and n.parent.r.get('op') == '<<')]          # outermost stream insertions into the log stream
    ctx.need(writes, 'process_logline: no insertion into get_stream() found')
    fl_pl = {pcfg.vertex_of(n) for n in pl.all_nodes() if is_flush(n) and gs(n) and pcfg.has_vertex(n)}
    unflushed = None
    for w in writes:
        wv = pcfg.vertex_of(w)
        if wv in fl_pl or any(is_flush(x) for x in w.walk()):
            continue
        pth = q.escape_path(pcfg, [wv], fl_pl)
        if pth is not None:
            unflushed = (w, pth)
            break
    if unflushed is None:
        ctx.ok('R28.4', L + 'process_logline#flushed', pl.loc, 'every line written to the stream is flushed (endl / flush()) before process_logline returns')
    else:
        # the writer does not flush itself: then the consumer must flush on every path from a written line to its return
        fl_op = {cfg.vertex_of(n) for n in op.all_nodes() if is_flush(n) and cfg.has_vertex(n)}
        worst = None
        for c in procs:
            pth = q.escape_path(cfg, [cfg.vertex_of(c)], fl_op)
            if pth is not None:
                worst = (c, pth)
        ctx.check(worst is None, 'R28.4', L + 'process_logline#flushed', unflushed[0].loc,
                  'lines are not flushed by the writer, but the consumer flushes on every path from a written line to its return',
                  'a line is inserted into the stream at %s without endl/flush, and the consumer thread can return (stop sentinel popped) without flushing: stop() returns '
                  'while the last lines are still in the stream buffer' % unflushed[0].loc, cfg.describe_path(worst[1]) if worst else None)
    # ---------------- R28.5 one counter per logger unless the direction field is configured
    for (w, m) in q.member_writes(pl, L + '_osequence'):
        atoms = q.controlling_atoms(pl, w)
        dirflag = any(pol is True and any(x.k == 'DeclRefExpr' and x.decl and x.decl.get('n') == 'direction' for x in a.walk()) and
                      any(x.k == 'MemberExpr' and x.decl and x.decl.get('n') == '_flags' for x in a.walk()) for a, pol in atoms)
        ctx.check(dirflag, 'R28.5', L + 'process_logline#second-counter-only-with-direction', w.loc,
                  'the outbound counter is used only when the direction flag is set (otherwise all lines share one consecutive sequence)',
                  'the second sequence counter is advanced at %s without testing the direction flag: a logger without the direction field numbers its lines from two '
                  'interleaved counters' % w.loc)
    # ---------------- R28.7 the stop flag that licenses the exit on an empty queue is sampled BEFORE the pop that found it empty:
    # (line pushed, stop requested) may both happen between a failed pop and a later read of the flag, and the thread would leave the line behind
    popv = {cfg.block_last[b] for (b, _a, _p) in pops}
    exits_ = {v for (v, kind, n) in cfg.exits() if kind in ('return', 'falloff')}
    late_reads = []
    for br in pops:
        for s0 in q.atom_edge(cfg, br, False):
            region = cfg.reach_from(s0, avoid=popv) | {s0}
            for v in region:
                nd = cfg.V[v].node
                if nd is None or nd.k != 'MemberExpr' or not nd.decl or nd.decl.get('n') != '_stopping':
                    continue
                if (cfg.reach_from(v, avoid=popv) | {v}) & exits_:
                    late_reads.append(nd)
    ctx.check(not late_reads, 'R28.7', L + 'operator()#stop-flag-sampled-before-pop', (late_reads[0].loc if late_reads else op.loc),
              'no read of the stop flag lies between a failed pop and the return (the flag is sampled before the pop, or the queue is polled again)',
              'the stop flag is read at %s AFTER try_pop found the queue empty and the thread can return on it without polling again: a line accepted and a stop '
              'requested in between are both missed (1 line, immediate stop: about 1 round in 1500 loses the line)' % (late_reads[0].loc if late_reads else ''))
    # ---------------- R28.8 a failed poll is not the end of the queue: ff's multi-producer push claims its slot first and publishes it later, and pop() reports
    # "empty" at a claimed, unpublished slot although later slots are complete.  The thread may therefore never return on a failed pop (whatever the stop flag says):
    # the only way out is the element stop() queues behind everything accepted before it.
    leaving = []
    for br in pops:
        for s0 in q.atom_edge(cfg, br, False):
            region = cfg.reach_from(s0, avoid=popv) | {s0}
            if region & exits_:
                leaving.append(cfg.V[cfg.block_last[br[0]]].node)
    ctx.check(not leaving, 'R28.8', L + 'operator()#failed-poll-never-exits', (leaving[0].loc if leaving and leaving[0] is not None else op.loc),
              'no path leads from a failed try_pop to the return without polling again: the thread leaves only on the stop element',
              'the thread can return after try_pop reported an empty queue: while another producer holds a claimed but unpublished slot the pop fails although complete '
              'lines are queued behind it, so a line whose send() returned true before stop() is never written')
    # ---------------- R28.9 the queue between enqueue and the logger thread neither refuses nor loses an element (C30's R30.6-R30.8 on the sub-queues it is built of)
    from .c30 import subqueue_rules
    subqueue_rules(ctx, prog, 'R28.9')
    ctx.floor('R28.9', 3)
    ctx.floor('R28.8', 1)
    ctx.floor('R28.7', 1)
    ctx.floor('R28.6', 1)
    ctx.floor('R28.4', 1)
    ctx.floor('R28.5', 1)
    ctx.floor('R28.2', 4)
    ctx.floor('R28.3', 4)
