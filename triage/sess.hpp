// session-level triage harness: a Session wired to the utests mock connection (captures output strings)
#include "precomp.hpp"
#include <fix8/f8config.h>
#include <errno.h>
#define F8MOCK_CONNECTION 1
#include <fix8/f8includes.hpp>
#include "utest_types.hpp"
#include "utest_router.hpp"
#include "utest_classes.hpp"
#include "../runtime/session.cpp"
using namespace FIX8;
using namespace FIX8::UTEST;

class test_session : public FIX8::Session
{
    utest_Router _router;
public:
    unsigned delivered = 0;
    std::vector<unsigned> delivered_seq;
    test_session(const F8MetaCntx& ctx, const SessionID& sid, Persister *persist=0, Logger *logger=0, Logger *plogger=0)
        : Session(ctx, sid, persist, logger, plogger) { _timer.clear(); _timer.stop(); _timer.join(); }
    bool handle_application(const unsigned seqnum, const Message *&msg)
    {
        if (enforce(seqnum, msg)) return false;
        ++delivered; delivered_seq.push_back(seqnum);
        return msg->process(_router);
    }
    States::SessionStates getState() { return _state; }
    unsigned nrs() { return _next_receive_seq; }
    unsigned nss() { return _next_send_seq; }
    void set_nss(unsigned v) { _next_send_seq = v; }
    void set_last_received(const Tickval& v) { _last_received = v; }
    void set_last_sent(const Tickval& v) { _last_sent = v; }
    void kickHB() { heartbeat_service(); }
    LoginParameters& lp() { return _loginParameters; }
};

struct Fix
{
    MemoryPersister *per;
    test_session *ss;
    ClientConnection *conn;
    unsigned rseq = 1;
    Fix(bool with_persist = true)
    {
        SessionID id("FIX.4.2:A12345B->COMPARO");
        per = with_persist ? new MemoryPersister : nullptr;
        ss = new test_session(ctx(), id, per, nullptr, nullptr);
        Poco::Net::SocketAddress addr("127.0.0.1:80");
        conn = new ClientConnection(0, addr, *ss, pm_thread, false);
        conn->connect();
        ss->start(conn, false);
    }
    std::vector<f8String> out() { auto r = conn->_output; conn->_output.clear(); return r; }
    void recv_header(MessageBase *h, unsigned seq)
    {
        *h << new msg_seq_num(seq) << new sender_comp_id("COMPARO") << new sending_time() << new target_comp_id("A12345B");
    }
    f8String enc(Message *m) { f8String s; m->encode(s); delete m; return s; }
    void logon()
    {
        Logon *l(new Logon); recv_header(l->Header(), rseq++);
        *l << new HeartBtInt(5) << new EncryptMethod(0);
        ss->process(enc(l));
        out();
    }
    f8String order(unsigned seq, bool possdup = false)
    {
        NewOrderSingle *nos(new NewOrderSingle); recv_header(nos->Header(), seq);
        if (possdup) *nos->Header() << new poss_dup_flag(true) << new orig_sending_time();
        *nos << new TransactTime("20130305-02:19:46.108") << new OrderQty(50) << new Price(400.5) << new ClOrdID("4")
             << new HandlInst(HandlInst_AUTOMATED_EXECUTION_ORDER_PRIVATE_NO_BROKER_INTERVENTION) << new OrdType(OrdType_LIMIT)
             << new Side(Side_BUY) << new Symbol("OC") << new TimeInForce(TimeInForce_DAY);
        return enc(nos);
    }
    Message *out_order()
    {
        NewOrderSingle *nos(new NewOrderSingle);
        *nos << new TransactTime("20130305-02:19:46.108") << new OrderQty(50) << new Price(400.5) << new ClOrdID("4")
             << new HandlInst(HandlInst_AUTOMATED_EXECUTION_ORDER_PRIVATE_NO_BROKER_INTERVENTION) << new OrdType(OrdType_LIMIT)
             << new Side(Side_BUY) << new Symbol("OC") << new TimeInForce(TimeInForce_DAY);
        return nos;
    }
};
namespace FIX8 {
bool f8mock_send_process(Session& s, Message *m) { return s.send_process(m); }
void f8mock_delete(Message *m) { delete m; }
void f8mock_set_eob(Message *m, bool v) { m->set_end_of_batch(v); }
}
