// R08.4: a fraction of all nines that rounds up on the exact-half branch must carry into the whole part.
// Field<double,N>::print renders through modp_dtoa(value, buf, precision).
#include <fix8/f8includes.hpp>
#include <cmath>
#include <cstdio>
using namespace FIX8;
int main()
{
    bool ok = true;
    struct { double v; int prec; } cases[] = { {0.95, 1}, {1.95, 1}, {0.995, 2}, {7.95, 1}, {0.9995, 3}, {0.25, 1}, {0.99, 1}, {0.5, 0}, {2.5, 0}, {1.5, 0} };
    for (auto& c : cases)
    {
        char buf[64]; modp_dtoa(c.v, buf, c.prec);
        double back = std::atof(buf);
        // correctly rounded at precision p means |rendered - value| <= half a unit of the last digit
        double half = 0.5 * std::pow(10., -c.prec) + 1e-12;
        if (std::fabs(back - c.v) > half) { ok = false; std::printf("modp_dtoa(%.17g, prec %d) = \"%s\"\n", c.v, c.prec, buf); }
    }
    std::puts(ok ? "HOLDS" : "DEFECT: exact-half rounding of an all-nines fraction loses the carry");
    return ok ? 0 : 1;
}
