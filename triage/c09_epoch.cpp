// R09.1: time_to_epoch for dates after 2038-01-19 (int overflow in tdays * 86400).
#include <fix8/f8includes.hpp>
using namespace FIX8;
int main()
{
    bool ok = true;
    for (int year : {2037, 2038, 2039, 2099})
    {
        tm t {}; t.tm_year = year - 1900; t.tm_mon = 5; t.tm_mday = 15; t.tm_hour = 12;
        const time_t got(time_to_epoch(t));
        tm u(t); const time_t want(timegm(&u));
        std::cout << year << "-06-15 12:00 -> " << got << " expected " << want << std::endl;
        if (got != want) ok = false;
    }
    char buf[32] {};
    UTCTimestamp *p = nullptr; (void)p;
    std::cout << (ok ? "HOLDS" : "DEFECT: wrong epoch seconds from 2038") << std::endl;
    return ok ? 0 : 1;
}
