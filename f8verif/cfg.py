"""Control-flow analyses over the clang CFG dumped by f8facts.

The CFG is flattened to a graph whose vertices are CFG *elements* (one per evaluated
sub-expression / statement / implicit destructor) plus one entry vertex per block, so that
dominance, post-dominance, reachability-avoiding and reaching-definition queries are answered at
expression granularity.
"""
from .facts import Node, AnalysisBroken


class Vertex:
    __slots__ = ('id', 'block', 'idx', 'el', 'node')

    def __init__(self, vid, block, idx, el, node):
        self.id, self.block, self.idx, self.el, self.node = vid, block, idx, el, node

    def __repr__(self):
        if self.node is not None:
            return 'v%d(B%d.%d %r)' % (self.id, self.block, self.idx, self.node)
        return 'v%d(B%d.%s %s)' % (self.id, self.block, self.idx, self.el)


class CFG:
    def __init__(self, fn):
        self.fn = fn
        raw = fn.raw['cfg']
        self.entry_block, self.exit_block = raw['entry'], raw['exit']
        self.blocks = {b['id']: b for b in raw['blocks']}
        self.V = []              # vertices
        self.succ = []           # vertex id -> [(vertex id, label)]
        self.pred = []
        self.block_in = {}       # block id -> entry vertex id
        self.block_last = {}     # block id -> last vertex id
        self.of_node = {}        # node index -> [vertex ids] (an expression may appear once as statement)
        self.decl_vertex = {}    # decl id -> vertex of the (possibly synthesised, one-declarator) DeclStmt
        for bid, b in self.blocks.items():
            v = self._add(bid, 'in', None, None)
            self.block_in[bid] = v
            last = v
            for i, el in enumerate(b['el']):
                n = Node(fn, el['s']) if 's' in el and 'dtor' not in el else None
                w = self._add(bid, i, el, n)
                if n is not None:
                    self.of_node.setdefault(n.i, []).append(w)
                    if n.k == 'DeclStmt':
                        for d, init in n.r.get('decls', []):
                            self.decl_vertex.setdefault(d, w)
                self.succ[last].append((w, None))
                last = w
            self.block_last[bid] = last
        for bid, b in self.blocks.items():
            last = self.block_last[bid]
            succs = b['succ']
            tk = b.get('tk')
            for k, s in enumerate(succs):
                if s is None:
                    continue
                label = None
                if len(succs) == 2 and b.get('cond') is not None and tk not in ('SwitchStmt', 'CXXTryStmt') and not b.get('tdtor'):
                    label = (bid, k == 0)
                elif tk == 'SwitchStmt':
                    label = (bid, ('case', s))
                self.succ[last].append((self.block_in[s], label))
        self._thread_short_circuits()
        # Exceptional flow is not modelled by clang's CFG (EH edges off): the blocks that dispatch to catch
        # handlers have no predecessor. Make them successors of the function entry, i.e. assume a handler
        # may be entered at any time: handlers then have no dominators from the try body (conservative for
        # must-dominate rules) and are visible to reachability from the entry.
        self.try_blocks = []
        haspred = set()
        for bid, b in self.blocks.items():
            for s in b['succ']:
                if s is not None:
                    haspred.add(s)
        for bid, b in self.blocks.items():
            if b.get('tk') == 'CXXTryStmt' and bid not in haspred and bid != self.entry_block:
                self.try_blocks.append(bid)
                src = self._try_body_entry(b) or self.block_in[self.entry_block]
                self.succ[src].append((self.block_in[bid], ('eh', bid)))
        self.pred = [[] for _ in self.V]
        for v, ss in enumerate(self.succ):
            for (w, lab) in ss:
                self.pred[w].append((v, lab))
        self.entry = self.block_in[self.entry_block]
        self.exit = self.block_in[self.exit_block]
        self._dom = None
        self._pdom = None
        self._reach = {}

    def _thread_short_circuits(self):
        """When a condition contains temporaries, clang evaluates `L && R` as a value: the short-circuit
        edge of L does not go to the if's else-branch but to the block that branches on the whole
        expression (a join). On that edge the value of the whole condition is already decided; thread
        the edge to the corresponding successor so that path queries stay exact."""
        for bid, b in self.blocks.items():
            if b.get('tk') != 'BinaryOperator' or b.get('term') is None:
                continue
            t = Node(self.fn, b['term']).strip()
            if t.k != 'BinaryOperator' or t.op not in ('&&', '||'):
                continue
            last = self.block_last[bid]
            new = []
            for (w, lab) in self.succ[last]:
                tgt = self.V[w].block
                y = self.blocks[tgt]
                if lab is None or not isinstance(lab[1], bool) or y.get('cond') is None or len(y['succ']) != 2 or w != self.block_in[tgt]:
                    new.append((w, lab))
                    continue
                way = lab[1]
                short = (t.op == '&&' and way is False) or (t.op == '||' and way is True)
                if not short:
                    new.append((w, lab))
                    continue
                root = Node(self.fn, y['cond'])
                val = self._propagate(t, way, root)
                if val is None or y['succ'][0 if val else 1] is None:
                    new.append((w, lab))
                    continue
                new.append((self.block_in[y['succ'][0 if val else 1]], lab))
            self.succ[last] = new

    def _propagate(self, t, v, root):
        """value of `root` given that its sub-expression `t` has value v and evaluation went straight
        from t to the branch on root (nothing else evaluated in between); None if not determined"""
        cur = t
        parents = self.fn.parents
        while True:
            if cur.i == root.i or cur.i == root.strip().i:
                return v
            p = parents.get(cur.i)
            if p is None:
                return None
            pn = Node(self.fn, p)
            if pn.k in ('ParenExpr', 'ImplicitCastExpr', 'ExprWithCleanups', 'MaterializeTemporaryExpr', 'CXXBindTemporaryExpr'):
                cur = pn
                continue
            if pn.k == 'UnaryOperator' and pn.op == '!':
                v = not v
                cur = pn
                continue
            if pn.k == 'BinaryOperator' and pn.op in ('&&', '||'):
                is_lhs = pn.children[0].i == cur.i
                if is_lhs:
                    if (pn.op == '||' and v) or (pn.op == '&&' and not v):
                        cur = pn
                        continue
                    return None
                cur = pn           # RHS: the LHS did not short-circuit, the value is the RHS value
                continue
            return None

    def _try_body_entry(self, b):
        """block-entry vertex of the block through which control enters the body of the try statement
        that terminates block b (first body vertex met in a BFS from the function entry)"""
        t = b.get('term')
        if t is None:
            return None
        tn = Node(self.fn, t)
        ch = tn.children
        if not ch:
            return None
        body = {x.i for x in ch[0].walk()}
        seen = {self.block_in[self.entry_block]}
        queue = [self.block_in[self.entry_block]]
        qi = 0
        while qi < len(queue):
            v = queue[qi]
            qi += 1
            vx = self.V[v]
            if vx.node is not None and vx.node.i in body:
                return self.block_in[vx.block]
            for (w, lab) in self.succ[v]:
                if w not in seen:
                    seen.add(w)
                    queue.append(w)
        return None

    def _add(self, block, idx, el, node):
        v = len(self.V)
        self.V.append(Vertex(v, block, idx, el, node))
        self.succ.append([])
        return v

    # ------------------------------------------------------------------ lookup
    def vertex_of(self, node):
        """the vertex at which `node` is evaluated (its own CFG element). With setAllAlwaysAdd every
        expression is an element; statements that are not (CompoundStmt, IfStmt…) raise."""
        i = node.i if isinstance(node, Node) else node
        vs = self.of_node.get(i)
        if not vs and isinstance(node, Node) and node.k == 'DeclStmt':
            # `T a, b;` is split by clang's CFG into one synthesised DeclStmt per declarator
            ds = [self.decl_vertex[d] for d, _ in node.r.get('decls', []) if d in self.decl_vertex]
            if ds:
                return ds[-1]
        if not vs:
            raise AnalysisBroken('node %r is not a CFG element of %s (unreachable code or pruned edge?)' % (node, self.fn.q))
        return vs[0]

    def has_vertex(self, node):
        if self.of_node.get(node.i):
            return True
        return node.k == 'DeclStmt' and any(d in self.decl_vertex for d, _ in node.r.get('decls', []))

    def handler_entry(self, pred):
        """entry vertex of the catch handler whose CXXCatchStmt node satisfies pred"""
        for bid, b in self.blocks.items():
            lb = b.get('label')
            if lb is not None:
                n = Node(self.fn, lb)
                if n.k == 'CXXCatchStmt' and pred(n):
                    return self.block_in[bid]
        return None

    def cond_node(self, block):
        """the expression whose value decides this block's branch. For `if (a && b)` clang reports the
        whole `a && b` as the condition of the block that ends in the IfStmt, but that block is only
        entered once `a` did not short-circuit: the deciding value is the right-most operand."""
        c = self.blocks[block].get('cond')
        if c is None:
            return None
        n = Node(self.fn, c)
        while True:
            s = n.strip()
            if s.k == 'BinaryOperator' and s.op in ('&&', '||') and self.blocks[block].get('term') != s.i:
                n = s.children[1]
                continue
            return n

    def term_node(self, block):
        c = self.blocks[block].get('term')
        return Node(self.fn, c) if c is not None else None

    # ------------------------------------------------------------------ dominators
    def _idom(self, succ, pred, root):
        n = len(self.V)
        order, seen = [], [False] * n
        # iterative DFS postorder
        stack = [(root, iter([w for (w, _) in succ[root]]))]
        seen[root] = True
        while stack:
            v, it = stack[-1]
            adv = False
            for w in it:
                if not seen[w]:
                    seen[w] = True
                    stack.append((w, iter([x for (x, _) in succ[w]])))
                    adv = True
                    break
            if not adv:
                order.append(v)
                stack.pop()
        rpo = list(reversed(order))
        num = {v: i for i, v in enumerate(rpo)}
        idom = {root: root}
        changed = True
        while changed:
            changed = False
            for v in rpo[1:]:
                new = None
                for (p, _) in pred[v]:
                    if p in idom:
                        if new is None:
                            new = p
                        else:
                            a, b = p, new
                            while a != b:
                                while num[a] > num[b]:
                                    a = idom[a]
                                while num[b] > num[a]:
                                    b = idom[b]
                            new = a
                if new is not None and idom.get(v) != new:
                    idom[v] = new
                    changed = True
        return idom

    @property
    def idom(self):
        if self._dom is None:
            self._dom = self._idom(self.succ, self.pred, self.entry)
        return self._dom

    @property
    def ipdom(self):
        """post-dominators w.r.t. a virtual sink joined from EXIT and from every vertex without
        successors (noreturn calls, throw outside try)."""
        if self._pdom is None:
            n = len(self.V)
            sink = n
            self.V.append(Vertex(sink, -1, 'sink', None, None))
            succ = [list(s) for s in self.succ] + [[]]
            for v in range(n):
                if not succ[v]:
                    succ[v].append((sink, None))
            pred = [[] for _ in range(n + 1)]
            for v, ss in enumerate(succ):
                for (w, lab) in ss:
                    pred[w].append((v, lab))
            self._pdom = self._idom(pred, succ, sink)
            self.V.pop()
        return self._pdom

    def reachable(self, v):
        return v in self.idom

    def dominates(self, a, b):
        """vertex a dominates vertex b (every path entry→b passes a). Unreachable b: vacuous True."""
        idom = self.idom
        if b not in idom:
            return True
        if a not in idom:
            return False
        x = b
        while True:
            if x == a:
                return True
            p = idom[x]
            if p == x:
                return False
            x = p

    def postdominates(self, a, b):
        """every path from b to the function's end (any exit) passes a"""
        ip = self.ipdom
        if b not in ip:
            return True
        x = b
        while True:
            if x == a:
                return True
            p = ip.get(x)
            if p is None or p == x or p == len(self.V):
                return False
            x = p

    def ndom(self, a, b):
        return self.dominates(self.vertex_of(a), self.vertex_of(b))

    # ------------------------------------------------------------------ reachability
    def reach_from(self, src, avoid=(), edge_ok=None):
        """set of vertices reachable from src (exclusive of src unless on a cycle) without entering a
        vertex in `avoid`; edge_ok(v, w, label) may veto edges."""
        avoid = set(avoid)
        seen = set()
        stack = [src]
        while stack:
            v = stack.pop()
            for (w, lab) in self.succ[v]:
                if w in seen or w in avoid:
                    continue
                if edge_ok is not None and not edge_ok(v, w, lab):
                    continue
                seen.add(w)
                stack.append(w)
        return seen

    def path(self, src, dst_pred, avoid=(), edge_ok=None):
        """a shortest path (list of vertices) from src to the first vertex satisfying dst_pred that
        does not enter `avoid`; None if there is none."""
        avoid = set(avoid)
        prev = {src: None}
        queue = [src]
        qi = 0
        while qi < len(queue):
            v = queue[qi]
            qi += 1
            for (w, lab) in self.succ[v]:
                if w in prev or w in avoid:
                    continue
                if edge_ok is not None and not edge_ok(v, w, lab):
                    continue
                prev[w] = v
                if dst_pred(w):
                    out = [w]
                    while prev[out[-1]] is not None:
                        out.append(prev[out[-1]])
                    return list(reversed(out))
                queue.append(w)
        return None

    def describe_path(self, path, maxn=12):
        """human-readable: the branch decisions taken along a path"""
        out = []
        for a, b in zip(path, path[1:]):
            for (w, lab) in self.succ[a]:
                if w == b and lab is not None:
                    blk, way = lab
                    c = self.cond_node(blk)
                    if c is not None:
                        out.append('%s:%d [%s] is %s' % (c.loc.split('/')[-1].split(':')[0], c.line, c.text()[:70], way))
                    break
        if len(out) > maxn:
            out = out[:maxn // 2] + ['…'] + out[-maxn // 2:]
        return out

    # ------------------------------------------------------------------ exits
    def exits(self):
        """[(vertex, kind, node)] for every way control leaves the function normally or by throw.
        kind: 'return' (node = ReturnStmt), 'falloff', 'throw' (node = CXXThrowExpr), 'noreturn'."""
        out = []
        for v in self.V:
            if v.node is not None and v.node.k == 'ReturnStmt':
                out.append((v.id, 'return', v.node))
            elif v.node is not None and v.node.k == 'CXXThrowExpr':
                out.append((v.id, 'throw', v.node))
        # fall-off: predecessors of EXIT whose block does not end in return/throw
        for (p, lab) in self.pred[self.exit]:
            pv = self.V[p]
            b = self.blocks[pv.block]
            last_nodes = [Node(self.fn, el['s']) for el in b['el'] if 's' in el and 'dtor' not in el]
            if any(n.k in ('ReturnStmt', 'CXXThrowExpr') for n in last_nodes):
                continue
            if b.get('noreturn'):
                out.append((p, 'noreturn', None))
            else:
                out.append((p, 'falloff', None))
        return out

    # ------------------------------------------------------------------ branch conditions on edges
    def edge_conditions(self, path):
        """[(cond Node, bool)] branch decisions along a vertex path"""
        out = []
        for a, b in zip(path, path[1:]):
            for (w, lab) in self.succ[a]:
                if w == b and lab is not None and isinstance(lab[1], bool):
                    c = self.cond_node(lab[0])
                    if c is not None:
                        out.append((c, lab[1]))
                    break
        return out

    def controlling(self, v, avoid=()):
        """Branch decisions that *dominate* vertex v: [(cond Node, bool)] such that every path from
        entry to v takes that edge. (Edge-dominance computed by testing reachability without the edge.)"""
        out = []
        for bid, b in self.blocks.items():
            if b.get('cond') is None or len(b['succ']) != 2:
                continue
            last = self.block_last[bid]
            if last == v or (not avoid and not self.dominates(last, v)):
                continue
            for way in (True, False):
                other = (bid, not way)
                # is v reachable from `last` using only the other edge first? if not, `way` is forced
                def ok(a, w, lab, _last=last, _way=way, _bid=bid):
                    if a == _last and lab is not None and lab == (_bid, _way):
                        return False
                    return True
                # v unreachable from entry when edge (bid,way) is removed  => edge dominates v
                r = self.reach_from(self.entry, avoid=avoid, edge_ok=ok)
                if v not in r and v != self.entry:
                    out.append((self.cond_node(bid), way))
        return out
