#!/bin/bash
# usage: ./run.sh <name>   (builds triage/<name>.cpp against /repo's built objects, runs it, cleans up)
set -e
here=$(cd "$(dirname "$0")" && pwd); name=$1; R=${F8_REPO:-/repo}
d=$(mktemp -d /var/tmp/f8triage.XXXXXX); trap 'rm -rf "$d"' EXIT
src=$here/$name.cpp
if grep -q '"sess.hpp"' "$src"; then
  cp $R/utests/mockConnection.hpp $R/utests/mockConnection.cpp "$d"/
  # the utests mock bypasses Session::send_process; route writes through it so the send path is exercised
  python3 - "$d"/mockConnection.hpp <<'PY'
import sys,re
p=sys.argv[1]; s=open(p).read()
i=s.index('class Connection')
head,tail=s[:i],s[i:]
tail=re.sub(r'virtual bool write\(Message \*from, bool\)\s*\{.*?return true;\s*\}', 'virtual bool write(Message *from, bool destroy) { bool r = f8mock_send_process(_session, from); if (destroy) f8mock_delete(from); return r; }', tail, count=1, flags=re.S)
tail=re.sub(r'size_t write_batch\(const std::vector<Message \*>& msgs, bool destroy\)\s*\{.*?return msgs.size\(\);\s*\}', 'size_t write_batch(const std::vector<Message *>& msgs, bool destroy) { size_t n=0; for (size_t i=0;i<msgs.size();++i){ f8mock_set_eob(msgs[i], i+1==msgs.size()); if (f8mock_send_process(_session, msgs[i])) ++n; } if (destroy) for (auto *m : msgs) f8mock_delete(m); return n; }', tail, count=1, flags=re.S)
tail=re.sub(r'virtual bool write\(Message& from\)\s*\{.*?return true;\s*\}', 'virtual bool write(Message& from) { return f8mock_send_process(_session, &from); }', tail, count=1, flags=re.S)
head=head.replace('class Session;','class Session; class Message; bool f8mock_send_process(Session&, Message*); void f8mock_delete(Message*); void f8mock_set_eob(Message*, bool);',1)
open(p,'w').write(head+tail)
PY
  g++ -std=gnu++17 -w -DHAVE_CONFIG_H -I"$here" -I"$d" -I$R/utests -I$R/runtime -I$R -I$R/include ${EXTRA} \
     "$src" "$d"/mockConnection.cpp -o "$d"/t \
     $R/runtime/.libs/{logger,f8utils,gzstream,message,modp_numtoa,configuration,xml,persist,filepersist}.o \
     -L$R/utests/.libs -lutest -lPocoFoundation -lPocoNet -lPocoUtil -lPocoJSON -lpthread -lz -Wl,-rpath,$R/utests/.libs
else
  g++ -std=gnu++17 -w -DHAVE_CONFIG_H -I"$here" -I$R/utests -I$R/runtime -I$R -I$R/include ${EXTRA} "$src" -o "$d"/t \
     -L$R/runtime/.libs -L$R/utests/.libs -lutest -lfix8 -lPocoFoundation -lPocoNet -lPocoUtil -lpthread -lz \
     -Wl,-rpath,$R/runtime/.libs:$R/utests/.libs
fi
cd "$d" && ./t
