#!/usr/bin/env python3
"""Development-time helpers for the seeded-change campaign (not registered commands).

  seeded.py confirm <seed-dir> [--wt /tmp/wt/base]
      Independent confirmation of a candidate change in a scratch worktree: demo passes on the clean build, the patch applies,
      the whole tree builds, `make -k check` is 4/4, the demo fails (exit 1) with the patch; the worktree is restored afterwards.
      Prints a JSON record (what was run, outcomes).

  seeded.py drill [<id> ...] [--all-checks]
      For every kept change /verif/seeded/<id>/patch.diff: apply it to /repo's working tree, run the check of the property it
      breaks (or every registered check with --all-checks), undo it (`git checkout -- .`), and print which rule keys reported.
      Writes /verif/seeded/RESULTS.json (committed; this is the "which checks catch which changes" table of DESIGN.md).
"""
import json
import os
import subprocess
import sys
import time

V = os.path.dirname(os.path.dirname(os.path.abspath(__file__)))
R = os.environ.get('F8_REPO', '/repo')      # a side tree for development runs (results are then not saved)
SAVE = R == '/repo'


def sh(cmd, cwd=None, timeout=3600, env=None):
    p = subprocess.run(cmd, shell=isinstance(cmd, str), cwd=cwd, capture_output=True, text=True, timeout=timeout, env=env)
    return p.returncode, p.stdout + p.stderr


def check_summary(wt):
    rc, out = sh('make -k check', cwd=wt)
    tot = {}
    for ln in out.splitlines():
        for k in ('TOTAL', 'PASS', 'FAIL', 'ERROR'):
            if ln.startswith('# %s:' % k):
                tot[k] = int(ln.split(':')[1])
    # the 31 gtest cases
    cases = 0
    for t in ('message_test', 'session_test', 'filePersister_test', 'fileLogger_test'):
        try:
            log = open(os.path.join(wt, 'utests', t + '.log')).read()
            for ln in log.splitlines():
                if ln.startswith('[  PASSED  ]'):
                    cases += int(ln.split()[3])
        except OSError:
            pass
    return rc, tot, cases


def confirm(seed, wt):
    rec = {'seed': seed, 'worktree': wt, 'steps': []}
    def step(name, ok, info=''):
        rec['steps'].append({'step': name, 'ok': bool(ok), 'info': info[-600:]})
        return ok
    patch = os.path.join(seed, 'patch.diff')
    demo = os.path.join(seed, 'demo.sh')
    rc, out = sh('git status --porcelain --untracked-files=no', cwd=wt)
    if not step('worktree clean', out.strip() == '', out):
        return rec
    rc, out = sh('make -j16', cwd=wt)
    if not step('clean tree builds', rc == 0, out):
        return rec
    rc, out = sh(['bash', demo, wt], cwd=seed, timeout=1200)
    step('demo on unmodified tree exits 0', rc == 0, 'rc=%d\n%s' % (rc, out))
    rc, out = sh(['git', 'apply', '--check', patch], cwd=wt)
    if not step('patch applies', rc == 0, out):
        return rec
    try:
        sh(['git', 'apply', patch], cwd=wt)
        rc, out = sh('git diff --stat', cwd=wt)
        rec['diffstat'] = out.strip().splitlines()
        t0 = time.time()
        rc, out = sh('make -j16', cwd=wt)
        step('whole tree builds with the change', rc == 0, out)
        rec['build_s'] = round(time.time() - t0)
        rc, tot, cases = check_summary(wt)
        step('make -k check passes with the change (4 programs, 31 cases)', rc == 0 and tot.get('FAIL', 1) == 0 and tot.get('PASS') == 4 and cases == 31,
             'rc=%d %s gtest cases passed=%d' % (rc, tot, cases))
        rc, out = sh(['bash', demo, wt], cwd=seed, timeout=1200)
        step('demo with the change exits 1', rc == 1, 'rc=%d\n%s' % (rc, out))
    finally:
        sh('git checkout -- .', cwd=wt)
        sh('make -C runtime -j16 && make -C compiler -j16 && make -C utests -j16', cwd=wt)
    rc, out = sh(['bash', demo, wt], cwd=seed, timeout=1200)
    step('demo after undoing the change exits 0', rc == 0, 'rc=%d\n%s' % (rc, out))
    rec['confirmed'] = all(s['ok'] for s in rec['steps'])
    return rec


def drill(ids, all_checks):
    sd = os.path.join(V, 'seeded')
    man = json.load(open(os.path.join(V, 'MANIFEST.json')))
    claimed = [c['property_id'] for c in man['checks']]
    ids = ids or sorted(d for d in os.listdir(sd) if os.path.exists(os.path.join(sd, d, 'meta.json')))
    rc, out = sh('git status --porcelain --untracked-files=no', cwd=R)
    assert out.strip() == '', '/repo is dirty:\n' + out
    resf = os.path.join(sd, 'RESULTS.json')
    try:
        results = json.load(open(resf))
    except (OSError, ValueError):
        results = {}
    bad = 0
    for i in ids:
        d = os.path.join(sd, i)
        meta = json.load(open(os.path.join(d, 'meta.json')))
        prop = meta['property']
        props = (affected(claimed, os.path.join(d, 'patch.diff'))[0] if all_checks else ([prop] if prop in claimed else []))
        try:
            rc, out = sh(['git', 'apply', os.path.join(d, 'patch.diff')], cwd=R)
            if rc != 0:
                print('%-10s %s SKIPPED: patch does not apply to the current tree (%s)' % (i, prop, out.strip().splitlines()[0] if out.strip() else ''))
                sh('git checkout -- .', cwd=R)
                continue
            row = {}
            for p in props:
                rc, out = sh([os.path.join(V, 'check'), p], cwd=V)
                keys = [ln.split('] ')[0].split('[')[-1] for ln in out.splitlines() if ': [R' in ln]
                broken = [ln for ln in out.splitlines() if ln.startswith('ANALYSIS-BROKEN')]
                row[p] = {'exit': rc, 'reported': sorted(set(keys)), 'broken': broken[:1]}
        finally:
            sh('git checkout -- .', cwd=R)
        caught = [p for p, r in row.items() if r['exit'] == 1]
        own = row.get(prop, {}).get('exit')
        results[i] = {'property': prop, 'own_check_exit': own, 'caught_by': caught,
                      'reported': {p: r['reported'] for p, r in row.items() if r['exit'] == 1},
                      'analysis_broken': {p: r['broken'] for p, r in row.items() if r['exit'] == 2}}
        exp = meta.get('expected', 'caught')
        status = 'caught' if own == 1 else ('broken(exit 2)' if own == 2 else 'missed')
        flag = '' if (status == 'caught') == (exp == 'caught') else '   <-- differs from meta.expected=%s' % exp
        if flag:
            bad += 1
        print('%-10s %s own-check=%s also=%s%s' % (i, prop, status, [p for p in caught if p != prop], flag))
        for p, ks in results[i]['reported'].items():
            print('           %s: %s' % (p, ', '.join(ks)[:300]))
        if SAVE:
            json.dump(results, open(resf, 'w'), indent=1, sort_keys=True)
    if SAVE:
        json.dump(results, open(resf, 'w'), indent=1, sort_keys=True)
    return 1 if bad else 0


def affected(claimed, patch):
    """the checks whose verdict can depend on the files a patch touches: a check is a deterministic function of the facts of the units it loads
    (evidence/<P>.json coverage.units_parsed, recorded by the engine) and, for C13/C14, of the schema compiler it builds.  A header change reaches every unit."""
    touched = set()
    for ln in open(patch):
        if ln.startswith('+++ b/') or ln.startswith('--- a/'):
            touched.add(ln[6:].strip())
    if any(t.startswith('include/') or t.endswith(('.hpp', '.h')) for t in touched):
        return list(claimed), touched
    out = []
    for p in claimed:
        try:
            units = set(json.load(open(os.path.join(V, 'evidence', p + '.json')))['coverage']['units_parsed'])
        except Exception:
            units = None
        if units is None or units & touched:
            out.append(p)
        elif p in ('C13', 'C14') and any(t.startswith('compiler/') or t in ('runtime/xml.cpp', 'runtime/f8utils.cpp') for t in touched):
            out.append(p)
    return out, touched


def refdrill(ids):
    """behaviour-preserving refactorings under /verif/seeded/refactor/<id>/patch.diff: apply, run EVERY check, expect exit 0 (2 = gave up loudly, tolerated and
    counted; 1 = false alarm)"""
    rd = os.path.join(V, 'seeded', 'refactor')
    man = json.load(open(os.path.join(V, 'MANIFEST.json')))
    claimed = [c['property_id'] for c in man['checks']]
    ids = ids or sorted(d for d in os.listdir(rd) if os.path.isdir(os.path.join(rd, d)))
    rc, out = sh('git status --porcelain --untracked-files=no', cwd=R)
    assert out.strip() == '', '/repo is dirty:\n' + out
    resf = os.path.join(V, 'seeded', 'REFACTOR_RESULTS.json') if SAVE else '/tmp/wt/REFACTOR_RESULTS.%s.json' % os.path.basename(R.rstrip('/'))
    try:
        results = json.load(open(resf))
    except (OSError, ValueError):
        results = {}
    for i in ids:
        d = os.path.join(rd, i)
        rc, out = sh(['git', 'apply', os.path.join(d, 'patch.diff')], cwd=R)
        if rc != 0:
            print('%-12s SKIPPED: patch does not apply (%s)' % (i, out.strip().splitlines()[0] if out.strip() else ''))
            sh('git checkout -- .', cwd=R)
            continue
        row = {}
        try:
            from concurrent.futures import ThreadPoolExecutor
            # warm the fact cache once (sequentially for the first check), then the rest in parallel
            def one(p):
                rc, out = sh([os.path.join(V, 'check'), p], cwd=V)
                keys = [ln.split('] ')[0].split('[')[-1] for ln in out.splitlines() if ': [R' in ln]
                broken = [ln for ln in out.splitlines() if ln.startswith('ANALYSIS-BROKEN')]
                return p, {'exit': rc, 'reported': sorted(set(keys)), 'broken': broken[:1]}
            todo, touched = affected(claimed, os.path.join(d, 'patch.diff'))
            for p in claimed:
                if p not in todo:
                    row[p] = {'exit': 0, 'reported': [], 'broken': [], 'skipped': 'loads no unit the patch touches'}
            first = [p for p in ('C13', 'C14', 'C01') if p in todo]       # generated sources and the shared units are built once, sequentially
            for p in first:
                row[p] = one(p)[1]
            with ThreadPoolExecutor(max_workers=6) as ex:
                for p, r in ex.map(one, [p for p in todo if p not in first]):
                    row[p] = r
        finally:
            sh('git checkout -- .', cwd=R)
        alarms = {p: r['reported'] for p, r in row.items() if r['exit'] == 1}
        gaveup = {p: r['broken'] for p, r in row.items() if r['exit'] == 2}
        results[i] = {'tree': R, 'false_alarms': alarms, 'gave_up': gaveup, 'silent': sorted(p for p, r in row.items() if r['exit'] == 0 and not r.get('skipped')),
                      'not_run_units_untouched': sorted(p for p, r in row.items() if r.get('skipped')), 'touched': sorted(touched)}
        print('%-12s false alarms: %s   gave up (exit 2): %s' % (i, alarms or 'none', sorted(gaveup) or 'none'), flush=True)
        json.dump(results, open(resf, 'w'), indent=1, sort_keys=True)
    return 0


if __name__ == '__main__':
    a = sys.argv[1:]
    if a and a[0] == 'confirm':
        wt = '/tmp/wt/base'
        if '--wt' in a:
            wt = a[a.index('--wt') + 1]
        rec = confirm(os.path.abspath(a[1]), wt)
        print(json.dumps(rec, indent=1))
        sys.exit(0 if rec.get('confirmed') else 1)
    elif a and a[0] == 'confirm-all':
        wt = '/tmp/wt/base'
        if '--wt' in a:
            wt = a[a.index('--wt') + 1]
        sd = os.path.join(V, 'seeded')
        only = [x for x in a[1:] if not x.startswith('--') and x != wt]
        for i in (only or sorted(os.listdir(sd))):
            mp = os.path.join(sd, i, 'meta.json')
            if not os.path.exists(mp):
                continue
            meta = json.load(open(mp))
            if meta.get('confirmed') is not None:
                continue
            rec = confirm(os.path.join(sd, i), wt)
            meta = json.load(open(mp))
            meta['confirmed'] = bool(rec.get('confirmed'))
            meta['what_i_ran'] = ['tools/seeded.py confirm (scratch worktree %s): ' % wt + '; '.join(
                '%s=%s' % (s['step'], 'ok' if s['ok'] else 'FAILED') for s in rec['steps'])]
            fails = [s for s in rec['steps'] if not s['ok']]
            if fails:
                meta['confirm_failures'] = fails
            demo_fail = [s for s in rec['steps'] if s['step'].startswith('demo with the change')]
            if demo_fail:
                meta['demo_output_with_change'] = demo_fail[0]['info'][-500:]
            json.dump(meta, open(mp, 'w'), indent=1)
            print(i, 'confirmed' if meta['confirmed'] else 'NOT CONFIRMED', [s['step'] for s in fails], flush=True)
        sys.exit(0)
    elif a and a[0] == 'refdrill':
        sys.exit(refdrill([x for x in a[1:] if not x.startswith('--')]))
    elif a and a[0] == 'drill':
        allc = '--all-checks' in a
        sys.exit(drill([x for x in a[1:] if not x.startswith('--')], allc))
    else:
        print(__doc__)
        sys.exit(2)
