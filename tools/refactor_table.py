#!/usr/bin/env python3
"""development helper: regenerate the refactor-round summary of DESIGN.md §12 from seeded/REFACTOR_RESULTS.json"""
import json, os
V = os.path.dirname(os.path.dirname(os.path.abspath(__file__)))
r = json.load(open(os.path.join(V, 'seeded', 'REFACTOR_RESULTS.json')))
n = len(r)
alarms = {k: v['false_alarms'] for k, v in r.items() if v['false_alarms']}
gave = {k: v['gave_up'] for k, v in r.items() if v['gave_up']}
runs = sum(len(v['silent']) + len(v['false_alarms']) + len(v['gave_up']) for v in r.values())
skipped = sum(len(v.get('not_run_units_untouched', [])) for v in r.values())
props = sorted({k[:3] for k in r})
side = sum(1 for v in r.values() if v.get('tree', '/repo') != '/repo')
lines = ['%d behaviour-preserving refactorings (4 per property, %d properties; `seeded/refactor/<id>/`). Each was applied to a clean checkout of the current head '
         '(%d to /repo itself, %d to identical scratch worktrees run in parallel, `F8_REPO=<tree>`) and every check that loads a unit the patch touches was run '
         '(a header change reaches all 31; a check that loads no touched unit is a function of unchanged facts and was not re-run: %d such pairs) = %d check runs: '
         '**%d false alarms** (exit 1) in %d patches, %d give-ups (exit 2) in %d patches, the rest silent.\n' %
         (n, len(props), n - side, side, skipped, runs, sum(len(v) for v in alarms.values()), len(alarms), sum(len(v) for v in gave.values()), len(gave))]
if alarms:
    lines.append('\nRemaining false alarms:\n')
    for k, v in sorted(alarms.items()):
        lines.append('* `%s`: %s\n' % (k, '; '.join('%s %s' % (p, ', '.join(ks)) for p, ks in v.items())))
if gave:
    lines.append('\nGive-ups (the check says ANALYSIS-BROKEN and names the anchor it lost; no verdict):\n')
    for k, v in sorted(gave.items()):
        for p, b in v.items():
            lines.append('* `%s` → %s: %s\n' % (k, p, (b[0].split(': ', 1)[1] if b and ': ' in b[0] else '')[:160]))
txt = ''.join(lines)
p = os.path.join(V, 'DESIGN.md')
s = open(p).read()
a, b = '<!-- REFACTOR-TABLE-BEGIN -->', '<!-- REFACTOR-TABLE-END -->'
if a in s:
    s = s[:s.index(a) + len(a)] + '\n' + txt + s[s.index(b):]
open(p, 'w').write(s)
print(txt[:600])
