"""C29 — log and store rotation keeps generations and stays in bounds."""
from ..facts import Program, AnalysisBroken
from .. import q

CLAIM = {
    'text': 'Extent and order rules on the two rotation sites (FileLogger::rotate, FilePersister::initialise): the name list is filled '
            'with base + min(rotation count, max_rotation) generation names `base.(i+1)`; every subscript used by the shift loop is '
            'bounded by the number of names pushed (loop start derived from the list itself or from the minimum of all fill bounds); '
            'the shift runs from the highest generation down, renaming [i-1] -> [i]; rotation happens only when not appending or '
            'when forced; only names from the list are passed to rename.',
    'note': 'Trusted: clang CFG, extractor. Undecided: file-system outcomes of rename; contents of generations.',
    'technique': 'loop-shape extraction + index extent vs. fill bound (sibling rule on both sites); control dependence; critical-point evaluation of the stored count; default-argument agreement between configuration reader and constructor',
}
UNITS = ['runtime/logger.cpp', 'runtime/filepersist.cpp', 'runtime/configuration.cpp']
EXPLANATION = (
    "Decided for each rotation site: R29.1 the greatest index of the shift loop (its start value, indices i and i-1, step -1, stop at 0) "
    "is <= the number of generation names pushed by the fill loop (conjunction of `i < bound` tests), by construction: start is "
    "`list.size()-1`, or a min over exactly the fill bounds; R29.2 fill pushes base first then `base.(i+1)`, shift renames "
    "list[i-1] -> list[i] for descending i, rename arguments are list elements only, and (logger) the block is control-dependent on "
    "`!append || force`, (persister) on purge. R29.3 the fill loop names exactly min(_rotnum, max_rotation) generations (strict bounds against the count and the documented cap) and has no early exit. R29.4 the count the rotation works with is the configured one: `_rotnum` is stored only by the constructor and min(stored, cap) = min(configured, cap) at every critical point of the initialiser; R29.5 where Configuration builds a FilePersister/FileLogger/XmlFileLogger the count is attribute \"rotation\" read with the same default as the constructor parameter it feeds. NOT decided: what rename does to files.")

SITES = (('FIX8::FileLogger::rotate', 'logger'), ('FIX8::FilePersister::initialise', 'persister'))


def run(ctx):
    prog = Program(UNITS)
    ctx.units.update(UNITS)
    for fq, kind in SITES:
        f = prog.fn1(fq)
        ctx.saw(f)
        cfg = f.cfg
        renames = [c for c in f.calls() if c.callee_qp == 'rename']
        sf, call_site = f, None
        if not renames:
            # the shift may have been extracted into a helper of the same unit that is handed the generation list(s)
            cands = [(c, h) for c in f.calls() if c.callee_qp for h in prog.fns(c.callee_qp) if h.tu is f.tu and any(x.callee_qp == 'rename' for x in h.calls())]
            ctx.need(len(cands) == 1, fq + ': no rename call')
            call_site, sf = cands[0]
            ctx.saw(sf)
            renames = [c for c in sf.calls() if c.callee_qp == 'rename']
        site = call_site if call_site is not None else renames[0]
        # the shift loop: innermost ForStmt containing the renames
        loops = [n for n in f.all_nodes() if n.k == 'ForStmt']
        sloops = [n for n in sf.all_nodes() if n.k == 'ForStmt']
        shift = [l for l in sloops if any(r in list(l.child('body').walk()) for r in renames)]
        ctx.need(len(shift) == 1, fq + ': shift loop not found')
        sh = shift[0]
        init, cond, inc = sh.child('init'), sh.child('cond'), sh.child('inc')
        ctx.need(init is not None and init.k == 'DeclStmt' and cond is not None and inc is not None, fq + ': unexpected shift loop shape')
        lv = init.r['decls'][0][0]
        start = sf.node(init.r['decls'][0][1])
        # vectors indexed in the renames
        vec_ids = set()
        idx_offsets = []
        for r in renames:
            for a in r.args:
                subs = [x for x in a.walk() if x.is_call and x.r.get('op') == '[]']
                ctx.check(len(subs) == 1 and subs[0].obj is not None and subs[0].obj.strip(casts=True).k == 'DeclRefExpr', 'R29.2',
                          fq + '#rename.args-from-list', r.loc, 'rename is applied to names taken from the generation list only')
                if len(subs) != 1:
                    continue
                vec_ids.add(subs[0].obj.strip(casts=True).declid)
                lf = q.linear(subs[0].args[0], sym=lambda x: 'I' if q.refers_to_decl(x, lv) else x.text())
                ctx.need(lf.t == {'I': 1}, fq + ': rename index is not loop variable + constant: ' + subs[0].args[0].text())
                idx_offsets.append((r, r.args.index(a), lf.c))
        vec_ids_sf = set(vec_ids)
        if call_site is not None:
            mapped = set()
            for vid in vec_ids:
                if vid in sf.param_ids and sf.param_ids.index(vid) < len(call_site.args):
                    a_ = call_site.args[sf.param_ids.index(vid)].strip(casts=True)
                    if a_.k == 'DeclRefExpr':
                        mapped.add(a_.declid)
            ctx.need(len(mapped) == len(vec_ids), fq + ': generation lists handed to the shift helper not recognised')
            vec_ids = mapped
        # R29.2 direction: rename(list[i-1], list[i]) ; i descending to 1
        for r in renames:
            offs = {ai: c for (rr, ai, c) in idx_offsets if rr == r}
            ctx.check(offs.get(0) == -1 and offs.get(1) == 0, 'R29.2', fq + '#shift.direction', r.loc,
                      'generation i-1 is renamed to generation i')
        i2 = inc.strip(casts=True)
        c2 = cond.strip(casts=True)
        ctx.check(i2.k == 'UnaryOperator' and i2.op == '--' and q.refers_to_decl(i2.children[0], lv) and q.refers_to_decl(c2, lv),
                  'R29.2', fq + '#shift.descending', sh.loc, 'the shift loop runs from the highest generation down to 1')
        # fill loops: ForStmt with push_back on the same vectors
        fills = []
        for l in loops:
            if l is sh:
                continue
            pbs = [x for x in l.child('body').walk() if x.is_call and x.callee is not None and x.callee.get('n') == 'push_back' and
                   x.obj is not None and x.obj.strip(casts=True).k == 'DeclRefExpr' and x.obj.strip(casts=True).declid in vec_ids]
            if pbs:
                fills.append((l, pbs))
        ctx.need(len(fills) == 1, fq + ': fill loop not found')
        fl, pbs = fills[0]
        fi, fc, finc = fl.child('init'), fl.child('cond'), fl.child('inc')
        flv = fi.r['decls'][0][0]
        ctx.need(f.node(fi.r['decls'][0][1]).strip(casts=True).value == 0, fq + ': fill loop does not start at 0')
        fi2 = finc.strip(casts=True)
        ctx.need(fi2.k == 'UnaryOperator' and fi2.op == '++' and q.refers_to_decl(fi2.children[0], flv), fq + ': fill loop step is not ++')
        bounds = []
        bound_nodes = []
        for a in q.formula_atoms(q.bool_atoms(fc)):
            s = a.strip(casts=True)
            ok = s.k == 'BinaryOperator' and s.op in ('<', '<=') and q.refers_to_decl(s.children[0], flv)
            ctx.need(ok and q.bool_atoms(fc)[0] in ('and', 'atom'), fq + ': fill loop condition is not a conjunction of `i < bound`')
            bounds.append(s.children[1].strip(casts=True).text())
            bound_nodes.append(s)
        ctx.need(bounds, fq + ': no fill bound')
        # R29.3 how many generations are named: exactly min(configured count, documented maximum), one per iteration, no early exit
        maxrot = [v for (n_, v) in []]
        mr = None
        for t_ in prog.tus:
            for v_ in t_.vars if hasattr(t_, 'vars') else []:
                if v_.get('q', '').endswith('Logger::max_rotation') and v_.get('cv') is not None:
                    mr = v_['cv']
        capb = [b for b in bound_nodes if b.children[1].strip(casts=True).value is not None]
        cntb = [b for b in bound_nodes if any(x.k == 'MemberExpr' and x.decl.get('n') == '_rotnum' for x in b.children[1].walk())]
        ctx.check(len(capb) == 1 and len(cntb) == 1 and len(bound_nodes) == 2 and all(b.op == '<' for b in bound_nodes) and
                  (mr is None or capb[0].children[1].strip(casts=True).value == mr),
                  'R29.3', fq + '#fill.count', fl.loc,
                  'generations named = min(_rotnum, max_rotation%s): `i < _rotnum && i < max_rotation`' % ('' if mr is None else ' = %d' % mr),
                  'the fill loop runs while `%s`: it names %s generation(s) than min(configured count, documented maximum %s) — rotation then shifts (and overwrites) '
                  'a file beyond the documented bound' % (fc.text(), 'more' if any(b.op == '<=' for b in bound_nodes) else 'a different number of',
                                                          capb[0].children[1].strip(casts=True).value if capb else '?'))
        exits = [x for x in fl.child('body').walk() if x.k in ('BreakStmt', 'ReturnStmt', 'GotoStmt', 'CXXThrowExpr')]
        ctx.check(not exits, 'R29.3', fq + '#fill.no-early-exit', (exits[0].loc if exits else fl.loc),
                  'the fill loop names every generation up to the bound (its only exit is its condition)',
                  'the fill loop can stop early at %s: generations above that point are never shifted (a set with a hole, e.g. log, .1, .2, .4, keeps .4 in place '
                  'instead of moving it to .5)' % (exits[0].loc if exits else ''))
        # each vector gets exactly one push per iteration, and one base push before the loop
        for vid in vec_ids:
            per_iter = [p for p in pbs if p.obj.strip(casts=True).declid == vid]
            before = [x for x in f.all_nodes() if x.is_call and x.callee is not None and x.callee.get('n') == 'push_back' and x.obj is not None and
                      q.refers_to_decl(x.obj, vid) and x not in per_iter]
            ctx.check(len(per_iter) == 1 and len(before) == 1 and cfg.dominates(cfg.vertex_of(before[0]), cfg.vertex_of(per_iter[0])),
                      'R29.2', fq + '#fill.shape@' + f.tu.decls[vid]['n'], fl.loc, 'list = [base, base.1, …]: one base name, then one name per generation')
        # name = base . (i+1)
        plus1 = [x for x in fl.child('body').walk() if x.k == 'BinaryOperator' and x.op == '+' and q.refers_to_decl(x.children[0], flv) and x.children[1].strip(casts=True).value == 1]
        ctx.check(len(plus1) >= 1, 'R29.2', fq + '#fill.name', fl.loc, 'generation name at list index i+1 is base.(i+1)')
        # R29.1 extent: max index = start value ; count of names = 1 + min(bounds) -> need start <= min(bounds)
        st = start.strip(casts=True)
        ok, how = False, ''
        # (a) start = list.size() - 1
        lf = q.linear(st, sym=lambda x: 'SIZE' if (x.is_call and x.callee is not None and x.callee.get('n') == 'size' and x.obj is not None and
                                                   x.obj.strip(casts=True).k == 'DeclRefExpr' and x.obj.strip(casts=True).declid in vec_ids_sf) else x.text())
        if lf.t == {'SIZE': 1} and lf.c <= -1:
            ok, how = True, 'start = list.size()%+d' % lf.c
        # (b) start = min(all fill bounds)
        if not ok and st.is_call and st.callee is not None and st.callee.get('n') == 'min':
            args = {a.strip(casts=True).text() for a in st.args}
            if args == set(bounds):
                ok, how = True, 'start = min(%s)' % ', '.join(sorted(args))
        # (c) single fill bound equal to start
        if not ok and len(bounds) == 1 and st.text() == bounds[0]:
            ok, how = True, 'start equals the only fill bound'
        # (d) dominating guard start <= each other bound
        if not ok:
            others = [b for b in bounds if b != st.text()]
            if st.text() in bounds:
                good = True
                for b in others:
                    bn = [x for x in fl.walk() if x.strip(casts=True).text() == b][:1]
                    v = bn[0].strip(casts=True).value if bn else None
                    lo, hi = q.interval_from_guards(f, sh.child('body').children[0] if sh.child('body').children else renames[0], st)
                    if v is None or hi > v:
                        good = False
                ok, how = good, 'start bounded by dominating guards'
        ctx.check(ok, 'R29.1', fq + '#shift.extent', sh.loc,
                  'greatest index used by the shift loop <= number of generation names pushed (%s)' % how,
                  'the shift loop starts at `%s` but the name list only holds 1 + min(%s) entries: a rotation count above the cap indexes '
                  'past the end of the list' % (st.text(), ', '.join(bounds)))
        # gating
        atoms = q.controlling_atoms(f, site)
        if kind == 'logger':
            app = any(pol is False and any(x.is_call and x.callee is not None and x.callee.get('n') == 'has' for x in a.walk()) or
                      (pol is True and q.refers_to_decl(a, f.param_ids[0])) for a, pol in atoms)
            # `!append || force` appears as two short-circuit blocks; accept either form by reachability:
            ctx.check(_gated_logger(f, site), 'R29.2', fq + '#gate', site.loc, 'rotation only when not appending, or forced')
        else:
            ctx.check(any(pol is True and q.refers_to_decl(a, f.param_ids[2]) for a, pol in atoms), 'R29.2', fq + '#gate', renames[0].loc,
                      'store rotation only when purging')
        ctx.check(any(pol is True and a.strip(casts=True).k == 'BinaryOperator' and a.strip(casts=True).op == '>' and
                      a.strip(casts=True).children[1].strip(casts=True).value == 0 for a, pol in atoms), 'R29.2', fq + '#gate.count', renames[0].loc,
                  'no rotation when the configured count is 0')
    count_rules(ctx, prog)
    ctx.floor('R29.1', 2)
    ctx.floor('R29.3', 4)
    ctx.floor('R29.2', 14)
    ctx.floor('R29.4', 2)
    ctx.floor('R29.5', 3)


OWNERS = (('FIX8::FileLogger', 'FIX8::FileLogger::_rotnum'), ('FIX8::FilePersister', 'FIX8::FilePersister::_rotnum'))


def _attr_read(prog, fn, e, depth=0):
    """(attribute name, default value, how) of an expression that reads an integer attribute of a configuration element:
    elem->FindAttr("name", d), or a Configuration accessor whose body returns find_or_default(from, "name", def) / FindAttr(...) with def its
    (possibly defaulted) parameter"""
    c = e.strip(casts=True)
    if not c.is_call or c.callee is None:
        return None

    def lit(n):
        for x in n.walk():
            if x.k == 'StringLiteral':
                return x.r.get('s')
        return None
    nm = c.callee.get('n')
    if nm in ('FindAttr', 'find_or_default'):
        a = c.args
        if len(a) >= 2 and lit(a[-2]) is not None:
            elem = c.obj if nm == 'FindAttr' else (a[0] if len(a) >= 3 else None)
            return lit(a[-2]), a[-1], nm, elem
        return None
    if depth < 2 and c.callee_qp:
        for h in prog.fns(c.callee_qp):
            rr = [x for x in h.all_nodes() if x.k == 'ReturnStmt' and x.children]
            if len(rr) != 1:
                continue
            inner = _attr_read(prog, h, rr[0].children[0], depth + 1)
            if inner is None:
                continue
            name, d, how, elem = inner
            # the element the helper reads is one of its parameters: the caller's argument bound to it
            if elem is not None:
                es = elem.strip(casts=True)
                elem = c.args[h.param_ids.index(es.declid)] if es.k == 'DeclRefExpr' and es.declid in h.param_ids and h.param_ids.index(es.declid) < len(c.args) else None
            ds = d.strip(casts=True)
            if ds.k == 'DeclRefExpr' and ds.declid in h.param_ids:
                i = h.param_ids.index(ds.declid)
                if i < len(c.args):
                    return name, c.args[i], how + ' via ' + h.q, elem
                return None
            return name, d, how + ' via ' + h.q, elem
    return None


def count_rules(ctx, prog):
    """R29.4 the count the rotation site works with is the configured one: the only store to _rotnum is the constructor's member initialiser, and what
    the site's own cap makes of the stored value equals min(configured, max_rotation) at every critical point of the initialiser (its constants +-1, 0, the cap,
    the quantifier's upper end 1100, UINT_MAX).  R29.5 where the configuration builds the object, the count is read from the element's "rotation" attribute
    with the same default as the constructor parameter it feeds."""
    cap = None
    for v in prog.vars('FIX8::Logger::max_rotation'):
        if v.init is not None and v.init.strip(casts=True).value is not None:
            cap = v.init.strip(casts=True).value
    if cap is None:
        d = [x for tu in prog.tus for x in tu.decls if x.get('qp') == 'FIX8::Logger::max_rotation' and x.get('cv') is not None]
        cap = d[0]['cv'] if d else None
    ctx.need(cap is not None, 'Logger::max_rotation value not found')
    ctor_default = {}
    for rec, mem in OWNERS:
        ctors = [f for f in prog.all_functions() if f.rec == rec and f.raw.get('kind') == 'ctor' or (f.rec == rec and f.q.endswith('::' + rec.split('::')[-1]) and f.inits)]
        ctors = [f for f in ctors if any(m is not None and m.get('qp') == mem for (m, e, it) in f.inits)]
        ctx.need(ctors, rec + ': constructor initialising _rotnum not found')
        writes = [(w, g) for g in prog.all_functions() for (w, m) in q.member_writes(g, mem)]
        seen = set()
        for c in ctors:
            if c.loc in seen:
                continue
            seen.add(c.loc)
            ctx.saw(c)
            es = [e for (m, e, it) in c.inits if m is not None and m.get('qp') == mem]
            e = es[0]
            params = [pid for pid in c.param_ids if any(q.refers_to_decl(x, pid) for x in e.walk() if x.k == 'DeclRefExpr')]
            bad = None
            if writes:
                bad = '_rotnum is stored again outside the constructor at %s' % writes[0][0].loc
            elif len(params) != 1:
                bad = 'the stored count `%s` is not a function of exactly one constructor parameter' % e.text()
            else:
                consts = {x.value for x in e.walk() if x.value is not None and x.k != 'DeclRefExpr' or (x.k == 'DeclRefExpr' and x.value is not None)}
                pts = {0, 1, cap - 1, cap, cap + 1, 1100, 0xffffffff}
                for k in consts:
                    if isinstance(k, int) and 0 <= k <= 0xffffffff:
                        pts |= {max(k - 1, 0), k, min(k + 1, 0xffffffff)}
                for r in sorted(pts):
                    v = q.eval_int(e, {params[0]: r})
                    if v is None:
                        raise AnalysisBroken('%s: stored count `%s` cannot be evaluated for a configured count of %d' % (c.q, e.text(), r))
                    if min(v & 0xffffffff, cap) != min(r, cap):
                        bad = ('a configured count of %d is stored as %d (`%s`): the rotation site then keeps %d generation(s) instead of %d'
                               % (r, v, e.text(), min(v & 0xffffffff, cap), min(r, cap)))
                        break
                # the parameter default
                pd = c.tu.decls[params[0]]
                ctor_default[rec] = (params[0], c)
            ctx.check(bad is None, 'R29.4', c.q + '#count-stored-as-configured', c.loc,
                      'min(stored count, %d) == min(configured count, %d) at every critical point of `%s`; no other store to _rotnum' % (cap, cap, e.text()), bad)
    # ---- R29.5 configuration sites
    n = 0
    for f in prog.all_functions():
        if f.tu.unit != 'runtime/configuration.cpp' or not (f.q or '').startswith('FIX8::Configuration::'):
            continue
        for c in f.all_nodes():
            if c.k not in ('CXXConstructExpr', 'CXXTemporaryObjectExpr') or c.callee is None:
                continue
            cq = c.callee.get('qp') or ''
            owner = [rec for rec, mem in OWNERS if cq.startswith(rec + '::')] + (['FIX8::FileLogger'] if cq.startswith('FIX8::XmlFileLogger::') else [])
            if not owner:
                continue
            # which argument is the count: the last parameter of these constructors (rotnum)
            args = c.args
            if not args:
                continue
            a = args[-1]
            ctor_fns = [g for g in prog.fns(cq) if len(g.param_ids) == len(args)]
            ctx.need(ctor_fns, 'constructor %s not found' % cq)
            g = ctor_fns[0]
            dflt = g.tu.decls[g.param_ids[-1]].get('defv')
            if dflt is None:
                dn = g.raw.get('defaults', {})
            from ..memo import _expand as _exp
            rd = _attr_read(prog, f, _exp(f, a))          # the read may have been hoisted into a named const local
            n += 1
            ctx.saw(f)
            if a.strip().k == 'CXXDefaultArgExpr':
                ctx.ok('R29.5', f.q + '#' + cq.split('::')[-1] + '.count-from-config', c.loc, 'constructed with the constructor\'s own default count')
                continue
            if rd is None:
                raise AnalysisBroken('%s: count argument `%s` of %s is not a recognised attribute read' % (f.q, a.text(), cq))
            name, d, how, elem = rd
            # the count belongs to the element the object's other settings come from: for a file logger, the element get_logname() reads the file name from
            lognames = [x for x in f.calls() if x.callee is not None and x.callee.get('n') == 'get_logname' and x.args]
            if lognames and elem is not None and 'Logger' in cq:
                ctx.check(q.same_expr(elem, lognames[0].args[0]), 'R29.5', f.q + '#' + cq.split('::')[-1] + '.count-from-same-element', c.loc,
                          'the count is read from the element the log file name is read from (`%s`)' % lognames[0].args[0].text(),
                          'the rotation count is read from `%s` while the log file name comes from `%s`: the <log rotation="N"> attribute is never consulted, every '
                          'logger rotates with the default count' % (elem.text(), lognames[0].args[0].text()))
            dv = d.strip(casts=True).value
            if dv is None:
                dv = q.eval_int(d, {})
            want = _param_default(prog, g, len(g.param_ids) - 1)
            if want is None or dv is None:
                raise AnalysisBroken('%s: default of the count (attribute read `%s`, constructor %s) not evaluated' % (f.q, a.text(), cq))
            ctx.check(name == 'rotation' and dv == want, 'R29.5', f.q + '#' + cq.split('::')[-1] + '.count-from-config', c.loc,
                      'count = attribute "rotation" (%s), default %d = the default of %s\'s count parameter' % (how, dv, cq.split('::')[-1]),
                      'the count is read from attribute "%s" with default %s (%s), but %s documents and defaults its count to %s: an entry without the attribute '
                      'rotates %s generation(s) (files name.1.. that were never this object\'s are renamed)' % (name, dv, how, cq.split('::')[-1], want, dv))
    ctx.need(n >= 3, 'fewer than 3 configuration sites constructing a FileLogger / XmlFileLogger / FilePersister found (%d)' % n)


def _param_default(prog, g, i):
    """value of the default argument of parameter i of function g (looked up at any call site that uses it, or in the declaration facts)"""
    d = g.tu.decls[g.param_ids[i]]
    if d.get('defv') is not None:
        return d['defv']
    for f in prog.all_functions():
        for c in f.all_nodes():
            if c.k in ('CXXConstructExpr', 'CXXTemporaryObjectExpr', 'CallExpr', 'CXXMemberCallExpr') and c.callee is not None and c.callee.get('qp') == g.qp and \
                    len(c.args) == len(g.param_ids) and c.args[i].strip().k == 'CXXDefaultArgExpr':
                v = c.args[i].strip(casts=True).value
                if v is None:
                    v = q.eval_int(c.args[i], {})
                if v is not None:
                    return v
    return None


def _gated_logger(f, site):
    """site unreachable when append flag is set and force is false"""
    cfg = f.cfg
    force = f.param_ids[0]
    def eo(v, w, lab):
        if lab is None or not isinstance(lab[1], bool):
            return True
        a, pol = q.polar(cfg.cond_node(lab[0]), lab[1])
        s = a.strip(casts=True)
        if s.is_call and s.callee is not None and s.callee.get('n') == 'has' and s.args and s.args[0].strip(casts=True).text() == 'append':
            return pol is True          # append set
        if s.k == 'DeclRefExpr' and s.declid == force:
            return pol is False
        return True
    return cfg.vertex_of(site) not in cfg.reach_from(cfg.entry, edge_ok=eo)
