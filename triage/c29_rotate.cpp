// R29.1: rotation count above Logger::max_rotation (1024) indexed past the end of the name list.
// build with EXTRA="-D_GLIBCXX_ASSERTIONS -g" (vector::operator[] asserts on the unfixed tree) ; logger.cpp is compiled into this TU so that ASan sees rotate().
#include "/repo/runtime/logger.cpp"
int main()
{
    system("rm -rf c29d && mkdir c29d");
    {
        Logger::LogFlags flags;
        FileLogger lg("c29d/x.log", flags, Logger::Levels(Logger::All), " ", Logger::LogPositions(), 1100);
        lg.send("hello");
        lg.stop();
    }
    system("ls c29d | wc -l; rm -rf c29d");
    std::cout << "HOLDS (no memory error)" << std::endl;
    return 0;
}
