"""C08 — numeric field text conversions are exact inverses (integer half; floating half declined)."""
from ..facts import Program, AnalysisBroken, WITNESS_FIELDS
from .. import q

CLAIM = {
    'text': 'Alphabet, interval and table rules on the integer codec and on the decimal table of the float renderer: the renderer of a signed '
            'integer field can emit a minus sign, so the parser reached from the field\'s text constructor must test for one; the digit '
            'lookup of itoa stays inside its 71-character literal for every base it accepts (index interval from the dominating base '
            'guard), and the literal is the symmetric digit table; fast_atoi multiplies by exactly ten; modp_dtoa indexes its power table '
            'only with a precision clamped to the table, and the table is 10^i; every rounding increment of the scaled fraction is followed by '
            'the carry test on every path to the digit loop (sibling agreement of the two rounding branches); the float parser accepts the '
            'characters the float renderer stores.',
    'note': 'The floating-point clauses (correct rounding at precision p, half-ulp parse accuracy) are R08.8 the length itoa returns is taken after its last character store. R08.9 pow10_ is a table of double (the carry test compares a 32-bit fraction with it). NOT decided: no sound static '
            'argument over double arithmetic is in reach here. Trusted: clang CFG and constant folding, extractor.',
    'technique': 'renderer/parser alphabet agreement, index interval from dominating guards, literal table checks, must-pass-through under finite valuations (sibling rounding branches)',
}
UNITS = [WITNESS_FIELDS, 'runtime/modp_numtoa.c']
EXPLANATION = (
    "Decided: R08.1 Field<int,N>::print → itoa<int> stores '-' on some path ⇒ the parser used by Field<int,N>(const char*) compares its "
    "input with '-' (or is a libc parser); R08.2 itoa: digit index = 35 + (tmp - value*base), |tmp - value*base| <= base-1 <= 35 under the "
    "dominating guard 2 <= base <= 36, literal has 71 characters, is symmetric about index 35 and maps k to the base-36 digit k; "
    "fast_atoi's step is (r<<3)+(r<<1)+digit; R08.3 every pow10_[prec] in modp_dtoa is reached only with prec in [0, len-1] (clamp), "
    "pow10_[i] = 10^i; R08.4 every rounding increment of the scaled fraction in modp_dtoa reaches the fraction digits only through the carry "
    "test against pow10_[prec] (for each precision 0..9, path search under that valuation), and the carry resets the fraction; R08.5 "
    "fast_atof tests for every non-digit character modp_dtoa stores ('-', '.') and handles the exponent form of the sprintf fallback. "
    "NOT decided: rounding of values that are not exactly representable (0.64535 at precision 4 is rendered 0.6454: the scaled product "
    "rounds to an exact half — a floating-point fact outside a sound static argument) and parse accuracy.")


def sign_rule(ctx, prog, rid):
    # ---------------- R08.1 sign alphabet
    prints = [f for f in prog.all_functions() if f.qp == 'FIX8::Field::print' and f.rec and f.rec.startswith('FIX8::Field<int,') and f.sig.startswith('size_t (char *)')]
    ctors = [f for f in prog.all_functions() if f.kind == 'ctor' and f.rec and f.rec.startswith('FIX8::Field<int,') and 'const char *' in f.sig]
    ctx.need(prints and ctors, 'Field<int,N>::print / text constructor instantiation not found (%d, %d)' % (len(prints), len(ctors)))
    pr, ct = prints[0], ctors[0]
    ctx.saw(pr), ctx.saw(ct)
    render = [c for c in pr.calls() if c.callee_qp == 'FIX8::itoa']
    ctx.need(len(render) == 1, 'Field<int>::print does not call itoa')
    itoa = [f for f in prog.fns('FIX8::itoa') if f.q == render[0].callee_q]
    ctx.need(itoa, 'itoa instantiation %s not found' % render[0].callee_q)
    itoa = itoa[0]
    ctx.saw(itoa)
    emits_minus = any(n.k == 'CharacterLiteral' and n.r.get('v') == 45 for n in itoa.all_nodes())
    parse_calls = [c for (m, e, it) in ct.inits for c in q.calls_in(e) if c.callee_qp in ('FIX8::fast_atoi', 'atoi', 'strtol', 'std::stoi', 'atol')]
    ctx.need(len(parse_calls) == 1, 'Field<int>(const char*) does not initialise its value through a known parser')
    pc = parse_calls[0]
    if pc.callee_qp == 'FIX8::fast_atoi':
        pf = [f for f in prog.fns('FIX8::fast_atoi') if f.q == pc.callee_q]
        ctx.need(pf, 'parser instantiation %s not found' % pc.callee_q)
        pf = pf[0]
        ctx.saw(pf)
        tests_minus = any(n.k == 'BinaryOperator' and n.op in ('==', '!=') and any(x.k == 'CharacterLiteral' and x.r.get('v') == 45 for x in n.walk())
                          for n in pf.all_nodes())
    else:
        pf, tests_minus = None, True
    ctx.check((not emits_minus) or tests_minus, rid, 'FIX8::fast_atoi<int>#sign', (pf or ct).loc,
              'the integer parser accepts the minus sign the renderer can emit',
              'itoa<int> renders negative values with a leading \'-\' but %s never tests for one: "-5" parses as %d'
              % (pc.callee_q, ((0 * 10 + (45 - 48)) * 10 + 5)))


def float_rules(ctx, prog, md, prec, pow_uses):
    """R08.4 every rounding increment of the scaled fraction is followed by the carry test before the fraction digits are
    produced (sibling agreement between the rounding branches); R08.5 the float parser accepts every character class the float
    renderer can store."""
    cfg = md.cfg
    # the scaled fraction: the local compared with pow10_[prec]
    carry = []
    # a const local initialised once from pow10_[prec] stands for it (`const double scale = pow10_[prec];`)
    alias_refs = []
    for n_ in md.all_nodes():
        if n_.k == 'DeclStmt':
            for dd, ini in n_.r.get('decls', []):
                if ini >= 0 and any(u_ in list(md.node(ini).walk()) for u_ in pow_uses) and md.node(ini).strip(casts=True) in pow_uses and len(q.local_defs(md, dd)) == 1:
                    alias_refs += [x for x in md.all_nodes() if x.k == 'DeclRefExpr' and x.declid == dd]
    for u in list(pow_uses) + alias_refs:
        par = u.parent
        while par is not None and par.k in ('ImplicitCastExpr', 'ParenExpr', 'CStyleCastExpr'):
            par = par.parent
        if par is not None and par.k == 'BinaryOperator' and par.op in ('>=', '==', '>'):
            other = [c for c in par.children if u not in list(c.walk())]
            if other and other[0].strip(casts=True).k == 'DeclRefExpr':
                carry.append((par, other[0].strip(casts=True).declid))
    ctx.need(carry, 'modp_dtoa: no comparison of the scaled fraction with pow10_[prec] (carry test) found')
    frac = carry[0][1]
    tests = [t for t, d in carry if d == frac]
    tv = set()
    for t in tests:
        tv.add(cfg.vertex_of(t))
    incs = [(n, kind) for (n, kind, val) in q.local_defs(md, frac) if kind == 'incdec' or
            (kind == 'assign' and n.k == 'CompoundAssignOperator' and n.op == '+=')]
    incs = [(n, k) for (n, k) in incs if n.r.get('op', n.op) in ('++', '+=')]
    # consuming reads: the fraction digits are produced from frac by % and /= in the digit loop
    consume = []
    for n in md.all_nodes():
        if n.k in ('BinaryOperator', 'CompoundAssignOperator') and n.op in ('%', '/', '/=', '%=') and \
                q.refers_to_decl(n.children[0], frac) and cfg.has_vertex(n):
            consume.append(cfg.vertex_of(n))
    ctx.need(incs and consume, 'modp_dtoa: rounding increments (%d) or fraction digit production (%d) not found' % (len(incs), len(consume)))
    for i, (w, _) in enumerate(incs):
        wv = cfg.vertex_of(w)
        bad = None
        for p in range(0, 10):
            ok = q.valuation_edge_filter(md, {prec: p})
            path = cfg.path(wv, lambda v: v in consume, avoid=tv, edge_ok=ok)
            if path:
                bad = (p, path)
                break
        ctx.check(bad is None, 'R08.4', 'modp_dtoa#carry-after-increment@%d' % i, w.loc,
                  'rounding increment `%s`: every path to the fraction digits passes the carry test against pow10_[prec] (precisions 0..9)' % w.text(),
                  'rounding increment `%s` reaches the fraction digits without the carry test `%s` (precision %s): a fraction of all nines '
                  'rounds to 10^prec and is printed as a short digit string (0.95 at precision 1 -> "0.1")'
                  % (w.text(), tests[0].text(), bad[0] if bad else '?'),
                  cfg.describe_path(bad[1]) if bad else None)
    # R08.6 the digit loop consumes the scaled fraction (it ends when the fraction is 0): any later read of it sees a constant 0, so a decision
    # taken on it after the loop (e.g. about the sign) silently ignores the fraction
    loops = [n for n in md.all_nodes() if n.k in ('DoStmt', 'WhileStmt', 'ForStmt') and n.child('cond') is not None and
             any(x.k == 'CompoundAssignOperator' and x.op == '/=' and q.refers_to_decl(x.children[0], frac) for x in n.child('cond').walk())]
    ctx.need(len(loops) == 1, 'modp_dtoa: the fraction digit loop (ends on `frac /= 10`) not found')
    lp = loops[0]
    inside = set(x for x in lp.walk())
    cb = [b for b in cfg.blocks if cfg.cond_node(b) is not None and cfg.cond_node(b) in inside and
          any(x.k == 'CompoundAssignOperator' and x.op == '/=' for x in cfg.cond_node(b).walk())]
    ctx.need(cb, 'modp_dtoa: digit loop condition is not a branch')
    after = set()
    for t in q.edge_targets(cfg, cb[0], False):
        after |= cfg.reach_from(t) | {t}
    stale = [n for n in md.all_nodes() if n.k == 'DeclRefExpr' and n.declid == frac and n not in inside and cfg.has_vertex(n) and cfg.vertex_of(n) in after
             and q.is_write_target(n) is None]
    # reads inside the loop body re-entered through the back edge are `inside`; what is left is really after the loop
    ctx.check(not stale, 'R08.6', 'modp_dtoa#fraction-read-after-consumed', (stale[0].loc if stale else lp.loc),
              'the scaled fraction is not read again after the digit loop has reduced it to 0',
              'the scaled fraction is read at %s after the digit loop has divided it down to 0: the test is constant and whatever it decides (here the sign '
              'of a value below 1) ignores the fraction: -0.25 is rendered "0.25"' % (stale[0].loc if stale else ''))
    # the carry test must reset the fraction and carry into the whole part
    for i, t in enumerate(tests):
        tvx = cfg.vertex_of(t)
        blk = [b for b, last in cfg.block_last.items() if cfg.cond_node(b) is not None and t in list(cfg.cond_node(b).walk()) or
               (cfg.cond_node(b) is not None and cfg.cond_node(b) == t)]
        ctx.need(blk, 'carry test is not a branch condition')
        tgt = q.edge_targets(cfg, blk[0], True)
        reach = set()
        for x in tgt:
            reach |= cfg.reach_from(x) | {x}
        fa = [n for (n, kind, val) in q.local_defs(md, frac) if kind == 'assign' and val is not None and val.strip(casts=True).value == 0]
        zero_dep = any(cfg.vertex_of(n) in reach and any(c == cfg.cond_node(blk[0]) and way for (c, way) in cfg.controlling(cfg.vertex_of(n))) for n in fa)
        ctx.check(zero_dep, 'R08.4', 'modp_dtoa#carry-resets@%d' % i, t.loc, 'on carry the fraction is reset to 0 under the carry test')
    # ---------------- R08.5 alphabet: what the renderer stores vs. what the parser tests
    stored = set()
    for n in md.all_nodes():
        if n.k == 'BinaryOperator' and n.op == '=' and n.children[0].strip(casts=True).k in ('UnaryOperator', 'ArraySubscriptExpr'):
            v = n.children[1].strip(casts=True)
            if v.k in ('CharacterLiteral', 'IntegerLiteral') and v.value is not None and v.value not in (0,):
                stored.add(v.value if v.k == 'IntegerLiteral' else v.r.get('v'))
    ctx.need(45 in stored and 46 in stored, "modp_dtoa: stores of '-' and '.' not found (stored literals %s)" % sorted(stored))
    pf = prog.fns('FIX8::fast_atof')
    ctx.need(pf, 'fast_atof not found')
    pf = pf[0]
    ctx.saw(pf)
    tested = set()
    for n in pf.all_nodes():
        if n.k == 'BinaryOperator' and n.op in ('==', '!='):
            for x in n.walk():
                if x.k == 'CharacterLiteral':
                    tested.add(x.r.get('v'))
    for ch, name in ((45, 'minus sign'), (46, 'decimal point')):
        ctx.check(ch in tested, 'R08.5', 'FIX8::fast_atof#accepts-%s' % name.replace(' ', '-'), pf.loc,
                  "the float parser tests for the %s the renderer stores" % name,
                  "modp_dtoa stores '%s' but fast_atof never compares its input with it" % chr(ch))
    # exponent form: the renderer falls back to sprintf("%e") above its threshold; the parser must handle 'E'
    fallback = [c for c in md.calls() if c.callee_qp in ('sprintf', 'snprintf')]
    if fallback:
        ctx.check(69 in tested or 101 in tested, 'R08.5', 'FIX8::fast_atof#accepts-exponent', pf.loc,
                  'the float parser handles the exponent form the renderer falls back to')
    else:
        ctx.ok('R08.5', 'FIX8::fast_atof#accepts-exponent', pf.loc, 'renderer has no exponent fallback')


def run(ctx):
    prog = Program(UNITS)
    ctx.units.update(UNITS)
    sign_rule(ctx, prog, 'R08.1')
    # ---------------- R08.2 itoa digit table
    for fi in [f for f in prog.fns('FIX8::itoa') if f.tmpl in ('inst', 'spec')][:4]:
        ctx.saw(fi)
        subs = [n for n in fi.all_nodes() if n.k == 'ArraySubscriptExpr' and n.children[0].strip(casts=True).k == 'StringLiteral']
        ctx.need(len(subs) == 1, fi.q + ': digit lookup not found')
        lit = subs[0].children[0].strip(casts=True).r.get('s', '')
        sym_ok = len(lit) == 71 and all(lit[35 + k] == lit[35 - k] for k in range(36)) and \
            all(lit[35 + k] == '0123456789abcdefghijklmnopqrstuvwxyz'[k] for k in range(36))
        ctx.check(sym_ok, 'R08.2', fi.q + '#digit-table', subs[0].loc, 'digit literal: 71 characters, symmetric about index 35, index 35+k is the base-36 digit k')
        base = fi.param_ids[2]
        lf = q.linear(subs[0].children[1], sym=lambda x: x.text())
        rem_terms = {k: v for k, v in lf.t.items()}
        shape = lf.c == 35 and len(rem_terms) == 2 and sorted(rem_terms.values()) == [-1, 1] and any('*' in k and 'base' in k for k in rem_terms)
        lo, hi = q.interval_from_guards(fi, subs[0], fi.node(0), match=lambda x: q.refers_to_decl(x, base))
        ctx.check(shape and lo >= 2 and hi <= 36, 'R08.2', fi.q + '#digit-index', subs[0].loc,
                  'index = 35 + (tmp − value·base) with base in [%s, %s]: |remainder| <= 35, index within [0, 70]' % (lo, hi),
                  'digit index `%s` under base in [%s, %s] is not provably inside the 71-character table' % (lf, lo, hi))
    for fa in [f for f in prog.fns('FIX8::fast_atoi') if f.tmpl == 'inst'][:4]:
        ctx.saw(fa)
        steps = [n for n in fa.all_nodes() if n.k == 'BinaryOperator' and n.op == '=' and q.refers_to_decl(n.children[0], [d for d, _ in
                 [x for x in fa.all_nodes() if x.k == 'DeclStmt'][0].r['decls']][0])]
        ok = False
        for s in steps:
            sh = sorted(x.children[1].strip(casts=True).value for x in s.children[1].walk() if x.k == 'BinaryOperator' and x.op == '<<')
            mul = [x for x in s.children[1].walk() if x.k == 'BinaryOperator' and x.op == '*' and x.children[1].strip(casts=True).value == 10]
            zero = any(x.k == 'CharacterLiteral' and x.r.get('v') == 48 for x in s.children[1].walk())
            if (sh == [1, 3] or mul) and zero:
                ok = True
        ctx.check(ok, 'R08.2', fa.q + '#times-ten', fa.loc, 'each step is r·10 + (digit − \'0\')')
        # R08.7 a cap on the number of digits parsed must leave room for every digit the renderer can emit, on the signed path too
        pstr = fa.param_ids[0]
        rt = fa.tu.types[fa.raw['ret']] if 'ret' in fa.raw else {}
        bits, sgn = rt.get('bits', 32), rt.get('signed', True)
        maxdig = len(str((1 << (bits - (1 if sgn else 0))) - 1)) if bits else 10
        fcfg = fa.cfg
        incs = {fcfg.vertex_of(n) for n in fa.all_nodes() if n.k == 'UnaryOperator' and n.op == '++' and q.refers_to_decl(n.children[0], pstr) and fcfg.has_vertex(n)}
        capped = 0
        for (b, a, pol) in q.branches(fa, lambda a: a.strip(casts=True).k == 'BinaryOperator' and a.strip(casts=True).op in ('!=', '<', '==', '>=') and
                                      any(q.refers_to_decl(x, pstr) for x in a.strip(casts=True).children)):
            t = a.strip(casts=True)
            other = [x for x in t.children if not q.refers_to_decl(x, pstr)]
            if not other or other[0].strip(casts=True).k != 'DeclRefExpr':
                continue
            ld = other[0].strip(casts=True).declid
            defs = q.local_defs(fa, ld)
            if len(defs) != 1 or defs[0][2] is None:
                continue
            lf = q.linear(defs[0][2], sym=lambda x: 'STR' if q.refers_to_decl(x, pstr) else x.text())
            if lf.t != {'STR': 1}:
                continue
            capped += 1
            K = lf.c
            # increments of str between the cap's definition and the first evaluation of this loop condition
            cv = fcfg.block_last[b]
            mn, mx = q.count_on_paths(fcfg, fcfg.vertex_of(defs[0][0]), incs, stop=lambda v, _cv=cv: v == _cv)
            ctx.check(K - mx >= maxdig, 'R08.7', fa.q + '#digit-cap@%d' % capped, a.loc,
                      'digit cap: %d characters from the start, at most %d skipped before the loop, %d digits needed' % (K, mx, maxdig),
                      'the parser stops after %d characters counted from the start of the text, but up to %d character(s) (the sign) are skipped before the digit loop: '
                      'only %d digits of a %d-digit value are read (INT_MIN parses as -214748364)' % (K, mx, K - mx, maxdig))
        if not capped:
            ctx.ok('R08.7', fa.q + '#digit-cap', fa.loc, 'the parser has no cap on the number of digits (it reads to the terminator)')
    # ---------------- R08.3 modp_dtoa
    md = prog.fn1('modp_dtoa')
    ctx.saw(md)
    tab = prog.vars('pow10_')
    ctx.need(len(tab) == 1, 'pow10_ not found')
    vals = []
    for x in tab[0].init.children:
        s = x.strip(casts=True)
        vals.append(s.value if s.value is not None else s.r.get('fv'))
    ctx.check(len(vals) >= 10 and all(v is not None and float(v) == 10.0 ** i for i, v in enumerate(vals)), 'R08.3', 'pow10_#values', tab[0].file.split('/')[-1] + ':%d' % tab[0].line,
              'pow10_[i] = 10^i for i = 0..%d' % (len(vals) - 1))
    # R08.9 the carry test compares the 32-bit scaled fraction with a table entry: the entries must be able to hold every uint32 exactly (double has 53
    # mantissa bits, float 24: with a float table 99999996..99999999 all compare equal to 1e8 and the carry fires for fractions that did not roll over)
    tt = tab[0].tu.types[tab[0].raw['t']]
    et = tab[0].tu.types[tt['elem']] if 'elem' in tt else {}
    ctx.check(et.get('k') == 'float' and et.get('bits', 0) >= 64, 'R08.9', 'pow10_#element-type', tab[0].file.split('/')[-1] + ':%d' % tab[0].line,
              'pow10_ holds doubles (every 32-bit fraction converts exactly for the carry test)',
              'pow10_ holds `%s` (%s bits): the carry test `frac >= pow10_[prec]` converts the 32-bit fraction to it and 99999996..99999999 round to 1e8 — at precision 8/9 '
              'a fraction just below the next whole number is rendered as the next whole number (0.999999976 -> "1.0")' % (et.get('c'), et.get('bits')))
    prec = md.param_ids[2]
    mcfg = md.cfg
    assigns = [(n, val) for (n, kind, val) in q.local_defs(md, prec) if kind == 'assign']
    av = {mcfg.vertex_of(n) for n, _ in assigns}
    uses = [n for n in md.all_nodes() if n.k == 'ArraySubscriptExpr' and n.children[0].strip(casts=True).k == 'DeclRefExpr' and
            n.children[0].strip(casts=True).decl['n'] == 'pow10_']
    ctx.need(len(uses) >= 1, 'pow10_[prec] uses not found')
    for i, u in enumerate(uses):
        idx = u.children[1]
        ctx.need(q.refers_to_decl(idx, prec), 'pow10_ is indexed by something other than prec')
        consts_ok = all(val is not None and val.strip(casts=True).value is not None and 0 <= val.strip(casts=True).value < len(vals) for _, val in assigns)
        lo, hi = -q.INF, q.INF
        for (c, w) in mcfg.controlling(mcfg.vertex_of(u), avoid=av):
            a, pol = q.polar(c, w)
            s = a.strip(casts=True)
            if s.k == 'BinaryOperator' and q.refers_to_decl(s.children[0], prec) and s.children[1].strip(casts=True).value is not None:
                cst = s.children[1].strip(casts=True).value
                op = s.op if pol else {'<': '>=', '>': '<=', '<=': '>', '>=': '<'}.get(s.op)
                if op == '<':
                    hi = min(hi, cst - 1)
                elif op == '<=':
                    hi = min(hi, cst)
                elif op == '>':
                    lo = max(lo, cst + 1)
                elif op == '>=':
                    lo = max(lo, cst)
        ctx.check(consts_ok and lo >= 0 and hi <= len(vals) - 1, 'R08.3', 'modp_dtoa#pow10-index@%d' % i, u.loc,
                  'pow10_[prec]: prec is either a clamp constant or an unmodified argument proven in [%s, %s] ⊆ [0, %d]' % (lo, hi, len(vals) - 1),
                  'pow10_[prec] can be reached with prec outside [0, %d] (unclamped range [%s, %s])' % (len(vals) - 1, lo, hi))
    float_rules(ctx, prog, md, prec, uses)
    # ---------------- R08.8 the length itoa returns counts every character it stored (BaseField::encode advances its cursor by it and writes the
    # separator there): the value is strlen(result) taken after the terminator, or `cursor - result` sampled at a point after which no further
    # character is stored through the advancing cursor (`*ptr++ = c`)
    n_len = 0
    for fi in [f for f in prog.fns('FIX8::itoa') if f.tmpl in ('inst', 'spec')][:4]:
        icfg = fi.cfg
        res = fi.param_ids[1]
        adv_stores = [n for n in fi.all_nodes() if n.k == 'BinaryOperator' and n.op == '=' and icfg.has_vertex(n) and n.children[0].strip().k == 'UnaryOperator' and
                      n.children[0].strip().op == '*' and n.children[0].strip().children[0].strip().k == 'UnaryOperator' and n.children[0].strip().children[0].strip().op == '++']
        for (v_, kind_, rn) in icfg.exits():
            if kind_ != 'return' or not rn.children:
                continue
            e_ = rn.children[0].strip(casts=True)
            if e_.value == 0:
                continue                # the invalid-base exit: nothing stored
            n_len += 1
            sample, how = None, None
            if e_.is_call and e_.callee is not None and e_.callee.get('n') == 'strlen' and e_.args and q.refers_to_decl(e_.args[0], res):
                sample, how = rn, 'strlen(result)'
            else:
                src = e_
                if e_.k == 'DeclRefExpr' and e_.decl is not None and e_.decl.get('sc') == 'local':
                    ds = q.local_defs(fi, e_.declid)
                    if len(ds) == 1 and ds[0][2] is not None:
                        src, sample = ds[0][2], ds[0][0]
                lf_ = q.linear(src, sym=lambda x: 'RES' if q.refers_to_decl(x, res) else 'CUR' if (x.strip(casts=True).k == 'DeclRefExpr' and x.strip(casts=True).decl.get('sc') == 'local') else x.text())
                if lf_.t == {'CUR': 1, 'RES': -1} and lf_.c in (0, 1):
                    sample = sample or rn
                    how = '`%s`' % src.text()
            if sample is None or not icfg.has_vertex(sample):
                raise AnalysisBroken('%s: returned length `%s` not understood' % (fi.q, e_.text()))
            # only stores through the cursor the length is measured with add to it (the in-place reversal moves characters through a second cursor)
            curs = {x.declid for x in (src if how != 'strlen(result)' else e_).walk() if x.k == 'DeclRefExpr' and x.decl is not None and x.decl.get('sc') == 'local'} if how != 'strlen(result)' else set()
            later = [st_ for st_ in adv_stores if icfg.vertex_of(st_) in icfg.reach_from(icfg.vertex_of(sample)) and
                     any(x.k == 'DeclRefExpr' and x.declid in curs for x in st_.children[0].walk())] if how != 'strlen(result)' else []
            ctx.check(not later, 'R08.8', fi.q + '#length-counts-every-character', rn.loc,
                      'the returned length (%s) is taken after the last character store' % how,
                      'the returned length %s is sampled before `%s` can still store a character: for a negative value the sign is not counted, the caller writes its '
                      'separator over the last digit (-123 goes out as -12)' % (how, later[0].text() if later else ''))
    ctx.need(n_len >= 2, 'fewer than 2 itoa length returns analysed (%d)' % n_len)
    ctx.floor('R08.8', 2)
    ctx.floor('R08.9', 1)
    ctx.floor('R08.2', 4)
    ctx.floor('R08.3', 2)
    ctx.floor('R08.4', 2)
    ctx.floor('R08.5', 3)
    ctx.floor('R08.6', 1)
    ctx.floor('R08.7', 1)
