// R07.1: with an offset and no length, calc_chksum must sum "the remainder of the buffer".
#include <fix8/f8includes.hpp>
using namespace FIX8;
int main()
{
    const f8String s("ABCDEFGHIJKLMNOPQRSTUVWXYZ0123456789");   // long enough for the word loop
    bool ok = true;
    for (unsigned off : {0u, 3u, 9u, 20u})
    {
        unsigned want = 0; for (size_t i = off; i < s.size(); ++i) want += (unsigned char)s[i];
        unsigned got = Message::calc_chksum(s, off);
        std::cout << "offset " << off << ": got " << got << " expected " << want % 256 << std::endl;
        if (got != want % 256) ok = false;
    }
    std::cout << (ok ? "HOLDS" : "DEFECT: reads past the end of the buffer / wrong sum") << std::endl;
    return ok ? 0 : 1;
}
