// R16.4: after an inbound message that is rejected (non-forcing decode error) the receive counter is
// incremented but the control record is not stored.
#include "sess.hpp"
int main()
{
    Fix f; f.logon();
    unsigned s0, r0; f.per->get(s0, r0);
    // a NewOrderSingle missing mandatory fields: decodes with MissingMandatoryField -> Reject, non forcing
    NewOrderSingle *nos(new NewOrderSingle); f.recv_header(nos->Header(), f.rseq++);
    *nos << new ClOrdID("4");
    f8String bad; nos->encode(bad); delete nos;
    f.ss->process(bad);
    unsigned s1, r1; f.per->get(s1, r1);
    std::cout << "session next_receive=" << f.ss->nrs() << " next_send=" << f.ss->nss() << " persisted=(" << s1 << "," << r1 << ")" << std::endl;
    bool ok = r1 == f.ss->nrs() && s1 == f.ss->nss();
    std::cout << (ok ? "HOLDS" : "DEFECT: control record differs from the counters after a rejected inbound message") << std::endl;
    return ok ? 0 : 1;
}
