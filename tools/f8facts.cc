// f8facts — libTooling fact extractor for the fix8 verification rules.
//
// Dumps, for one translation unit, a faithful JSON description of every function that is
// defined in a file under one of the given roots: the clang CFG (setAllAlwaysAdd, implicit
// destructors, no EH edges), every statement/expression as a node with resolved
// declarations, types with width/signedness/array extents, constant-folded integer values,
// plus records, enums and static variables with their initialisers.
// It applies NO rule. All judgement lives in /verif/f8verif (Python).
//
// usage: f8facts --out=<file.json> --root=<dir> [--root=<dir>...] <source> -- <compile flags>

#include "clang/AST/ASTConsumer.h"
#include "clang/AST/ASTContext.h"
#include "clang/AST/DeclCXX.h"
#include "clang/AST/DeclTemplate.h"
#include "clang/AST/ExprCXX.h"
#include "clang/AST/RecursiveASTVisitor.h"
#include "clang/AST/StmtCXX.h"
#include "clang/Analysis/CFG.h"
#include "clang/Frontend/CompilerInstance.h"
#include "clang/Frontend/FrontendAction.h"
#include "clang/Tooling/CommonOptionsParser.h"
#include "clang/Tooling/Tooling.h"
#include "llvm/Support/CommandLine.h"
#include "llvm/Support/JSON.h"
#include "llvm/Support/raw_ostream.h"
#include <map>
#include <set>
#include <string>
#include <vector>

using namespace clang;
using namespace llvm;
namespace J = llvm::json;

static cl::OptionCategory Cat("f8facts options");
static cl::opt<std::string> OutFile("out", cl::desc("output json"), cl::cat(Cat), cl::Required);
static cl::list<std::string> Roots("root", cl::desc("source roots to dump"), cl::cat(Cat));
static cl::opt<bool> MainOnly("main-only", cl::desc("only functions in the main file"), cl::cat(Cat));
static cl::opt<bool> NoPatterns("no-patterns", cl::desc("skip uninstantiated template patterns"), cl::cat(Cat));
static cl::list<std::string> FnRoots("fn-root", cl::desc("dump function bodies only for definitions under these dirs (records/vars still follow --root)"), cl::cat(Cat));

namespace {

static std::string safe(StringRef s) {
  std::string r = s.str();
  if (!J::isUTF8(r)) r = J::fixUTF8(r);
  return r;
}

class Dumper : public RecursiveASTVisitor<Dumper> {
public:
  ASTContext &Ctx;
  SourceManager &SM;
  PrintingPolicy PP;
  J::Array Functions, Records, Enums, Vars, TypeTab, DeclTab, Aliases;
  std::map<const void *, int> TypeIdx;
  std::map<const Decl *, int> DeclIdx;
  std::set<const FunctionDecl *> DoneFns;
  std::set<const RecordDecl *> DoneRecs;
  std::set<const VarDecl *> DoneVars;
  std::vector<const FunctionDecl *> LambdaQueue;
  std::map<std::string, int> FileIdx;
  J::Array FileTab;

  explicit Dumper(ASTContext &C) : Ctx(C), SM(C.getSourceManager()), PP(C.getLangOpts()) {
    PP.SuppressTagKeyword = true;
    PP.Bool = true;
    PP.FullyQualifiedName = true;
    PP.SuppressUnwrittenScope = false;
    PP.PrintCanonicalTypes = false;
  }

  bool shouldVisitTemplateInstantiations() const { return true; }
  bool shouldVisitImplicitCode() const { return false; }

  // ------------------------------------------------------------------ locations
  std::string filePath(SourceLocation L) {
    if (L.isInvalid()) return "";
    SourceLocation E = SM.getExpansionLoc(L);
    if (const FileEntry *FE = SM.getFileEntryForID(SM.getFileID(E))) {
      StringRef rp = FE->tryGetRealPathName();
      if (!rp.empty()) return rp.str();
      return FE->getName().str();
    }
    return "";
  }
  unsigned lineOf(SourceLocation L) { return L.isValid() ? SM.getExpansionLineNumber(L) : 0; }
  unsigned colOf(SourceLocation L) { return L.isValid() ? SM.getExpansionColumnNumber(L) : 0; }
  int fileIdx(const std::string &p) {
    auto it = FileIdx.find(p);
    if (it != FileIdx.end()) return it->second;
    int i = FileTab.size();
    FileTab.push_back(p);
    FileIdx[p] = i;
    return i;
  }
  bool wanted(SourceLocation L) {
    if (L.isInvalid()) return false;
    if (MainOnly) return SM.isInMainFile(SM.getExpansionLoc(L));
    std::string p = filePath(L);
    if (p.empty()) return false;
    bool ok = false;
    for (auto &r : Roots)
      if (StringRef(p).startswith(r)) { ok = true; break; }
    if (!ok) return false;
    size_t ff = p.find("/include/fix8/ff/");
    if (ff != std::string::npos) {
      StringRef b = StringRef(p);
      return b.endswith("/MPMCqueues.hpp") || b.endswith("/ubuffer.hpp") || b.endswith("/buffer.hpp");
    }
    return true;
  }

  // ------------------------------------------------------------------ types
  int typeIdx(QualType T) {
    if (T.isNull()) return -1;
    const void *key = T.getAsOpaquePtr();
    auto it = TypeIdx.find(key);
    if (it != TypeIdx.end()) return it->second;
    int idx = TypeTab.size();
    TypeIdx[key] = idx;
    TypeTab.push_back(nullptr);
    J::Object o;
    o["s"] = safe(T.getAsString(PP));
    QualType C = T.getCanonicalType();
    std::string cs = C.getAsString(PP);
    o["c"] = safe(cs);
    if (C.isConstQualified()) o["const"] = true;
    const Type *Ty = C.getTypePtr();
    bool sized = !Ty->isDependentType() && !Ty->isIncompleteType() && !Ty->isFunctionType() &&
                 !Ty->isUndeducedType() && !Ty->isPlaceholderType();
    if (Ty->isBooleanType()) { o["k"] = "bool"; }
    else if (Ty->isEnumeralType()) {
      o["k"] = "enum";
      if (const auto *ET = Ty->getAs<EnumType>()) o["enum"] = ET->getDecl()->getQualifiedNameAsString();
      if (sized) { o["bits"] = (int64_t)Ctx.getTypeSize(C); o["signed"] = Ty->isSignedIntegerOrEnumerationType(); }
    } else if (Ty->isIntegerType()) {
      o["k"] = "int";
      if (sized) { o["bits"] = (int64_t)Ctx.getTypeSize(C); o["signed"] = Ty->isSignedIntegerType(); }
      if (Ty->isAnyCharacterType()) o["char"] = true;
    } else if (Ty->isFloatingType()) { o["k"] = "float"; if (sized) o["bits"] = (int64_t)Ctx.getTypeSize(C); }
    else if (Ty->isPointerType()) { o["k"] = "ptr"; o["pointee"] = typeIdx(Ty->getPointeeType()); }
    else if (Ty->isReferenceType()) { o["k"] = "ref"; o["pointee"] = typeIdx(Ty->getPointeeType()); }
    else if (const auto *AT = dyn_cast<ConstantArrayType>(Ty)) {
      o["k"] = "array"; o["n"] = (int64_t)AT->getSize().getZExtValue(); o["elem"] = typeIdx(AT->getElementType());
    } else if (const auto *AT2 = dyn_cast<ArrayType>(Ty)) {
      o["k"] = "array"; o["elem"] = typeIdx(AT2->getElementType());
    } else if (const auto *RT = Ty->getAs<RecordType>()) {
      o["k"] = "record"; o["rec"] = qname(RT->getDecl()); o["recp"] = qnamePlain(RT->getDecl());
    } else if (Ty->isVoidType()) o["k"] = "void";
    else if (Ty->isDependentType()) o["k"] = "dependent";
    else o["k"] = "other";
    if (sized && !Ty->isVoidType() && !o.get("bits")) {
      o["size"] = (int64_t)Ctx.getTypeSizeInChars(C).getQuantity();
    }
    TypeTab[idx] = std::move(o);
    return idx;
  }

  // ------------------------------------------------------------------ names
  std::string qname(const NamedDecl *D) {
    std::string s;
    // members of class template specialisations: qualify with the specialisation's template arguments
    if (const auto *RDc = dyn_cast<CXXRecordDecl>(D->getDeclContext())) {
      if (isa<ClassTemplateSpecializationDecl>(RDc) && !isa<ClassTemplatePartialSpecializationDecl>(RDc) && !isa<CXXRecordDecl>(D)) {
        s = qname(RDc) + "::" + D->getNameAsString();
        if (const auto *FD = dyn_cast<FunctionDecl>(D)) {
          if (const auto *TA = FD->getTemplateSpecializationArgs()) {
            std::string a;
            raw_string_ostream aos(a);
            printTemplateArgumentList(aos, TA->asArray(), PP);
            aos.flush();
            s += a;
          }
        }
        return safe(s);
      }
    }
    if (const auto *SD = dyn_cast<ClassTemplateSpecializationDecl>(D)) {
      if (!isa<ClassTemplatePartialSpecializationDecl>(SD)) {
        // qualified template name + canonical (converted) template arguments, so that explicit and implicit
        // instantiations of the same specialisation get the same name
        std::string base;
        raw_string_ostream bos(base);
        SD->getSpecializedTemplate()->printQualifiedName(bos, PP);
        bos.flush();
        std::string a;
        raw_string_ostream aos(a);
        printTemplateArgumentList(aos, SD->getTemplateArgs().asArray(), PP, SD->getSpecializedTemplate()->getTemplateParameters());
        aos.flush();
        return safe(base + a);
      }
    }
    raw_string_ostream os(s);
    D->printQualifiedName(os, PP);
    os.flush();
    if (const auto *FD = dyn_cast<FunctionDecl>(D)) {
      if (const auto *TA = FD->getTemplateSpecializationArgs()) {
        std::string a;
        raw_string_ostream aos(a);
        printTemplateArgumentList(aos, TA->asArray(), PP);
        aos.flush();
        s += a;
      }
    }
    return safe(s);
  }
  // qualified name without any template arguments
  std::string qnamePlain(const NamedDecl *D) {
    std::vector<std::string> parts;
    const DeclContext *DC = D->getDeclContext();
    while (DC) {
      if (const auto *ND = dyn_cast<NamespaceDecl>(DC)) {
        if (!ND->isAnonymousNamespace() && !ND->isInline()) parts.push_back(ND->getNameAsString());
        else if (ND->isAnonymousNamespace()) parts.push_back("(anon)");
      } else if (const auto *RD = dyn_cast<RecordDecl>(DC)) {
        if (RD->getIdentifier()) parts.push_back(RD->getNameAsString());
        else parts.push_back("(anon)");
      } else if (const auto *FD = dyn_cast<FunctionDecl>(DC)) {
        parts.push_back(FD->getNameAsString());
      } else if (const auto *ED = dyn_cast<EnumDecl>(DC)) {
        if (ED->isScoped() && ED->getIdentifier()) parts.push_back(ED->getNameAsString());
      }
      DC = DC->getParent();
    }
    std::string s;
    for (auto it = parts.rbegin(); it != parts.rend(); ++it) { s += *it; s += "::"; }
    s += D->getNameAsString();
    return safe(s);
  }

  // ------------------------------------------------------------------ decls
  int declIdx(const Decl *D) {
    if (!D) return -1;
    D = D->getCanonicalDecl();
    auto it = DeclIdx.find(D);
    if (it != DeclIdx.end()) return it->second;
    int idx = DeclTab.size();
    DeclIdx[D] = idx;
    DeclTab.push_back(nullptr);
    J::Object o;
    o["k"] = D->getDeclKindName();
    SourceLocation L = D->getLocation();
    if (const auto *FDd = dyn_cast<FunctionDecl>(D)) {
      const FunctionDecl *Def = nullptr;
      if (FDd->hasBody(Def) && Def) L = Def->getLocation();
    }
    o["f"] = fileIdx(filePath(L));
    o["l"] = (int64_t)lineOf(L);
    if (const auto *ND = dyn_cast<NamedDecl>(D)) {
      o["n"] = safe(ND->getNameAsString());
      o["q"] = qname(ND);
      o["qp"] = qnamePlain(ND);
    }
    if (const auto *VD = dyn_cast<ValueDecl>(D)) o["t"] = typeIdx(VD->getType());
    if (const auto *V = dyn_cast<VarDecl>(D)) {
      const char *sc = "local";
      if (isa<ParmVarDecl>(V)) sc = "param";
      else if (V->isStaticLocal()) sc = "static_local";
      else if (V->isStaticDataMember()) sc = "static_member";
      else if (V->hasGlobalStorage()) sc = "global";
      o["sc"] = sc;
      if (const auto *P = dyn_cast<ParmVarDecl>(V)) {
        o["pi"] = (int64_t)P->getFunctionScopeIndex();
        // value of an integral default argument (K8 table agreement: a default read elsewhere must agree with the one declared here)
        if (P->hasDefaultArg() && !P->hasUninstantiatedDefaultArg() && !P->hasUnparsedDefaultArg() && !P->getType()->isDependentType()) {
          const Expr *DA = P->getDefaultArg();
          if (DA && !DA->isValueDependent() && !DA->isTypeDependent() && P->getType()->isIntegralOrEnumerationType()) {
            Expr::EvalResult R;
            if (DA->EvaluateAsInt(R, Ctx)) o["defv"] = R.Val.getInt().getExtValue();
          }
        }
      }
      if (V->getType().isConstQualified() && !V->getType()->isDependentType()) {
        if (const Expr *I = V->getAnyInitializer()) {
          if (!I->isValueDependent() && V->getType()->isIntegralOrEnumerationType()) {
            Expr::EvalResult R;
            if (I->EvaluateAsInt(R, Ctx)) o["cv"] = R.Val.getInt().getExtValue();
          }
        }
      }
    }
    if (const auto *F = dyn_cast<FieldDecl>(D)) {
      o["parent"] = qname(F->getParent());
      o["parentp"] = qnamePlain(F->getParent());
      o["fi"] = (int64_t)F->getFieldIndex();
    }
    if (const auto *EC = dyn_cast<EnumConstantDecl>(D)) o["cv"] = EC->getInitVal().getExtValue();
    if (const auto *FD = dyn_cast<FunctionDecl>(D)) {
      o["sig"] = safe(FD->getType().getAsString(PP));
      o["ret"] = typeIdx(FD->getReturnType());
      J::Array ps;
      for (const ParmVarDecl *P : FD->parameters()) ps.push_back(typeIdx(P->getType()));
      o["pt"] = std::move(ps);
      J::Array pn;
      for (const ParmVarDecl *P : FD->parameters()) pn.push_back(safe(P->getNameAsString()));
      o["pn"] = std::move(pn);
      if (const auto *M = dyn_cast<CXXMethodDecl>(FD)) {
        o["rec"] = qname(M->getParent());
        o["recp"] = qnamePlain(M->getParent());
        if (M->isVirtual()) o["virtual"] = true;
        if (M->isPure()) o["pure"] = true;
        if (M->isStatic()) o["static"] = true;
        if (M->isConst()) o["constm"] = true;
        J::Array ov;
        for (const CXXMethodDecl *O : M->overridden_methods()) ov.push_back(qname(O));
        if (!ov.empty()) o["overrides"] = std::move(ov);
      }
      if (FD->isDefaulted()) o["defaulted"] = true;
      if (FD->isDeleted()) o["deleted"] = true;
      if (FD->isOverloadedOperator()) o["oper"] = getOperatorSpelling(FD->getOverloadedOperator());
      if (!wantedDecl(FD)) o["ext"] = true;
    }
    DeclTab[idx] = std::move(o);
    return idx;
  }
  bool wantedDecl(const FunctionDecl *FD) {
    const FunctionDecl *Def = nullptr;
    if (FD->hasBody(Def) && Def) return wanted(Def->getLocation());
    return wanted(FD->getLocation());
  }

  // ------------------------------------------------------------------ statements
  struct FnCtx {
    J::Array Nodes;
    std::map<const Stmt *, int> Id;
    std::string File;
  };

  void foldInt(const Expr *E, J::Object &o) {
    if (E->isValueDependent() || E->isTypeDependent() || E->containsErrors()) return;
    QualType T = E->getType();
    if (T.isNull() || !(T->isIntegralOrEnumerationType())) return;
    if (!E->isPRValue() && !isa<DeclRefExpr>(E)) return;
    Expr::EvalResult R;
    if (E->EvaluateAsInt(R, Ctx, Expr::SE_NoSideEffects)) {
      APSInt V = R.Val.getInt();
      if (V.isSigned() || V.getActiveBits() < 63) o["v"] = V.getExtValue();
      else o["vu"] = toString(V, 10);
    }
  }

  int emit(const Stmt *S, FnCtx &F) {
    if (!S) return -1;
    auto it = F.Id.find(S);
    if (it != F.Id.end()) return it->second;
    int id = F.Nodes.size();
    F.Id[S] = id;
    F.Nodes.push_back(nullptr);
    J::Object o;
    o["k"] = S->getStmtClassName();
    SourceLocation L = S->getBeginLoc();
    if (const auto *BO = dyn_cast<BinaryOperator>(S)) L = BO->getOperatorLoc();
    if (const auto *ME = dyn_cast<MemberExpr>(S)) L = ME->getMemberLoc().isValid() ? ME->getMemberLoc() : L;
    o["l"] = (int64_t)lineOf(L);
    o["col"] = (int64_t)colOf(L);
    std::string fp = filePath(L);
    if (!fp.empty() && fp != F.File) o["f"] = fileIdx(fp);
    J::Array ch;
    bool genericChildren = true;

    if (const auto *E = dyn_cast<Expr>(S)) {
      o["t"] = typeIdx(E->getType());
      if (E->isLValue()) o["lv"] = true;
      foldInt(E, o);
    }

    if (const auto *DR = dyn_cast<DeclRefExpr>(S)) {
      o["d"] = declIdx(DR->getDecl());
    } else if (const auto *ME = dyn_cast<MemberExpr>(S)) {
      o["d"] = declIdx(ME->getMemberDecl());
      if (ME->isArrow()) o["arrow"] = true;
      if (ME->hasQualifier()) o["qual"] = true;
    } else if (const auto *CE = dyn_cast<CallExpr>(S)) {
      genericChildren = false;
      const FunctionDecl *Callee = CE->getDirectCallee();
      if (Callee) o["callee"] = declIdx(Callee);
      o["fn"] = emit(CE->getCallee(), F);
      ch.push_back(emit(CE->getCallee(), F));
      J::Array args;
      unsigned first = 0;
      if (const auto *MC = dyn_cast<CXXMemberCallExpr>(S)) {
        if (const Expr *Obj = MC->getImplicitObjectArgument()) o["obj"] = emit(Obj, F);
        bool virt = false;
        if (const auto *MD = MC->getMethodDecl()) {
          if (MD->isVirtual()) {
            virt = true;
            if (const auto *MEc = dyn_cast<MemberExpr>(MC->getCallee()->IgnoreParens()))
              if (MEc->hasQualifier()) virt = false;
          }
        }
        if (virt) o["virt"] = true;
      } else if (const auto *OC = dyn_cast<CXXOperatorCallExpr>(S)) {
        o["op"] = getOperatorSpelling(OC->getOperator());
        if (Callee && isa<CXXMethodDecl>(Callee) && OC->getNumArgs() > 0) {
          o["obj"] = emit(OC->getArg(0), F);
          ch.push_back(emit(OC->getArg(0), F));
          first = 1;
        }
      }
      for (unsigned i = first; i < CE->getNumArgs(); ++i) {
        int a = emit(CE->getArg(i), F);
        args.push_back(a);
        ch.push_back(a);
      }
      o["args"] = std::move(args);
    } else if (const auto *CC = dyn_cast<CXXConstructExpr>(S)) {
      genericChildren = false;
      o["callee"] = declIdx(CC->getConstructor());
      o["ctor"] = true;
      if (CC->isElidable()) o["elidable"] = true;
      J::Array args;
      for (unsigned i = 0; i < CC->getNumArgs(); ++i) {
        int a = emit(CC->getArg(i), F);
        args.push_back(a);
        ch.push_back(a);
      }
      o["args"] = std::move(args);
    } else if (const auto *NE = dyn_cast<CXXNewExpr>(S)) {
      o["alloc"] = typeIdx(NE->getAllocatedType());
      if (NE->isArray()) {
        o["array"] = true;
        if (auto AS = NE->getArraySize()) if (*AS) o["asize"] = emit(*AS, F);
      }
      if (const Expr *I = NE->getInitializer()) o["init"] = emit(I, F);
      J::Array pl;
      for (unsigned i = 0; i < NE->getNumPlacementArgs(); ++i) pl.push_back(emit(NE->getPlacementArg(i), F));
      if (!pl.empty()) o["placement"] = std::move(pl);
    } else if (const auto *DE = dyn_cast<CXXDeleteExpr>(S)) {
      if (DE->isArrayForm()) o["array"] = true;
    } else if (const auto *BO = dyn_cast<BinaryOperator>(S)) {
      o["op"] = BO->getOpcodeStr().str();
      if (const auto *CA = dyn_cast<CompoundAssignOperator>(S)) {
        o["cmpt"] = typeIdx(CA->getComputationResultType());
      }
    } else if (const auto *UO = dyn_cast<UnaryOperator>(S)) {
      o["op"] = UnaryOperator::getOpcodeStr(UO->getOpcode()).str();
      if (UO->isPostfix()) o["post"] = true;
    } else if (const auto *IL = dyn_cast<IntegerLiteral>(S)) {
      (void)IL;
    } else if (const auto *CL = dyn_cast<CharacterLiteral>(S)) {
      o["v"] = (int64_t)CL->getValue();
    } else if (const auto *SL = dyn_cast<clang::StringLiteral>(S)) {
      if (SL->getCharByteWidth() == 1) {
        StringRef b = SL->getBytes();
        o["len"] = (int64_t)b.size();
        bool plain = true;
        for (unsigned char c : b) if (c < 0x20 || c > 0x7e) { plain = false; break; }
        if (plain) o["s"] = b.str();
        else {
          static const char *hx = "0123456789abcdef";
          std::string h;
          for (unsigned char c : b) { h += hx[c >> 4]; h += hx[c & 15]; }
          o["hex"] = h;
        }
      }
    } else if (const auto *FL = dyn_cast<FloatingLiteral>(S)) {
      o["fv"] = FL->getValueAsApproximateDouble();
    } else if (const auto *BL = dyn_cast<CXXBoolLiteralExpr>(S)) {
      o["v"] = (int64_t)BL->getValue();
    } else if (const auto *CS = dyn_cast<CastExpr>(S)) {
      o["ck"] = CS->getCastKindName();
      if (isa<ImplicitCastExpr>(S)) o["impl"] = true;
      if (const auto *FCE = dyn_cast<CXXFunctionalCastExpr>(S)) (void)FCE;
    } else if (const auto *DS = dyn_cast<DeclStmt>(S)) {
      genericChildren = false;
      J::Array ds;
      for (const Decl *D : DS->decls()) {
        J::Array one;
        one.push_back(declIdx(D));
        int init = -1;
        if (const auto *VD = dyn_cast<VarDecl>(D)) {
          if (VD->hasInit()) init = emit(VD->getInit(), F);
        }
        one.push_back(init);
        if (init >= 0) ch.push_back(init);
        ds.push_back(std::move(one));
      }
      o["decls"] = std::move(ds);
    } else if (const auto *UE = dyn_cast<UnaryExprOrTypeTraitExpr>(S)) {
      o["op"] = getTraitSpelling(UE->getKind());
      if (UE->isArgumentType()) o["argt"] = typeIdx(UE->getArgumentType());
    } else if (const auto *IS = dyn_cast<IfStmt>(S)) {
      genericChildren = false;
      if (IS->getInit()) { o["init"] = emit(IS->getInit(), F); ch.push_back(emit(IS->getInit(), F)); }
      if (IS->getConditionVariableDeclStmt()) { o["condvar"] = emit(IS->getConditionVariableDeclStmt(), F); ch.push_back(emit(IS->getConditionVariableDeclStmt(), F)); }
      o["cond"] = emit(IS->getCond(), F); ch.push_back(emit(IS->getCond(), F));
      o["then"] = emit(IS->getThen(), F); ch.push_back(emit(IS->getThen(), F));
      if (IS->getElse()) { o["else"] = emit(IS->getElse(), F); ch.push_back(emit(IS->getElse(), F)); }
    } else if (const auto *WS = dyn_cast<WhileStmt>(S)) {
      genericChildren = false;
      if (WS->getConditionVariableDeclStmt()) { o["condvar"] = emit(WS->getConditionVariableDeclStmt(), F); ch.push_back(emit(WS->getConditionVariableDeclStmt(), F)); }
      o["cond"] = emit(WS->getCond(), F); ch.push_back(emit(WS->getCond(), F));
      o["body"] = emit(WS->getBody(), F); ch.push_back(emit(WS->getBody(), F));
    } else if (const auto *DoS = dyn_cast<DoStmt>(S)) {
      genericChildren = false;
      o["body"] = emit(DoS->getBody(), F); ch.push_back(emit(DoS->getBody(), F));
      o["cond"] = emit(DoS->getCond(), F); ch.push_back(emit(DoS->getCond(), F));
    } else if (const auto *FS = dyn_cast<ForStmt>(S)) {
      genericChildren = false;
      if (FS->getInit()) { o["init"] = emit(FS->getInit(), F); ch.push_back(emit(FS->getInit(), F)); }
      if (FS->getCond()) { o["cond"] = emit(FS->getCond(), F); ch.push_back(emit(FS->getCond(), F)); }
      if (FS->getInc()) { o["inc"] = emit(FS->getInc(), F); ch.push_back(emit(FS->getInc(), F)); }
      o["body"] = emit(FS->getBody(), F); ch.push_back(emit(FS->getBody(), F));
    } else if (const auto *FR = dyn_cast<CXXForRangeStmt>(S)) {
      genericChildren = false;
      if (FR->getRangeInit()) { o["range"] = emit(FR->getRangeInit(), F); ch.push_back(emit(FR->getRangeInit(), F)); }
      if (FR->getLoopVarStmt()) { o["loopvar"] = emit(FR->getLoopVarStmt(), F); ch.push_back(emit(FR->getLoopVarStmt(), F)); }
      if (FR->getRangeStmt()) o["rangestmt"] = emit(FR->getRangeStmt(), F);
      if (FR->getBeginStmt()) o["beginstmt"] = emit(FR->getBeginStmt(), F);
      if (FR->getEndStmt()) o["endstmt"] = emit(FR->getEndStmt(), F);
      if (FR->getCond()) o["cond"] = emit(FR->getCond(), F);
      if (FR->getInc()) o["inc"] = emit(FR->getInc(), F);
      o["body"] = emit(FR->getBody(), F); ch.push_back(emit(FR->getBody(), F));
    } else if (const auto *SS = dyn_cast<SwitchStmt>(S)) {
      genericChildren = false;
      if (SS->getInit()) { o["init"] = emit(SS->getInit(), F); ch.push_back(emit(SS->getInit(), F)); }
      o["cond"] = emit(SS->getCond(), F); ch.push_back(emit(SS->getCond(), F));
      o["body"] = emit(SS->getBody(), F); ch.push_back(emit(SS->getBody(), F));
    } else if (const auto *CaS = dyn_cast<CaseStmt>(S)) {
      genericChildren = false;
      o["lhs"] = emit(CaS->getLHS(), F);
      if (CaS->getRHS()) o["rhs"] = emit(CaS->getRHS(), F);
      o["sub"] = emit(CaS->getSubStmt(), F); ch.push_back(emit(CaS->getSubStmt(), F));
    } else if (const auto *CO = dyn_cast<ConditionalOperator>(S)) {
      genericChildren = false;
      o["cond"] = emit(CO->getCond(), F); ch.push_back(emit(CO->getCond(), F));
      o["then"] = emit(CO->getTrueExpr(), F); ch.push_back(emit(CO->getTrueExpr(), F));
      o["else"] = emit(CO->getFalseExpr(), F); ch.push_back(emit(CO->getFalseExpr(), F));
    } else if (const auto *DA = dyn_cast<CXXDefaultArgExpr>(S)) {
      genericChildren = false;
      o["param"] = declIdx(DA->getParam());
      if (DA->getExpr()) { int e = emit(DA->getExpr(), F); o["e"] = e; ch.push_back(e); }
    } else if (const auto *DI = dyn_cast<CXXDefaultInitExpr>(S)) {
      genericChildren = false;
      o["d"] = declIdx(DI->getField());
      if (DI->getExpr()) { int e = emit(DI->getExpr(), F); o["e"] = e; ch.push_back(e); }
    } else if (const auto *LE = dyn_cast<LambdaExpr>(S)) {
      genericChildren = false;
      if (const CXXMethodDecl *Op = LE->getCallOperator()) {
        o["lambda"] = declIdx(Op);
        LambdaQueue.push_back(Op);
      }
      for (const Expr *CI : LE->capture_inits()) if (CI) ch.push_back(emit(CI, F));
    } else if (const auto *DM = dyn_cast<CXXDependentScopeMemberExpr>(S)) {
      o["member"] = DM->getMember().getAsString();
      if (DM->isArrow()) o["arrow"] = true;
    } else if (const auto *UL = dyn_cast<OverloadExpr>(S)) {
      o["name"] = UL->getName().getAsString();
      J::Array cands;
      for (const NamedDecl *ND : UL->decls()) cands.push_back(qname(ND));
      o["cands"] = std::move(cands);
    } else if (const auto *DD = dyn_cast<DependentScopeDeclRefExpr>(S)) {
      o["name"] = DD->getDeclName().getAsString();
    } else if (const auto *CT = dyn_cast<CXXCatchStmt>(S)) {
      if (CT->getExceptionDecl()) { o["exc"] = declIdx(CT->getExceptionDecl()); o["exct"] = typeIdx(CT->getCaughtType()); }
      else o["catchall"] = true;
    } else if (const auto *OV = dyn_cast<OpaqueValueExpr>(S)) {
      genericChildren = false;
      if (OV->getSourceExpr()) ch.push_back(emit(OV->getSourceExpr(), F));
    } else if (const auto *GS = dyn_cast<GotoStmt>(S)) {
      o["label"] = GS->getLabel()->getNameAsString();
    } else if (const auto *LS = dyn_cast<LabelStmt>(S)) {
      o["label"] = LS->getDecl()->getNameAsString();
    } else if (const auto *TE = dyn_cast<CXXTypeidExpr>(S)) {
      (void)TE;
    } else if (const auto *UT = dyn_cast<CXXUnresolvedConstructExpr>(S)) {
      o["ctype"] = typeIdx(UT->getTypeAsWritten());
    } else if (const auto *ILE = dyn_cast<InitListExpr>(S)) {
      if (ILE->hasArrayFiller()) o["filler"] = true;
    }

    if (genericChildren) {
      for (const Stmt *C : S->children())
        if (C) ch.push_back(emit(C, F));
        else ch.push_back(-1);
    }
    if (!ch.empty()) o["c"] = std::move(ch);
    F.Nodes[id] = std::move(o);
    return id;
  }

  // ------------------------------------------------------------------ functions
  void dumpFunction(const FunctionDecl *FD, const char *tmplKind) {
    if (!FD->doesThisDeclarationHaveABody()) return;
    if (FD->isInvalidDecl()) return;
    if (!DoneFns.insert(FD).second) return;
    const Stmt *Body = FD->getBody();
    if (!Body) return;
    FnCtx F;
    F.File = filePath(FD->getLocation());
    J::Object o;
    o["decl"] = declIdx(FD);
    o["q"] = qname(FD);
    o["qp"] = qnamePlain(FD);
    o["sig"] = safe(FD->getType().getAsString(PP));
    o["file"] = F.File;
    o["l"] = (int64_t)lineOf(FD->getLocation());
    o["el"] = (int64_t)lineOf(FD->getEndLoc());
    o["tmpl"] = tmplKind;
    o["main"] = SM.isInMainFile(SM.getExpansionLoc(FD->getLocation()));
    const char *kind = "function";
    if (isa<CXXConstructorDecl>(FD)) kind = "ctor";
    else if (isa<CXXDestructorDecl>(FD)) kind = "dtor";
    else if (isa<CXXConversionDecl>(FD)) kind = "conversion";
    else if (isa<CXXMethodDecl>(FD)) kind = "method";
    o["kind"] = kind;
    if (const auto *M = dyn_cast<CXXMethodDecl>(FD)) {
      o["rec"] = qname(M->getParent());
      o["recp"] = qnamePlain(M->getParent());
      if (M->getParent()->isLambda()) o["islambda"] = true;
    }
    J::Array params;
    for (const ParmVarDecl *P : FD->parameters()) params.push_back(declIdx(P));
    o["params"] = std::move(params);

    J::Array inits;
    if (const auto *CD = dyn_cast<CXXConstructorDecl>(FD)) {
      for (const CXXCtorInitializer *I : CD->inits()) {
        J::Object io;
        if (I->isAnyMemberInitializer()) io["member"] = declIdx(I->getAnyMember());
        else if (I->isBaseInitializer()) io["base"] = typeIdx(QualType(I->getBaseClass(), 0));
        else if (I->isDelegatingInitializer()) io["delegating"] = true;
        io["written"] = I->isWritten();
        io["e"] = emit(I->getInit(), F);
        inits.push_back(std::move(io));
      }
    }
    o["body"] = emit(Body, F);

    // CFG
    CFG::BuildOptions BO;
    BO.setAllAlwaysAdd();
    bool dep = FD->isDependentContext();
    BO.AddImplicitDtors = !dep;       // clang's CFG builder crashes on implicit dtors of dependent types
    BO.AddTemporaryDtors = !dep;
    BO.AddInitializers = true;
    BO.AddEHEdges = false;
    BO.PruneTriviallyFalseEdges = true;
    std::unique_ptr<CFG> G;
    G = CFG::buildCFG(FD, const_cast<Stmt *>(Body), &Ctx, BO);
    if (G) {
      J::Object cfg;
      cfg["entry"] = (int64_t)G->getEntry().getBlockID();
      cfg["exit"] = (int64_t)G->getExit().getBlockID();
      J::Array blocks;
      std::map<const CXXCtorInitializer *, int> InitPos;
      if (const auto *CD = dyn_cast<CXXConstructorDecl>(FD)) {
        int i = 0;
        for (const CXXCtorInitializer *I : CD->inits()) InitPos[I] = i++;
      }
      for (const CFGBlock *B : *G) {
        J::Object bo;
        bo["id"] = (int64_t)B->getBlockID();
        J::Array els;
        for (const CFGElement &El : *B) {
          J::Object eo;
          if (auto CS = El.getAs<CFGStmt>()) {
            eo["s"] = emit(CS->getStmt(), F);
          } else if (auto CI = El.getAs<CFGInitializer>()) {
            auto p = InitPos.find(CI->getInitializer());
            eo["init"] = p == InitPos.end() ? -1 : p->second;
          } else if (auto AD = El.getAs<CFGAutomaticObjDtor>()) {
            eo["dtor"] = "auto";
            eo["d"] = declIdx(AD->getVarDecl());
            if (AD->getTriggerStmt()) eo["trigger"] = emit(AD->getTriggerStmt(), F);
          } else if (auto TD = El.getAs<CFGTemporaryDtor>()) {
            eo["dtor"] = "temp";
            eo["s"] = emit(TD->getBindTemporaryExpr(), F);
          } else if (auto MD = El.getAs<CFGMemberDtor>()) {
            eo["dtor"] = "member";
            eo["d"] = declIdx(MD->getFieldDecl());
          } else if (auto BD = El.getAs<CFGBaseDtor>()) {
            eo["dtor"] = "base";
          } else if (auto DD = El.getAs<CFGDeleteDtor>()) {
            eo["dtor"] = "delete";
            eo["s"] = emit(DD->getDeleteExpr(), F);
          } else {
            eo["other"] = (int64_t)El.getKind();
          }
          els.push_back(std::move(eo));
        }
        bo["el"] = std::move(els);
        if (const Stmt *T = B->getTerminatorStmt()) {
          bo["term"] = emit(T, F);
          bo["tk"] = T->getStmtClassName();
          if (B->getTerminator().isTemporaryDtorsBranch()) bo["tdtor"] = true;
        }
        if (const Stmt *C = B->getTerminatorCondition(false)) bo["cond"] = emit(C, F);
        if (const Stmt *Lb = B->getLabel()) bo["label"] = emit(Lb, F);
        if (B->hasNoReturnElement()) bo["noreturn"] = true;
        J::Array succ, usucc;
        for (auto SI = B->succ_begin(); SI != B->succ_end(); ++SI) {
          if (const CFGBlock *R = SI->getReachableBlock()) succ.push_back((int64_t)R->getBlockID());
          else succ.push_back(nullptr);
          if (const CFGBlock *U = SI->getPossiblyUnreachableBlock()) usucc.push_back((int64_t)U->getBlockID());
          else usucc.push_back(nullptr);
        }
        bo["succ"] = std::move(succ);
        bo["usucc"] = std::move(usucc);
        blocks.push_back(std::move(bo));
      }
      cfg["blocks"] = std::move(blocks);
      o["cfg"] = std::move(cfg);
    }
    o["inits"] = std::move(inits);
    o["nodes"] = std::move(F.Nodes);
    Functions.push_back(std::move(o));
  }

  bool VisitFunctionDecl(FunctionDecl *FD) {
    if (!FD->doesThisDeclarationHaveABody()) return true;
    if (!wanted(FD->getLocation())) return true;
    if (!FnRoots.empty()) {
      std::string p = filePath(FD->getLocation());
      bool ok = false;
      for (auto &r : FnRoots)
        if (StringRef(p).startswith(r)) { ok = true; break; }
      if (!ok) return true;
    }
    const char *kind = "no";
    if (FD->isDependentContext()) {
      if (NoPatterns) return true;
      kind = "pattern";
    } else if (FD->isTemplateInstantiation() ||
               (isa<CXXMethodDecl>(FD) &&
                isa<ClassTemplateSpecializationDecl>(cast<CXXMethodDecl>(FD)->getParent()) &&
                cast<ClassTemplateSpecializationDecl>(cast<CXXMethodDecl>(FD)->getParent())->getSpecializationKind() !=
                    TSK_ExplicitSpecialization))
      kind = "inst";
    else if (FD->getTemplateSpecializationKind() == TSK_ExplicitSpecialization) kind = "spec";
    dumpFunction(FD, kind);
    while (!LambdaQueue.empty()) {
      const FunctionDecl *L = LambdaQueue.back();
      LambdaQueue.pop_back();
      dumpFunction(L, L->isDependentContext() ? "pattern" : "no");
    }
    return true;
  }

  bool VisitCXXRecordDecl(CXXRecordDecl *RD) {
    if (!RD->isThisDeclarationADefinition()) return true;
    if (!wanted(RD->getLocation())) return true;
    if (RD->isLambda()) return true;
    if (!DoneRecs.insert(RD).second) return true;
    J::Object o;
    o["q"] = qname(RD);
    o["qp"] = qnamePlain(RD);
    o["file"] = filePath(RD->getLocation());
    o["l"] = (int64_t)lineOf(RD->getLocation());
    o["kind"] = RD->getKindName().str();
    bool dep = RD->isDependentContext();
    if (dep) o["tmpl"] = "pattern";
    else if (isa<ClassTemplateSpecializationDecl>(RD)) {
      auto k = cast<ClassTemplateSpecializationDecl>(RD)->getSpecializationKind();
      o["tmpl"] = k == TSK_ExplicitSpecialization ? "spec" : "inst";
    } else o["tmpl"] = "no";
    J::Array bases;
    for (const CXXBaseSpecifier &B : RD->bases()) {
      J::Object bo;
      bo["t"] = typeIdx(B.getType());
      if (const auto *BR = B.getType()->getAsCXXRecordDecl()) { bo["q"] = qname(BR); bo["qp"] = qnamePlain(BR); }
      if (B.isVirtual()) bo["virtual"] = true;
      bases.push_back(std::move(bo));
    }
    o["bases"] = std::move(bases);
    J::Array fields;
    for (const FieldDecl *FDl : RD->fields()) {
      J::Object fo;
      fo["d"] = declIdx(FDl);
      fo["n"] = FDl->getNameAsString();
      fo["t"] = typeIdx(FDl->getType());
      if (FDl->hasInClassInitializer()) fo["dmi"] = true;
      if (FDl->isMutable()) fo["mutable"] = true;
      fields.push_back(std::move(fo));
    }
    o["fields"] = std::move(fields);
    J::Array methods;
    for (const Decl *D : RD->decls()) {
      const FunctionDecl *M = dyn_cast<FunctionDecl>(D);
      if (const auto *FT = dyn_cast<FunctionTemplateDecl>(D)) M = FT->getTemplatedDecl();
      if (!M || M->isImplicit()) continue;
      methods.push_back(declIdx(M));
    }
    o["methods"] = std::move(methods);
    J::Array svars;
    for (const Decl *D : RD->decls())
      if (const auto *V = dyn_cast<VarDecl>(D)) svars.push_back(declIdx(V));
    if (!svars.empty()) o["statics"] = std::move(svars);
    if (!dep && RD->isAbstract()) o["abstract"] = true;
    Records.push_back(std::move(o));
    return true;
  }

  bool VisitEnumDecl(EnumDecl *ED) {
    if (!ED->isThisDeclarationADefinition()) return true;
    if (!wanted(ED->getLocation())) return true;
    J::Object o;
    o["q"] = qname(ED);
    o["qp"] = qnamePlain(ED);
    o["file"] = filePath(ED->getLocation());
    o["l"] = (int64_t)lineOf(ED->getLocation());
    J::Array es;
    for (const EnumConstantDecl *E : ED->enumerators()) {
      J::Array one;
      one.push_back(E->getNameAsString());
      one.push_back(E->getInitVal().getExtValue());
      es.push_back(std::move(one));
    }
    o["e"] = std::move(es);
    Enums.push_back(std::move(o));
    return true;
  }

  bool VisitTypedefNameDecl(TypedefNameDecl *TD) {
    if (!wanted(TD->getLocation())) return true;
    if (TD->getDeclContext()->isDependentContext() || TD->getUnderlyingType()->isDependentType()) return true;
    if (!isa<NamespaceDecl>(TD->getDeclContext()) && !isa<TranslationUnitDecl>(TD->getDeclContext())) return true;
    J::Object o;
    o["q"] = qname(TD);
    o["n"] = TD->getNameAsString();
    o["t"] = typeIdx(TD->getUnderlyingType());
    o["file"] = filePath(TD->getLocation());
    o["l"] = (int64_t)lineOf(TD->getLocation());
    Aliases.push_back(std::move(o));
    return true;
  }

  bool VisitVarDecl(VarDecl *VD) {
    if (!VD->hasGlobalStorage()) return true;
    if (isa<ParmVarDecl>(VD)) return true;
    if (!wanted(VD->getLocation())) return true;
    const VarDecl *Def = VD;
    const Expr *Init = VD->getAnyInitializer(Def);
    if (!Init) return true;
    if (Def != VD) return true;          // dump once, at the declaration that owns the initialiser
    if (!DoneVars.insert(VD).second) return true;
    FnCtx F;
    F.File = filePath(VD->getLocation());
    J::Object o;
    o["decl"] = declIdx(VD);
    o["q"] = qname(VD);
    o["qp"] = qnamePlain(VD);
    o["n"] = VD->getNameAsString();
    o["t"] = typeIdx(VD->getType());
    o["file"] = F.File;
    o["l"] = (int64_t)lineOf(VD->getLocation());
    if (VD->isStaticLocal()) {
      o["local"] = true;
      if (const auto *PF = dyn_cast<FunctionDecl>(VD->getDeclContext())) o["infn"] = qname(PF);
    }
    o["init"] = emit(Init, F);
    o["nodes"] = std::move(F.Nodes);
    Vars.push_back(std::move(o));
    return true;
  }

  void write(raw_ostream &OS, StringRef mainFile) {
    J::Object top;
    top["tu"] = mainFile.str();
    top["functions"] = std::move(Functions);
    top["records"] = std::move(Records);
    top["enums"] = std::move(Enums);
    top["vars"] = std::move(Vars);
    top["aliases"] = std::move(Aliases);
    top["types"] = std::move(TypeTab);
    top["decls"] = std::move(DeclTab);
    top["files"] = std::move(FileTab);
    OS << J::Value(std::move(top));
  }
};

class Consumer : public ASTConsumer {
  std::string Main;
public:
  explicit Consumer(StringRef m) : Main(m.str()) {}
  void HandleTranslationUnit(ASTContext &Ctx) override {
    Dumper D(Ctx);
    D.TraverseDecl(Ctx.getTranslationUnitDecl());
    std::error_code EC;
    raw_fd_ostream OS(OutFile, EC);
    if (EC) { errs() << "cannot write " << OutFile << ": " << EC.message() << "\n"; return; }
    D.write(OS, Main);
  }
};

class Action : public ASTFrontendAction {
public:
  std::unique_ptr<ASTConsumer> CreateASTConsumer(CompilerInstance &, StringRef File) override {
    return std::make_unique<Consumer>(File);
  }
};

} // namespace

int main(int argc, const char **argv) {
  auto Exp = tooling::CommonOptionsParser::create(argc, argv, Cat);
  if (!Exp) { errs() << toString(Exp.takeError()); return 2; }
  tooling::ClangTool Tool(Exp->getCompilations(), Exp->getSourcePathList());
  return Tool.run(tooling::newFrontendActionFactory<Action>().get());
}
