"""C03 — codec is memory-safe and total on arbitrary input."""
from ..facts import Program, AnalysisBroken, WITNESS_FIELDS
from .. import q, extent

CLAIM = {
    'text': 'Extent and loop-progress rules on the codec: for every call of the tag/value extractors the number of bytes the callee can '
            'write through each destination pointer (callee summary: pointer bump stores bounded by a dominating comparison with an end '
            'pointer derived from a capacity parameter; memcpy length + terminator) is compared with the capacity of the destination '
            'array at the call site, following one level of pointer parameters; every loop of the decoder strictly advances its offset on '
            'each cycle or leaves; fixed-size stack buffers handed to the encoder need a capacity that the encoder honours; raw reads '
            'through std::string::data() need a dominating size/terminator argument.',
    'note': 'Trusted: clang CFG, extractor. Undecided: absence of other undefined behaviour (aliasing in calc_chksum, memcpy of '
            'non-trivial types), exception types, totality of the generated field constructors.',
    'technique': 'callee extent summaries × call-site capacities (interval facts from dominating guards); loop-progress (no stagnant cycle)',
}
UNITS = ['runtime/message.cpp', 'runtime/connection.cpp', 'runtime/session.cpp']
EXPLANATION = (
    "Decided: R03.1 each call of MessageBase::extract_element(char*…)/extract_element_fixed_width: bytes written through tag/val ≤ "
    "capacity of the actual destination (arrays tag/val/len/mtype; `len`/`mtype` followed through extract_header into Message::factory); "
    "R03.2 fixed-width extractor: memcpy length + terminator ≤ destination under the caller's dominating guard on the decoded length; "
    "R03.3 each fixed-size stack array handed to Message::encode(char**): the encoder chain has no capacity parameter; R03.4 loop "
    "progress of MessageBase::decode's field loop and of both loops of decode_group; R03.5 extract_trailer reads `size-7` without a "
    "size guard; fast_atoi with a non-NUL terminator on string data. R03.6 Message::factory refuses the MsgType texts \"header\" and \"trailer\" (table entries that build a MessageBase) before creating the object. R03.7 Field<int|unsigned|double,N>::print writes through its argument only via the frozen set of length-bounded renderers. R03.8 every sockRead into the reader's frame buffer is bounded by the buffer and the byte-wise preamble loop is bounded (rules of C15 R15.1). NOT decided: other UB, generated code, exception types.")

MB = 'FIX8::MessageBase::'


def _callers_capacity(prog, fn, pidx):
    """minimum array capacity of the arguments bound to parameter pidx of fn over all call sites in the program"""
    caps = []
    for f in prog.all_functions():
        for c in f.calls_to(fn.qp):
            if c.callee_q != fn.q or pidx >= len(c.args):
                continue
            caps.append(q.array_capacity(c.args[pidx]))
    if not caps or any(c is None for c in caps):
        return None
    return min(caps)


def run(ctx):
    prog = Program(UNITS)
    ctx.units.update(UNITS)
    # ---------------- R03.1 / R03.2
    ee = prog.fn1(MB + 'extract_element', sig='char *, char *')
    fw = prog.fn1(MB + 'extract_element_fixed_width')
    ctx.saw(ee), ctx.saw(fw)
    summ = {
        (ee.q, ee.sig): {2: extent.summarise(ee, 2), 3: extent.summarise(ee, 3)},
        (fw.q, fw.sig): {3: extent.summarise(fw, 3), 4: extent.summarise(fw, 4)},
    }
    for k, d in summ.items():
        for i, s in d.items():
            ctx.note('summary %s param %d: %s cap_param=%s slack=%s %s' % (k[0], i, s.kind, s.cap_param, s.slack, s.reason))
    n_sites = 0
    for f in prog.all_functions():
        for c in f.calls():
            key = (c.callee_q, c.callee.get('sig')) if c.callee else None
            if key not in summ:
                continue
            ctx.saw(f)
            siblings = [x for x in f.calls() if x.callee is not None and (x.callee_q, x.callee.get('sig')) == key]
            ordinal = siblings.index(c)
            for pidx, s in summ[key].items():
                n_sites += 1
                dest = c.args[pidx]

                def capacity_of(d, _f=f):
                    dd = d.strip(casts=True)
                    if dd.k == 'DeclRefExpr' and dd.declid in _f.param_ids:
                        return _callers_capacity(prog, _f, _f.param_ids.index(dd.declid))
                    return None
                ok, need, cap, why = extent.check_site(f, c, s, pidx, capacity_of)
                rule = 'R03.2' if s.kind == 'len' else 'R03.1'
                pname = c.callee['pn'][pidx]
                ctx.check(ok, rule, '%s#%s@%d.%s<-%s' % (f.qp, c.callee['n'], ordinal, pname, dest.text()[:24]), c.loc,
                          '%s writes at most %s byte(s) through `%s` into `%s` (%s bytes): %s' % (c.callee['n'], need, pname, dest.text(), cap, why),
                          '%s can write past `%s` (%s bytes) through its `%s` parameter: %s' % (c.callee['n'], dest.text(), cap, pname, why))
    ctx.need(n_sites >= 14, 'fewer than 14 extractor destination sites found (%d)' % n_sites)

    # ---------------- R03.3 stack buffers handed to the encoder
    enc = prog.fn1('FIX8::Message::encode', sig='char **')
    ctx.saw(enc)
    has_cap = len(enc.param_ids) > 1
    n_enc = 0
    for f in prog.all_functions():
        for c in f.calls():
            if c.callee_q != enc.q or (c.callee or {}).get('sig') != enc.sig:
                continue
            # &ptr where ptr initialised from a local array
            a = c.args[0].strip(casts=True)
            if not (a.k == 'UnaryOperator' and a.op == '&'):
                continue
            p = a.children[0].strip(casts=True)
            if p.k != 'DeclRefExpr':
                continue
            caps = [q.array_capacity(val) for (dn, kind, val) in q.local_defs(f, p.declid) if kind == 'init' and val is not None]
            if not caps or caps[0] is None:
                continue
            n_enc += 1
            ctx.saw(f)
            ctx.check(has_cap, 'R03.3', f.qp + '#encode-into-stack-buffer', c.loc,
                      'the encoder is told the capacity of the %d-byte stack buffer' % caps[0],
                      'a %d-byte stack buffer is handed to Message::encode(char**), which has no capacity parameter: field values of arbitrary '
                      'length are rendered past its end' % caps[0])
    ctx.need(n_enc >= 2, 'fewer than 2 stack-buffer encode sites found (%d)' % n_enc)

    # ---------------- R03.4 loop progress
    dec = prog.fn1(MB + 'decode')
    ctx.saw(dec)
    loops = [n for n in dec.all_nodes() if n.k in ('ForStmt', 'WhileStmt') and n.child('cond') is not None and any(x.callee_q == ee.q for x in q.calls_in(n.child('cond')))]
    ctx.need(len(loops) == 1, 'decode(): field loop not found')
    p = q.loop_stagnant_cycle(dec, loops[0], dec.param_ids[1])
    ctx.check(p is None, 'R03.4', MB + 'decode#field-loop.progress', loops[0].loc, 'every cycle of the field loop advances the offset',
              'a cycle of the field loop leaves the offset unchanged', dec.cfg.describe_path(p) if p else None)
    dg = prog.fn1(MB + 'decode_group')
    ctx.saw(dg)
    so = dg.param_ids[3]
    floops = [n for n in dg.all_nodes() if n.k in ('ForStmt', 'WhileStmt')]
    ctx.need(len(floops) == 2, 'decode_group(): expected two nested loops')
    outers = [l for l in floops if any(x != l and x in list(l.walk()) for x in floops)]
    ctx.need(len(outers) == 1, 'decode_group(): the two loops are not nested')
    outer = outers[0]
    inner = [l for l in floops if l != outer][0]
    # the continue-flag: a bool local the group loop's condition requires to be true (declared in the for-init or before a while)
    okflag = [x.declid for x in outer.child('cond').walk() if x.k == 'DeclRefExpr' and x.decl is not None and x.decl.get('sc') == 'local' and
              dg.tu.types[x.decl['t']]['k'] == 'bool'] if outer.child('cond') is not None else []
    p = q.loop_stagnant_cycle(dg, inner, so)
    ctx.check(p is None, 'R03.4', MB + 'decode_group#inner-loop.progress', inner.loc, 'every cycle of the element loop advances the offset')
    p = q.loop_stagnant_cycle(dg, outer, so, flags=okflag)
    ctx.check(p is None, 'R03.4', MB + 'decode_group#outer-loop.progress', outer.loc,
              'every cycle of the group loop advances the offset, clears its continue-flag or leaves',
              'the group loop can cycle without consuming input: when the extractor returns 0 at a malformed token the loop keeps appending '
              'empty group elements for ever (hang / memory exhaustion)', dg.cfg.describe_path(p) if p else None)

    # ---------------- R03.5 raw reads
    tr = prog.fn1(MB + 'extract_trailer')
    ctx.saw(tr)
    rd = [c for c in tr.calls() if c.callee_qp == MB + 'extract_element']
    ctx.need(len(rd) == 1, 'extract_trailer: extract_element call not found')
    lf = q.linear(rd[0].args[0], sym=lambda x: 'DATA' if x.is_call and x.callee is not None and x.callee.get('n') == 'data' else
                  'SIZE' if x.is_call and x.callee is not None and x.callee.get('n') == 'size' else x.text())
    back = -lf.c if lf.t == {'DATA': 1, 'SIZE': 1} else None
    guarded = False
    if back is not None:
        for (a, pol) in q.controlling_atoms(tr, rd[0]):
            s = a.strip(casts=True)
            if s.k == 'BinaryOperator' and any(x.is_call and x.callee is not None and x.callee.get('n') == 'size' for x in s.walk()):
                guarded = True
        # or every caller guards
        if not guarded:
            callers = [(f, c) for f in prog.all_functions() for c in f.calls_to(MB + 'extract_trailer')]
            guarded = bool(callers) and all(any(any(x.is_call and x.callee is not None and x.callee.get('n') == 'size' for x in a.walk())
                                                 for (a, pol) in q.controlling_atoms(f, c)) for (f, c) in callers)
    ctx.check(back is None or guarded, 'R03.5', MB + 'extract_trailer#size-guard', rd[0].loc,
              'reading the last %s bytes of the message is guarded by a size test' % back,
              'extract_trailer reads from data() + size() - %s without any test that the string is that long' % back)
    pr = prog.fn1('FIX8::Session::process')
    ctx.saw(pr)
    fa = [c for c in pr.calls() if c.callee_qp == 'FIX8::fast_atoi' and len(c.args) == 2 and c.args[1].strip(casts=True).value not in (0, None)
          or (c.callee_qp == 'FIX8::fast_atoi' and len(c.args) == 2 and c.args[1].k != 'CXXDefaultArgExpr' and c.args[1].strip(casts=True).value != 0)]
    for c in fa:
        term = c.args[1].strip(casts=True).value
        # accepted proofs: the terminator is searched for after the start position before parsing
        finds = [x for x in pr.calls() if x.callee is not None and x.callee.get('n') in ('find', 'find_first_of') and
                 pr.cfg.dominates(pr.cfg.vertex_of(x), pr.cfg.vertex_of(c)) and x.args and
                 (x.args[0].strip(casts=True).value == term) and len(x.args) > 1 and x.args[1].k != 'CXXDefaultArgExpr']
        ctx.check(bool(finds), 'R03.5', 'FIX8::Session::process#fast_atoi.terminator', c.loc,
                  'fast_atoi(…, terminator %r) is preceded by a search proving the terminator occurs after the start' % chr(term),
                  'fast_atoi scans string data for terminator 0x%02x with no proof that it occurs: a message ending inside the MsgSeqNum value is '
                  'read past its end' % term)
    # ---------------- R03.7 numeric fields are rendered by renderers with a fixed upper bound on their output (the encoder has no capacity parameter,
    # R03.3: what a numeric field can write must at least not depend on its value): frozen table of bounded renderers
    BOUNDED = {'FIX8::modp_dtoa': 'same', 'modp_dtoa': 'clamps the precision to 9 and switches to %e above 2^31', 'FIX8::itoa': 'at most 20 digits and a sign',
               'FIX8::format0': 'writes exactly `width` characters', 'FIX8::date_time_format': 'fixed layouts of 6..21 characters'}
    progw = Program([WITNESS_FIELDS])
    ctx.units.add('witness/inst_fields.cpp')
    n_pr = 0
    seenT = set()
    for fpr in progw.all_functions():
        if fpr.qp != 'FIX8::Field::print' or not fpr.sig.startswith('size_t (char *)') or not fpr.rec:
            continue
        T = fpr.rec[len('FIX8::Field<'):fpr.rec.rfind(',')]
        if T in seenT or T not in ('int', 'unsigned int', 'double', 'float'):
            continue
        seenT.add(T)
        ctx.saw(fpr)
        n_pr += 1
        writers = sorted({c.callee_qp for c in fpr.calls() if c.callee_qp and c.args and
                          any(q.refers_to_decl(a, fpr.param_ids[0]) for a in c.args) })
        bad = [w for w in writers if w not in BOUNDED]
        ctx.check(writers and not bad, 'R03.7', 'FIX8::Field<%s>::print#bounded-renderer' % T, fpr.loc,
                  'the value is rendered into the caller\'s buffer only by %s' % ', '.join(writers),
                  'Field<%s,N>::print hands the encode buffer to `%s`, whose output length depends on the value (and on a precision taken from the wire): a decoded float with '
                  '10+ fraction digits and a large magnitude re-encodes to hundreds of bytes per field, past the end of the %s-byte buffers of R03.3'
                  % (T, bad[0] if bad else '?', 'FIX8_MAX_MSG_LENGTH+32'))
    ctx.need(n_pr >= 2, 'fewer than 2 numeric Field<T,N>::print(char*) instantiations found (%d)' % n_pr)
    # ---------------- R03.6 the message table also holds the two pseudo messages "header" and "trailer" (F8MetaCntx builds every message's header and
    # trailer from them); their factories return a MessageBase, not a Message, so a MsgType text naming one of them must be refused before the
    # object is used as a Message
    fac = prog.fn1('FIX8::Message::factory', sig='const FIX8::f8String &')
    ctx.saw(fac)
    fcfg = fac.cfg
    mk = [n for n in fac.all_nodes() if n.is_call and n.k != 'CXXConstructExpr' and fcfg.has_vertex(n) and
          any(x.strip(casts=True).k == 'MemberExpr' and x.strip(casts=True).decl['n'] == '_do' for x in ([n.obj] if n.obj is not None else []) + n.children[:1])]
    ctx.need(len(mk) == 1, 'factory: message creation call (_create._do) not found')
    mkv = fcfg.vertex_of(mk[0])
    for pseudo in ('header', 'trailer'):
        guarded = False
        for (b, a, pol) in q.branches(fac, lambda a: any(x.k == 'StringLiteral' and x.r.get('s') == pseudo for x in a.walk())):
            # one polarity of a test mentioning the literal must be unable to reach the creation call
            for way in (True, False):
                tg = q.edge_targets(fcfg, b, way)
                if tg and not any(mkv in (fcfg.reach_from(t) | {t}) for t in tg):
                    guarded = True
        ctx.check(guarded, 'R03.6', 'FIX8::Message::factory#pseudo-msgtype.' + pseudo, mk[0].loc,
                  'a MsgType text "%s" is refused before the table entry\'s object is used as a Message' % pseudo,
                  'the message table entry "%s" builds a MessageBase (it exists so that the context can create %ss); factory looks the wire MsgType up in the same '
                  'table and uses whatever the entry creates as a Message: `35=%s` crashes the decoder' % (pseudo, pseudo, pseudo))
    # ---------------- R03.8 the socket reader writes network bytes into its frame buffer: every sockRead(dest, n) there is bounded by the buffer
    # (offset and length from constants and dominating guards) and the byte-wise preamble loop is bounded — the extent rules of C15 (R15.1) re-stated
    # for this property, so that a change to the reader's buffer arithmetic is reported here as well
    from ..engine import Ctx as _Ctx
    from . import c15 as _c15
    sub15 = _Ctx('C15', ctx.tier)
    _c15.run(sub15)
    n15 = 0
    for o in sub15.obl:
        if o['rule'] == 'R15.1':
            n15 += 1
            ctx._rec(o['ok'], 'R03.8', o['key'].split('@', 1)[1], o['site'], o['what'], o['detail'])
    ctx.need(n15 >= 4, 'reader extent rules not evaluated (%d)' % n15)
    ctx.units.update(sub15.units)
    ctx.floor('R03.4', 3)
