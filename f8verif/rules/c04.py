"""C04 — strict decoding accepts exactly schema-conforming messages."""
from ..facts import Program, AnalysisBroken
from .. import q
from . import c02
from . import c07

CLAIM = {
    'text': 'Wiring rules on the strict decode path: the number of bytes the three section decoders consumed must be compared with the end of '
            'the checksummed region before Message::factory can return the message (otherwise fields after the first tag unknown to '
            'every section are dropped silently); the text of a tag is converted to a lookup key without wrap-around (non-wrapping '
            'parse, narrowing to 16 bits only under a dominating <= 65535 decision); every normal exit of the section decoder and of '
            'each group element passes the missing-mandatory test; a repeated non-automatic field throws DuplicateField; a group '
            'element whose first field is not at position 1 throws; returning the message is dominated by the "10=" position test and, '
            'unless disabled, by the checksum comparison; the field object is created from the value buffer filled by the same '
            'iteration\'s extraction.',
    'note': 'Trusted: clang CFG, extractor. Undecided: acceptance/rejection of concrete token sequences, generated field constructors, realm '
            '(domain) validation.',
    'technique': 'use-of-result / must-pass-through / control dependence on the CFG; interval from guards at narrowing conversions; provenance',
}
UNITS = ['runtime/message.cpp']
EXPLANATION = (
    "Decided: R04.1 the result of Message::decode in factory reaches a comparison with from.size()−ignore that guards a throw when not "
    "permissive; R04.2 each tag→key conversion in decode/decode_group: parser saturates or is length-guarded, and every narrowing to "
    "unsigned short lies under a decision bounding the value by 65535; R04.3 decode: find_missing() on every path to a return and a "
    "non-zero result throws; DuplicateField under present ∧ ¬automatic; decode_group: MissingRepeatingGroupField when pos == 0 and "
    "getPos != 1, find_missing per element; factory: `return msg` dominated by the \"10\" test and by chkval != mchkval → throw under "
    "!no_chksum; R04.4 `_create._do(val, …)` receives the array the extractor filled. R04.5 the checksum routine factory verifies with satisfies the C07 rules. NOT decided: concrete inputs.")

MB = 'FIX8::MessageBase::'
M = 'FIX8::Message::'


PARSERS = ('FIX8::fast_atoi', 'strtoul', 'strtol', 'atoi', 'std::stoul')


def _tag_conversions(fn, prog=None):
    """[(function, call)]: calls that convert the local char array `tag` to a number - directly in fn, or in a helper of the same unit that
    fn hands the array to (a refactoring may move the conversion into one)"""
    out = []
    handed = []
    for c in fn.calls():
        if not c.args:
            continue
        a = c.args[0].strip(casts=True)
        is_tag = a.k == 'DeclRefExpr' and a.decl['n'] == 'tag' and q.array_capacity(c.args[0]) is not None
        if c.callee_qp in PARSERS and is_tag:
            out.append((fn, c))
        elif is_tag and prog is not None and c.callee_qp and c.callee_qp not in PARSERS:
            handed.append(c)
    if not out and prog is not None:
        seen = set()
        for c in handed:
            for h in prog.fns(c.callee_qp):
                if h.tu is not fn.tu or h.q in seen or not h.param_ids:
                    continue
                seen.add(h.q)
                for c2 in h.calls():
                    if c2.callee_qp in PARSERS and c2.args and q.refers_to_decl(c2.args[0], h.param_ids[0]):
                        out.append((h, c2))
    return out


def tag_rule(ctx, prog, RID):
    """tag text -> 16-bit lookup key without wrap-around (C04: a tag above 65535 must be rejected; C05: it must stay an unknown tag)"""
    # ---------------- R04.2
    n_conv = 0
    for fq in (MB + 'decode', MB + 'decode_group'):
        f0 = prog.fn1(fq)
        ctx.saw(f0)
        convs = _tag_conversions(f0, prog)
        ctx.need(convs, fq + ': no tag conversion found')
        for i, (f, c) in enumerate(convs):
            ctx.saw(f)
            n_conv += 1
            rt = f.tu.types[c.callee['ret']]
            wraps = c.callee_qp == 'FIX8::fast_atoi' or c.callee_qp == 'atoi'
            if wraps:
                # a wrapping parser is acceptable only if the text length is bounded so that the value fits the result type
                bits = rt.get('bits', 0)
                maxdigits = len(str((1 << bits) - 1)) - 1
                lenguard = False
                for (a, pol) in q.controlling_atoms(f, c):
                    for x in a.walk():
                        if x.is_call and x.callee_qp == 'strlen' and q.same_expr(x.args[0], c.args[0]):
                            lo, hi = q.interval_from_guards(f, c, x)
                            lenguard = hi <= maxdigits
                ctx.check(lenguard, RID, '%s#tag-parse@%d' % (fq, i), c.loc, 'tag text is converted without wrap-around',
                          'tag text is converted with %s, which wraps modulo 2^%d: tag %d is taken for tag 108' % (c.callee_q, bits, (1 << bits) + 108))
                continue
            ctx.ok(RID, '%s#tag-parse@%d' % (fq, i), c.loc, 'tag text is converted with the saturating %s' % c.callee_qp)
            # narrowings of the wide value
            holder = c.parent
            while holder is not None and holder.k != 'DeclStmt':
                holder = holder.parent
            ctx.need(holder is not None, fq + ': wide tag value is not kept in a local')
            wide = [dd for dd, ii in holder.r['decls'] if ii >= 0 and c in list(f.node(ii).walk())][0]
            # the parser's full-width result must reach the range test: the local that keeps it is as wide as what the parser returns
            wt = f.tu.types[f.tu.decls[wide]['t']]
            ctx.check(wt.get('k') == 'int' and wt.get('bits', 0) >= rt.get('bits', 64), RID, '%s#tag-wide-kept@%d' % (fq, i), c.loc,
                      'the %d-bit result of %s is kept in a %d-bit local until it is range-tested' % (rt.get('bits', 64), c.callee_qp, wt.get('bits', 0)),
                      'the %d-bit result of %s is stored into the %d-bit local `%s` before the <= 65535 test: the upper bits are dropped first, so tag %d passes the '
                      'test and is taken for tag 112' % (rt.get('bits', 64), c.callee_qp, wt.get('bits', 0), f.tu.decls[wide]['n'], (1 << wt.get('bits', 32)) + 112))
            narrow = []
            for n in f.all_nodes():
                if n.k in ('ImplicitCastExpr', 'CXXStaticCastExpr', 'CStyleCastExpr', 'CXXFunctionalCastExpr') and n.type and n.type.get('k') == 'int' and n.type.get('bits', 64) <= 16:
                    if q.refers_to_decl(n.children[0], wide) and n.children[0].type and n.children[0].type.get('bits', 0) > 16:
                        narrow.append(n)
            ctx.check(bool(narrow), RID, '%s#tag-narrow.found@%d' % (fq, i), c.loc, 'the wide tag value is narrowed to a 16-bit key somewhere (%d site(s))' % len(narrow))
            for j, n in enumerate(narrow):
                lo, hi = q.interval_from_guards(f, n, n.children[0], match=lambda x: q.refers_to_decl(x, wide))
                ctx.check(hi <= 65535, RID, '%s#tag-narrow@%d.%d' % (fq, i, j), n.loc, 'narrowing to unsigned short happens only for values <= %s' % hi,
                          'tag value is narrowed to unsigned short without a dominating <= 65535 decision')
    ctx.need(n_conv >= 2, 'fewer than 2 tag conversions found (%d)' % n_conv)



def run(ctx):
    prog = Program(UNITS)
    ctx.units.update(UNITS)
    fac = prog.fn1(M + 'factory', sig='const FIX8::f8String &')
    ctx.saw(fac)
    fc = fac.cfg
    # ---------------- R04.1
    dec = [c for c in fac.calls() if c.callee_qp == M + 'decode']
    ctx.need(len(dec) == 1, 'factory: Message::decode call not found')
    d = dec[0]
    holder = d.parent
    while holder is not None and holder.k in ('ImplicitCastExpr', 'ParenExpr', 'ExprWithCleanups'):
        holder = holder.parent
    used = False
    why = 'the number of bytes consumed by Message::decode is discarded: in strict mode fields after the first tag unknown to every section are silently dropped and the message is accepted'
    sides = set()
    if holder is not None and holder.k == 'DeclStmt':
        var = holder.r['decls'][0][0]
        perm = fac.param_ids[3]
        for (b, a, pol) in q.branches(fac, lambda a: any(q.refers_to_decl(x, var) for x in a.walk() if x.k == 'DeclRefExpr')):
            s = a.strip(casts=True)
            if s.k == 'BinaryOperator' and s.op in ('!=', '<', '==', '>', '<=', '>=') and any(x.is_call and x.callee is not None and x.callee.get('n') == 'size' for x in s.walk()):
                bad_edge = q.atom_edge(fc, (b, a, pol), s.op != '==')     # for an ordering test: the edge on which it is true
                rs = q.reachable_returns(fc, bad_edge)
                atoms = q.controlling_atoms(fac, a)
                strict = any(q.refers_to_decl(x, perm) and p is False for x, p in atoms)
                if not rs and strict:
                    used = True
                    sides.add({'!=': 'both', '==': 'both', '<': 'short', '>': 'long', '<=': 'short', '>=': 'long'}[s.op])
                elif rs:
                    why = 'a consumed-length mismatch does not prevent `return msg`'
                else:
                    why = 'the consumed-length test is not restricted to strict mode'
    ctx.check(used, 'R04.1', M + 'factory#consumed-length', d.loc,
              'in strict mode a message is returned only when the decoders consumed everything before the CheckSum', why)
    if used:
        exact = 'both' in sides or {'short', 'long'} <= sides
        ctx.check(exact, 'R04.1', M + 'factory#consumed-length.exact', d.loc,
                  'the consumed length is rejected on both sides (too short: undecoded fields; too long: a data field ran into the CheckSum)',
                  'the consumed-length test rejects only %s decodes: a Length/data pair whose declared length runs into the trailer consumes more '
                  'than the checksummed region and the message is accepted with the CheckSum field swallowed' % ('/'.join(sorted(sides)) or 'no'))

    tag_rule(ctx, prog, 'R04.2')

    # ---------------- R04.3
    f = prog.fn1(MB + 'decode')
    cfg = f.cfg
    fm = f.calls_to('FIX8::FieldTraits::find_missing')
    ctx.need(len(fm) == 1, 'decode: find_missing not found')
    ctx.check(q.escape_path(cfg, [cfg.entry], {cfg.vertex_of(fm[0])}) is None, 'R04.3', MB + 'decode#missing.always', fm[0].loc, 'every normal return passes find_missing()')
    mh = fm[0].parent
    while mh is not None and mh.k != 'DeclStmt':
        mh = mh.parent
    mv = mh.r['decls'][0][0]
    mb = q.branches(f, lambda a: q.refers_to_decl(a, mv))
    ctx.check(len(mb) == 1 and not q.reachable_returns(cfg, q.atom_edge(cfg, mb[0], True)), 'R04.3', MB + 'decode#missing.throws', fm[0].loc,
              'a missing mandatory field leaves only by exception')
    dup = [n for n in f.all_nodes() if n.k == 'CXXThrowExpr' and n.children and 'DuplicateField' in n.children[0].tstr]
    okd = False
    if len(dup) == 1:
        atoms = q.controlling_atoms(f, dup[0])
        def has_trait(a, name):
            return any(x.is_call and x.callee is not None and x.callee.get('n') == 'has' and x.args and x.args[0].strip(casts=True).text().endswith(name) for x in a.walk())
        okd = any(has_trait(a, 'present') and p for a, p in atoms) and any(has_trait(a, 'automatic') and p is False for a, p in atoms)
    ctx.check(okd, 'R04.3', MB + 'decode#duplicate', dup[0].loc if dup else f.loc, 'DuplicateField is thrown exactly for a field already present and not automatic')
    g = prog.fn1(MB + 'decode_group')
    gc = g.cfg
    mr = [n for n in g.all_nodes() if n.k == 'CXXThrowExpr' and n.children and 'MissingRepeatingGroupField' in n.children[0].tstr]
    okm = False
    if len(mr) == 1:
        atoms = q.controlling_atoms(g, mr[0])
        okm = any(a.strip(casts=True).k == 'BinaryOperator' and a.strip(casts=True).op == '==' and a.strip(casts=True).children[1].strip(casts=True).value == 0 and p for a, p in atoms) and \
            any(a.strip(casts=True).k == 'BinaryOperator' and a.strip(casts=True).op == '!=' and a.strip(casts=True).children[1].strip(casts=True).value == 1 and p and
                any(x.is_call and x.callee is not None and x.callee.get('n') == 'getPos' for x in a.walk()) for a, p in atoms)
    ctx.check(okm, 'R04.3', MB + 'decode_group#first-field', mr[0].loc if mr else g.loc, 'an element whose first field is not the group\'s position-1 field throws')
    # ... for EVERY element: the field counter tested against 0 starts at 0 again for each element (it is defined inside the element loop)
    if len(mr) == 1:
        cnt = None
        for a, p in q.controlling_atoms(g, mr[0]):
            sa = a.strip(casts=True)
            if sa.k == 'BinaryOperator' and sa.op == '==' and sa.children[1].strip(casts=True).value == 0 and p and sa.children[0].strip(casts=True).k == 'DeclRefExpr':
                cnt = sa.children[0].strip(casts=True).declid
        ctx.need(cnt is not None, 'decode_group: the per-element field counter of the first-field test not found')
        zero_defs = [dn for (dn, kind, val) in q.local_defs(g, cnt) if kind in ('init', 'assign') and val is not None and val.strip(casts=True).value == 0 and gc.has_vertex(dn)]
        app_v = [gc.vertex_of(c) for c in app] if False else None
        per_elem = any(gc.vertex_of(dn) in gc.reach_from(gc.vertex_of(dn)) for dn in zero_defs)      # on a cycle = executed once per element
        ctx.check(bool(zero_defs) and per_elem, 'R04.3', MB + 'decode_group#first-field.every-element', mr[0].loc,
                  'the field counter of the first-field test is reset to 0 inside the element loop',
                  'the counter tested by the first-field check is set to 0 only once, outside the element loop: from the second element on the check never fires, and an '
                  'element that begins with a non-first member (78=2|79=A|80=1|80=2|79=B) is accepted in strict mode')
    gfm = g.calls_to('FIX8::FieldTraits::find_missing')
    app = [c for c in g.calls() if c.callee is not None and c.r.get('op') == '<<' and 'GroupBase' in (c.callee.get('rec') or '')]
    ctx.check(len(gfm) == 1 and len(app) == 1 and gc.dominates(gc.vertex_of(gfm[0]), gc.vertex_of(app[0])), 'R04.3', MB + 'decode_group#missing-per-element', g.loc,
              'each element is checked for missing mandatory fields before it is appended')
    rets = [(v, n) for (v, kind, n) in fc.exits() if kind == 'return']
    ctx.need(len(rets) >= 1, 'factory: no return found')
    def is_ten(a, p):
        s = a.strip(casts=True)
        if s.k != 'BinaryOperator' or s.children[1].strip(casts=True).value not in (ord('1'), ord('0')):
            return False
        return (s.op == '!=' and p is False) or (s.op == '==' and p is True)
    # every normal return (there may be an early one for the no-checksum mode) lies behind both character tests
    ok10 = all(sum(1 for a, p in [q.polar(c, w) for (c, w) in fc.controlling(rv)] if is_ten(a, p)) == 2 for (rv, rn) in rets)
    ctx.check(ok10, 'R04.3', M + 'factory#trailer-position', fac.loc, '`return msg` requires "10" seven bytes before the end')
    nock = fac.param_ids[2]
    cmpb = q.branches(fac, lambda a: a.strip(casts=True).k == 'BinaryOperator' and a.strip(casts=True).op in ('!=', '==') and
                      all(x.strip(casts=True).k == 'DeclRefExpr' and x.strip(casts=True).decl['n'] in ('chkval', 'mchkval') for x in a.strip(casts=True).children))
    okc = False
    if len(cmpb) == 1:
        bad = q.atom_edge(fc, cmpb[0], cmpb[0][1].strip(casts=True).op == '!=')
        okc = not q.reachable_returns(fc, bad) and any(q.refers_to_decl(a, nock) and p is False for a, p in q.controlling_atoms(fac, cmpb[0][1]))
        # and with checking enabled the comparison cannot be bypassed
        def checking(v, w, lab):
            if lab is None or not isinstance(lab[1], bool):
                return True
            a, p = q.polar(fc.cond_node(lab[0]), lab[1])
            return not (q.refers_to_decl(a, nock) and p is True)
        okc = okc and q.escape_path(fc, [fc.entry], {fc.block_last[cmpb[0][0]]}, edge_ok=checking) is None
    ctx.check(okc, 'R04.3', M + 'factory#checksum', fac.loc, 'unless disabled, a CheckSum mismatch throws and the comparison cannot be bypassed')
    ck = [c for c in fac.calls() if c.callee_qp == M + 'calc_chksum']
    okr = False
    if len(ck) == 1:
        lf = q.linear(ck[0].args[-1], sym=lambda x: 'SIZE' if (x.is_call and x.callee is not None and x.callee.get('n') == 'size') else x.text())
        okr = lf.t == {'SIZE': 1} and lf.c == -7 and ck[0].args[1].strip(casts=True).value == 0
    ctx.check(okr, 'R04.3', M + 'factory#checksum.range', fac.loc, 'the CheckSum is verified over bytes [0, size − 7)')
    # ---------------- R04.6 the position index keeps every field of a section: a strictly decoded message whose trailer carries SignatureLength/Signature
    # numbers them 2 and 3, and the generated trailer already holds CheckSum at 3 (rule of C02 R02.5 / C01 R01.6: the index is a multimap)
    c02.pos_type_rule(ctx, prog, 'R04.6')
    # ---------------- R04.4
    for fq in (MB + 'decode', MB + 'decode_group'):
        f = prog.fn1(fq)
        mk = [n for n in f.all_nodes() if n.is_call and n.k != 'CXXConstructExpr' and
              any(x.strip(casts=True).k == 'MemberExpr' and x.strip(casts=True).decl['n'] == '_do' for x in ([n.obj] if n.obj is not None else []) + n.children[:1])]
        ee = [c for c in f.calls() if c.callee_qp == MB + 'extract_element' and 'char *, char *' in c.callee.get('sig', '')]
        ctx.need(mk and ee, fq + ': field factory call / extraction not found')
        for c in mk:
            a = c.args[0].strip(casts=True)
            same = a.k == 'DeclRefExpr' and all(q.refers_to_decl(e.args[3], a.declid) for e in ee)
            ctx.check(same, 'R04.4', fq + '#value-buffer', c.loc, 'the field is created from the value buffer the extractor filled')
            # and the key looked up is the tag parsed from the same extraction: the factory entry comes from find_be(tv)
    # R04.5 the CheckSum verified by factory is computed by Message::calc_chksum: the C07 rules apply (a wrong sum rejects a conforming message
    # and accepts a corrupted one)
    c07.rules(ctx, prog, rid='R04.5')
    ctx.floor('R04.5', 8)
    ctx.floor('R04.3', 7)
    ctx.floor('R04.4', 2)
