// R08.1: every int rendered by itoa must parse back with fast_atoi.
#include <fix8/f8includes.hpp>
#include <climits>
using namespace FIX8;
int main()
{
    bool ok = true;
    for (int v : {0, 5, -5, 12345, -12345, INT_MAX, INT_MIN, -1})
    {
        char buf[32]; itoa(v, buf, 10);
        int back = fast_atoi<int>(buf);
        if (back != v) { ok = false; std::cout << v << " -> \"" << buf << "\" -> " << back << std::endl; }
    }
    std::cout << (ok ? "HOLDS" : "DEFECT: negative integers do not round-trip") << std::endl;
    return ok ? 0 : 1;
}
