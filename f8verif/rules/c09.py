"""C09 — date/time field codecs are calendar-correct inverses (layout and width clauses; calendar identity declined)."""
from ..facts import Program, AnalysisBroken, WITNESS_FIELDS
from .. import q
from ..interval import Evaluator, IV
from .. import memo

CLAIM = {
    'text': 'Interval and layout-agreement rules on the time codec: every arithmetic node of time_to_epoch is evaluated over intervals for the '
            'property\'s input range (years 1970..2099, valid month/day/time) and must fit its computation type; the month table is the '
            'cumulative day count; for each of the six TimeIndicator layouts the sequence of (offset, width, calendar field) written by '
            'date_time_format equals the sequence read by the matching parser (date_time_parse / time_parse / date_parse) for the length '
            'constant it switches on, separators sit exactly where the parser skips one byte, the total lengths agree, and the field '
            'offsets (+1900 / −1900, +1 / −1) are inverse.',
    'note': 'NOT decided: the leap-day formula as a calendar identity over 130 years, and the rounding of the human-readable log renderer '
            '(GetTimeAsStringMS) — floating point / arithmetic identities without a sound static argument in reach. Layout extraction '
            'follows the formatter/parser CFG under each indicator/length value (abstract evaluation of the decision structure; no fix8 '
            'code runs).',
    'technique': 'interval evaluation of integer expression trees with C++ computation types; formatter/parser layout tables extracted from the CFG; static-storage state: one-entry cache idioms (first-call substitution, range of the skipped refresh)',
}
UNITS = [WITNESS_FIELDS]
LOG_UNITS = ['runtime/f8utils.cpp']
EXPLANATION = (
    "Decided: R09.1 time_to_epoch: no signed arithmetic node can exceed its type for tm_year 70..199, tm_mon 0..11, tm_mday 1..31, "
    "0..23 h, 0..59 min, 0..60 s, utcdiff 0; mon_days[i] = cumulative days before month i; R09.2 layouts: _with_ms(21) _sec_only(17) ↔ "
    "date_time_parse, _time_with_ms(12) _time_only(8) ↔ time_parse, _date_only(8) _short_date_only(6) ↔ date_parse: same "
    "(offset,width,field) list, separators at skipped offsets, equal total length, inverse field offsets; R09.3 format0 writes exactly "
    "`width` digits, parse_decimal consumes exactly `len`. R09.5 the scratch array of every date/time stream printer is a zero-initialised automatic local. R09.6 the codec functions and the Tickval accessors they use carry no state between calls in static/thread_local locals, or the state is a one-entry cache whose first call refreshes and whose skipped refresh implies the key of the current input (equality idiom, floor idiom with a range test; other cache shapes: exit 2). R09.7 the codec and the log renderers convert through gmtime_r/localtime_r (own struct tm), never the shared-buffer gmtime/localtime. NOT decided: log renderer rounding; that a cached value depends on the instant only through its key.")


_TOD = {}
_PROG = []


def _layout(fn, env, ptr_decl, is_writer):
    """follow fn under env; returns (fields [(off,width,name)], seps {off: char or None}, final pos)"""
    pos = [0]
    fields, seps = [], {}
    cfg = fn.cfg

    def fname(n):
        for x in n.walk():
            if x.k == 'MemberExpr' and x.decl['n'].startswith('tm_'):
                return x.decl['n']
            if x.is_call and x.callee is not None and x.callee.get('n') == 'msecs':
                return 'ms'
            if x.k == 'DeclRefExpr' and x.decl.get('n') == 'millisecond':
                return 'ms'
        # a time-of-day component computed from one local second-of-day count: decided by evaluating the expression tree for every value 0..86399
        # (that the local stays inside one day is R09.6's range obligation on the cache it is derived from)
        leaves = {x.declid for x in n.walk() if x.k == 'DeclRefExpr' and x.decl.get('sc') == 'local' and x.value is None}
        if len(leaves) == 1:
            key = (fn.q, n.i)
            if key not in _TOD:
                d = next(iter(leaves))
                vals = [q.eval_int(n, {d: v}) for v in range(86400)]
                _TOD[key] = '?'
                for nm, f in (('tm_hour', lambda v: v // 3600), ('tm_min', lambda v: v // 60 % 60), ('tm_sec', lambda v: v % 60)):
                    if all(vals[v] == f(v) for v in range(86400)):
                        _TOD[key] = nm
            if _TOD[key] != '?':
                return _TOD[key]
        raise AnalysisBroken('rendered / parsed value `%s` is not recognised as a calendar field at %s' % (n.text(), n.loc))

    def visit(n, e):
        if n.is_call and n.callee_qp == 'FIX8::format0' and is_writer:
            fields.append((pos[0], n.args[2].strip(casts=True).value, fname(n.args[0])))
        elif n.is_call and n.callee_qp == 'FIX8::parse_decimal' and not is_writer:
            fields.append((pos[0], n.args[1].strip(casts=True).value, fname(n.args[2])))
        elif n.k == 'UnaryOperator' and n.op == '++' and q.refers_to_decl(n.children[0], ptr_decl):
            p = n.parent
            is_store = False
            while p is not None and p.k in ('ParenExpr', 'ImplicitCastExpr'):
                p = p.parent
            if p is not None and p.k == 'UnaryOperator' and p.op == '*':
                pp = p.parent
                if pp is not None and pp.k == 'BinaryOperator' and pp.op == '=' and pp.children[0].strip() == p:
                    seps[pos[0]] = chr(pp.children[1].strip(casts=True).value) if pp.children[1].strip(casts=True).value is not None else '?'
                    is_store = True
            if not is_store:
                seps[pos[0]] = None
            pos[0] += 1
        elif n.k == 'CompoundAssignOperator' and n.op == '+=' and q.refers_to_decl(n.children[0], ptr_decl):
            rhs = n.children[1].strip(casts=True)
            if rhs.value is not None:
                pos[0] += rhs.value
            elif rhs.is_call and rhs.callee_qp == 'FIX8::parse_decimal':
                pos[0] += rhs.args[1].strip(casts=True).value
            else:
                raise AnalysisBroken('pointer advanced by a non-constant at ' + n.loc)
    def oracle(a):
        # the special text "now" is not a rendered timestamp: any test of the input characters is false
        if any(x.k == 'UnaryOperator' and x.op == '*' for x in a.walk()):
            return False
        if a.strip(casts=True).k == 'DeclRefExpr' and a.strip(casts=True).decl.get('sc') == 'param' and a.type and a.type['k'] == 'bool':
            return False      # optional mode flags (timeonly): the layout does not depend on them
        sa = a.strip(casts=True)
        if sa.is_call and sa.callee_qp and _PROG:
            # a predicate helper with a single return: its expression under the caller's known arguments, input-character tests false as above
            for h in _PROG[0].fns(sa.callee_qp):
                rr = [x for x in h.all_nodes() if x.k == 'ReturnStmt' and x.children]
                if len(rr) == 1 and len(h.param_ids) == len(sa.args):
                    env2 = {}
                    for pid, arg in zip(h.param_ids, sa.args):
                        v_ = q.eval_int(arg, env)
                        if v_ is not None:
                            env2[pid] = v_
                    v_ = q.eval_int(rr[0].children[0], env2, atom=lambda y: 0 if y.k == 'BinaryOperator' and y.op == '==' and
                                    any(x.k == 'UnaryOperator' and x.op == '*' for x in y.walk()) else None)
                    if v_ is not None:
                        return bool(v_)
        if any(x.k == 'DeclRefExpr' and x.decl is not None and x.decl.get('sc') == 'static_local' for x in a.walk()):
            return True       # the refresh condition of a cache (R09.6 decides it): the layout is the same on both branches or the refresh writes are seen here
        return None
    kind, val, e = q.follow(fn, oracle, env=env, visit=visit)
    return sorted(fields), seps, pos[0]


def leap_rule(ctx, prog, te, RID):
    # ---------------- R09.4 the leap-day correction as a decision table, and the shape of the day count it corrects
    # Proof sketch recorded here (ty = tm_year - 70, years 1970..2099, where leap(y) <=> tm_year % 4 == 0 because 2000 is a leap year):
    #   days since the epoch  = 365 ty + floor((ty+1)/4) + mon_days[m] + [leap and m >= 2] + d - 1
    #   the code computes       365 ty + floor((ty+2)/4) + mon_days[m] - [C]             + d - 1
    #   floor((ty+2)/4) - floor((ty+1)/4) = [leap]  hence the two agree  <=>  C == (leap and m < 2)  for every year and month in range.
    yr_reads = lambda n: any(x.k == 'MemberExpr' and x.decl['n'] == 'tm_year' for x in n.walk())
    decs = [n for n in te.all_nodes() if n.k == 'UnaryOperator' and n.op == '--' and te.cfg.has_vertex(n)] + \
           [n for n in te.all_nodes() if n.k == 'CompoundAssignOperator' and n.op == '-=' and te.cfg.has_vertex(n)]
    ctx.need(len(decs) == 1, 'time_to_epoch: expected exactly one correction of the day count, found %d (formula rewritten?)' % len(decs))
    dec = decs[0]
    tcfg = te.cfg
    dv = tcfg.vertex_of(dec)
    const_locals = []
    for st_ in te.all_nodes():
        if st_.k == 'DeclStmt':
            for dd_, ini_ in st_.r.get('decls', []):
                if ini_ >= 0 and len(q.local_defs(te, dd_)) == 1:
                    const_locals.append((dd_, te.node(ini_)))
    wrong = []
    for y in range(70, 200):
        for m in range(0, 12):
            def atom(a, _y=y, _m=m):
                if a.k == 'MemberExpr' and a.decl['n'] == 'tm_year':
                    return _y
                if a.k == 'MemberExpr' and a.decl['n'] == 'tm_mon':
                    return _m
                return None
            env_ = {}
            for (dd_, init_) in const_locals:           # named locals abbreviating a sub-expression of the year / month
                v_ = q.eval_int(init_, env_, atom=atom)
                if v_ is not None:
                    env_[dd_] = v_
            def okedge(v, w, lab, _atom=atom, _env=env_):
                if lab is None or not isinstance(lab[1], bool):
                    return True
                c = tcfg.cond_node(lab[0])
                if c is None:
                    return True
                val = q.eval_int(c, _env, atom=_atom)
                return True if val is None else (bool(val) == lab[1])
            taken = dv in tcfg.reach_from(tcfg.entry, edge_ok=okedge)
            want = (y % 4 == 0) and m < 2
            if taken != want:
                wrong.append((1900 + y, m + 1, taken))
    ctx.check(not wrong, RID, 'FIX8::time_to_epoch#leap-correction', dec.loc,
              'the one-day correction is applied exactly for January/February of leap years, for all 130 years x 12 months in range',
              'the leap-day correction is %s for %04d-%02d (%d year/month combinations in 1970..2099 disagree with the calendar): dates there parse one day %s'
              % (('applied' if wrong[0][2] else 'not applied'), wrong[0][0], wrong[0][1], len(wrong), 'early' if wrong[0][2] else 'late') if wrong else None)
    # shape of the day count: linear in its terms with the coefficients the proof above uses
    tdecl = None
    for st in te.all_nodes():
        if st.k == 'DeclStmt':
            for dd, init in st.r.get('decls', []):
                if init >= 0 and q.refers_to_decl(dec.children[0], dd):
                    tdecl = (dd, te.node(init))
    ctx.need(tdecl is not None, 'time_to_epoch: initialiser of the corrected day count not found')
    lf = q.linear(tdecl[1], sym=lambda x: x.text())
    terms = dict(lf.t)
    c365 = [v for k, v in terms.items() if v == 365]
    quarter = [k for k, v in terms.items() if v == 1 and '/ 4' in k.replace('/4', '/ 4') and '+ 2' in k.replace('+2', '+ 2')]
    tabterm = [k for k, v in terms.items() if v == 1 and 'mon_days' in k]
    ctx.check(len(c365) == 1 and len(quarter) == 1 and len(tabterm) == 1, RID, 'FIX8::time_to_epoch#day-count-shape', tdecl[1].loc,
              'day count = mon_days[month] + day-of-month term + 365·years + (years+2)/4 (the form the recorded identity is about)',
              'the day count `%s` is not the form 365·years + (years+2)/4 + mon_days[month] + day: the recorded calendar identity no longer applies' % lf)
    tyd = [(dd, te.node(init)) for st in te.all_nodes() if st.k == 'DeclStmt' for dd, init in st.r.get('decls', []) if init >= 0 and
           any(x.k == 'MemberExpr' and x.decl['n'] == 'tm_year' for x in te.node(init).walk()) and dd != tdecl[0]]
    if tyd:
        # years since 1970: tm_year - 70 on the non-zero branch
        e = tyd[0][1].strip(casts=True)
        br = e.child('then') if e.k == 'ConditionalOperator' else e
        l2 = q.linear(br, sym=lambda x: 'Y' if (x.k == 'MemberExpr' and x.decl['n'] == 'tm_year') else x.text())
        ctx.check(l2.c == -70 and dict(l2.t) == {'Y': 1}, RID, 'FIX8::time_to_epoch#years-since-1970', tyd[0][1].loc, 'years = tm_year − 70',
                  'years since the epoch computed as `%s`, expected tm_year − 70' % l2)


def run(ctx):
    prog = Program(UNITS)
    _PROG[:] = [prog]
    ctx.units.update(UNITS)
    # ---------------- R09.1
    te = prog.fn1('FIX8::time_to_epoch')
    ctx.saw(te)
    tab = prog.vars('FIX8::time_to_epoch::mon_days')
    ctx.need(len(tab) == 1, 'mon_days table not found')
    vals = [x.strip(casts=True).value for x in tab[0].init.children]
    mlen = [31, 28, 31, 30, 31, 30, 31, 31, 30, 31, 30, 31]
    cum = [sum(mlen[:i]) for i in range(13)]
    ctx.check(vals == cum, 'R09.1', 'FIX8::time_to_epoch#mon_days', te.loc, 'mon_days[i] = days before month i in a common year (13 entries)', 'mon_days = %s' % vals)
    ranges = {'tm_year': IV(70, 199), 'tm_mon': IV(0, 11), 'tm_mday': IV(1, 31), 'tm_hour': IV(0, 23), 'tm_min': IV(0, 59), 'tm_sec': IV(0, 60)}
    utc = te.param_ids[1]

    def inputs(s):
        if s.k == 'MemberExpr' and s.decl['n'] in ranges:
            return ranges[s.decl['n']]
        if s.k == 'DeclRefExpr' and s.declid == utc:
            return IV(0)
        return None
    ev = Evaluator(te, inputs, tables={'mon_days': vals})
    rets = [n for n in te.all_nodes() if n.k == 'ReturnStmt']
    ctx.need(len(rets) == 1, 'time_to_epoch: single return expected')
    r = ev.eval(rets[0].children[0])
    probs = [(n, t) for (n, t) in ev.problems]
    ctx.note('time_to_epoch result interval %s; tdays %s' % (r, ev.env))
    ctx.check(not probs, 'R09.1', 'FIX8::time_to_epoch#width', rets[0].loc,
              'every arithmetic node fits its type for dates 1970..2099 (result in %s)' % r,
              ('arithmetic overflow for dates within 1970..2099: %s at %s (e.g. any date from 2038-01-19)' % (probs[0][1], probs[0][0].loc)) if probs else None,
              [t + ' @ ' + n.loc for n, t in probs])

    leap_rule(ctx, prog, te, 'R09.4')
    # ---------------- R09.2 layouts
    fmt = prog.fn1('FIX8::date_time_format')
    ctx.saw(fmt)
    ind = fmt.param_ids[2]
    to = fmt.param_ids[1]
    ti = dict(prog.enum('FIX8::TimeIndicator')['e'])
    parsers = {'date_time_parse': prog.fn1('FIX8::date_time_parse'), 'time_parse': prog.fn1('FIX8::time_parse'), 'date_parse': prog.fn1('FIX8::date_parse')}
    for p in parsers.values():
        ctx.saw(p)
    pairs = [('_with_ms', 'date_time_parse'), ('_sec_only', 'date_time_parse'), ('_time_with_ms', 'time_parse'), ('_time_only', 'time_parse'),
             ('_date_only', 'date_parse'), ('_short_date_only', 'date_parse')]
    maxlen = 0
    for name, pname in pairs:
        wf, wseps, wlen = _layout(fmt, {ind: ti[name]}, to, True)
        maxlen = max(maxlen, wlen)
        pf = parsers[pname]
        plen = pf.param_ids[1]
        rf, rseps, rpos = _layout(pf, {plen: wlen}, pf.param_ids[0], False)
        # the parser may read fields that only exist for a longer layout? no: compare exactly
        ok = wf == rf and all(o in wseps and wseps[o] is not None for o in rseps) and all(o in rseps for o in wseps)
        ctx.check(ok, 'R09.2', 'FIX8::date_time_format#layout.%s' % name, fmt.loc,
                  '%s (%d bytes): formatter writes and %s(len=%d) reads %s with separators at %s' % (name, wlen, pname, wlen, wf, sorted(wseps)),
                  '%s: formatter writes %s (separators %s, %d bytes) but %s(len=%d) reads %s (skips %s)' % (name, wf, sorted(wseps.items()), wlen, pname, wlen, rf, sorted(rseps)))
        # the length is one the parser's switch/if knows
        consts = {x.strip(casts=True).value for x in pf.all_nodes() if x.k == 'CaseStmt' for x in [pf.node(x.r['lhs'])]} | \
                 {x.children[1].strip(casts=True).value for x in pf.all_nodes() if x.k == 'BinaryOperator' and x.op == '==' and q.refers_to_decl(x.children[0], plen)}
        ctx.check(wlen in consts or (pname == 'date_parse' and wlen == 6), 'R09.2', 'FIX8::%s#length.%s' % (pname, name), pf.loc,
                  'rendered length %d is a length the parser distinguishes' % wlen)
    # inverse offsets
    adds = {}
    for c in fmt.calls_to('FIX8::format0'):
        lf = q.linear(c.args[0], sym=lambda x: x.strip(casts=True).decl['n'] if x.strip(casts=True).k == 'MemberExpr' else x.text())
        for k in lf.t:
            if k.startswith('tm_'):
                adds[k] = lf.c
    for pname in ('date_time_parse', 'date_parse'):
        pf = parsers[pname]
        subs = {}
        for n in pf.all_nodes():
            if n.k == 'CompoundAssignOperator' and n.op == '-=' and n.children[0].strip(casts=True).k == 'MemberExpr':
                subs[n.children[0].strip(casts=True).decl['n']] = n.children[1].strip(casts=True).value
            if n.k == 'UnaryOperator' and n.op == '--' and n.children[0].strip(casts=True).k == 'MemberExpr':
                subs[n.children[0].strip(casts=True).decl['n']] = 1
        for k in ('tm_year', 'tm_mon'):
            ctx.check(adds.get(k) == subs.get(k) and adds.get(k) is not None, 'R09.2', 'FIX8::%s#inverse.%s' % (pname, k), pf.loc,
                      '%s is rendered +%s and parsed −%s' % (k, adds.get(k), subs.get(k)))
    # ---------------- R09.3 helpers and buffers
    f0 = prog.fn1('FIX8::format0')
    ctx.saw(f0)
    st = [n for n in f0.all_nodes() if n.k == 'BinaryOperator' and n.op == '=' and n.children[0].strip().k == 'ArraySubscriptExpr']
    okf = len(st) == 1 and q.refers_to_decl(st[0].children[0].strip().children[1], f0.param_ids[2]) and \
        any(x.k == 'BinaryOperator' and x.op == '%' and x.children[1].strip(casts=True).value == 10 for x in st[0].children[1].walk())
    ctx.check(okf, 'R09.3', 'FIX8::format0#width', f0.loc, 'format0 stores to[width-1..0] = successive decimal digits (exactly `width` bytes)')
    pd = prog.fn1('FIX8::parse_decimal')
    ctx.saw(pd)
    rets = [n for n in pd.all_nodes() if n.k == 'ReturnStmt']
    lw = [n for n in pd.all_nodes() if n.k == 'WhileStmt']
    okp = len(rets) == 1 and len(lw) == 1 and any(x.k == 'UnaryOperator' and x.op == '--' and q.refers_to_decl(x.children[0], pd.param_ids[1]) for x in lw[0].child('cond').walk())
    ctx.check(okp, 'R09.3', 'FIX8::parse_decimal#consumes-len', pd.loc, 'parse_decimal consumes exactly `len` bytes and returns the count')
    n_buf = 0
    for f in prog.all_functions():
        if not (f.rec or '').startswith('FIX8::Field<'):
            continue
        if f.tmpl != 'inst' or not any(x.callee_qp == 'FIX8::date_time_format' for g in prog.all_functions()
                                        if g.rec == f.rec and g.qp == 'FIX8::Field::print' for x in g.calls()):
            continue
        for c in f.calls():
            if c.callee is None or c.callee.get('n') != 'print' or not c.args:
                continue
            cap = q.array_capacity(c.args[0])
            if cap is None:
                continue
            n_buf += 1
            ctx.check(cap >= maxlen + 1, 'R09.3', f.q + '#buffer', c.loc, 'print buffer of %d bytes holds the longest layout (%d) + terminator' % (cap, maxlen))
    ctx.need(n_buf >= 3, 'fewer than 3 date_time_format calls into local buffers found (%d)' % n_buf)
    # ---------------- R09.5 the stream printers render into a scratch array and stream it as a C string; date_time_format writes no terminator, so the
    # array must be a zero-initialised automatic local of each call (what follows the rendered characters is then NUL, whatever was printed before)
    n_sp = 0
    seen_t = set()
    for fp in prog.all_functions():
        if fp.qp != 'FIX8::Field::print' or 'ostream' not in fp.sig or not fp.rec:
            continue
        T = fp.rec[len('FIX8::Field<'):fp.rec.rfind(',')]
        has_arr = any(st_.k == 'DeclStmt' and any(fp.tu.types[fp.tu.decls[dd]['t']]['k'] == 'array' for dd, _ in st_.r.get('decls', [])) for st_ in fp.all_nodes())
        if T in seen_t or not has_arr or fp.tmpl == 'pattern':
            continue
        seen_t.add(T)
        ctx.saw(fp)
        arrs = []
        for st_ in fp.all_nodes():
            if st_.k == 'DeclStmt':
                for dd, init in st_.r.get('decls', []):
                    if fp.tu.types[fp.tu.decls[dd]['t']]['k'] == 'array':
                        arrs.append((dd, fp.tu.decls[dd], init))
        n_sp += 1
        bad = [d for (dd, d, init) in arrs if d.get('sc') != 'local' or init < 0]
        ctx.check(not bad, 'R09.5', 'FIX8::Field<%s>::print/ostream#scratch-zeroed' % T, fp.loc,
                  'the scratch array is an automatic local with a zero initialiser',
                  'the scratch array `%s` is %s: date_time_format writes no terminator, so the text streamed is whatever a previous call left behind the rendered '
                  'characters (a 6-character MonthYear printed after an 8-character one carries its last two characters)'
                  % (bad[0]['n'] if bad else '', 'static / thread_local' if bad and bad[0].get('sc') != 'local' else 'not initialised'))
    ctx.need(n_sp >= 4, 'fewer than 4 date/time stream printers found (%d)' % n_sp)
    # ---------------- R09.6 state carried from one rendering / parse to the next (a cached broken-out date): decided for the one-entry cache idioms of memo.py
    closure = []
    for qn in ('FIX8::date_time_format', 'FIX8::format0', 'FIX8::time_to_epoch', 'FIX8::date_time_parse', 'FIX8::time_parse', 'FIX8::date_parse', 'FIX8::parse_decimal',
               'FIX8::Tickval::as_tm', 'FIX8::Tickval::get_tm', 'FIX8::Tickval::secs', 'FIX8::Tickval::msecs', 'FIX8::Tickval::nsecs'):
        closure.append(prog.fn1(qn))
    memo.memo_rule(ctx, closure, 'R09.6', 'date/time codec')
    # ---------------- R09.7 every clock-to-calendar conversion uses the caller's own struct tm: the codec (Tickval::as_tm) and the log renderers
    # (GetTimeAsStringMS / GetTimeAsStringMini) call gmtime_r / localtime_r, never gmtime / localtime, whose result is one process-wide buffer that another
    # thread's rendering overwrites between the conversion and the last read of it
    progl = Program(LOG_UNITS)
    ctx.units.update(LOG_UNITS)
    SHARED = ('gmtime', 'localtime', 'asctime', 'ctime')
    OWN = ('gmtime_r', 'localtime_r', 'gmtime_s', 'localtime_s')
    n_conv = 0
    seen7 = set()
    for g in [prog.fn1('FIX8::Tickval::as_tm')] + [h for h in progl.all_functions() if (h.qp or '').startswith('FIX8::GetTimeAsString')]:
        if g.loc in seen7:
            continue
        seen7.add(g.loc)
        ctx.saw(g)
        shared = [c for c in g.calls() if c.callee is not None and c.callee.get('n') in SHARED and (c.callee_qp or '') in SHARED + tuple('std::' + x for x in SHARED)]
        own = [c for c in g.calls() if c.callee is not None and c.callee.get('n') in OWN]
        if not shared and not own:
            continue
        n_conv += 1
        ctx.check(not shared and bool(own), 'R09.7', g.qp + '#own-tm-buffer', (shared[0].loc if shared else g.loc),
                  'the calendar conversion writes into the caller\'s own struct tm (%s)' % ', '.join(sorted({c.callee.get('n') for c in own})),
                  '`%s` returns libc\'s single static struct tm: a rendering on another thread overwrites it between this conversion and the later reads of its fields, so a '
                  'line shows another instant\'s date and hour with its own seconds' % (shared[0].text()[:60] if shared else ''))
    ctx.need(n_conv >= 3, 'fewer than 3 calendar conversion sites found (%d)' % n_conv)
    ctx.floor('R09.7', 3)
    ctx.floor('R09.2', 14)
    ctx.floor('R09.4', 2)
    ctx.floor('R09.6', 12)
