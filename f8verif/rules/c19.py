"""C19 — inbound messages reach the application only when in sequence."""
from ..facts import Program, AnalysisBroken, units
from .. import q

CLAIM = {
    'text': 'Path and decision rules on the inbound side: every handle_application override in the repo gates delivery on '
            'enforce(); admin handlers call enforce before acting; sequence_check covers >, <, = with the specified actions '
            '(ResendRequest from the expected number / throw too-low unless PossDup / OrigSendingTime test); the sequence number '
            'used for enforcement must come from a field-boundary-anchored read of tag 34; the exception classes that end the '
            'session are a frozen table; the f8Exception handler of Session::process sends Logout + stops when forcing and '
            'rejects otherwise.',
    'note': 'Trusted: clang CFG (no exceptional edges: flow out of a throwing callee is not modelled), extractor, frozen tables. '
            'Undecided: behaviour over concrete inbound sequences and states.',
    'technique': 'must-pass-through / control-dependence on the CFG, decision-table coverage, literal+linear-form provenance, '
                 'constructor-initialiser table',
}
UNITS = ['runtime/session.cpp']
APP_UNITS = ['utests/session_test.cpp', 'test/myfix.cpp', 'test/harness.cpp', 'test/hftest.cpp']
EXPLANATION = (
    "Decided: R19.1 enforce() gates msg->process() in every handle_application override (utests, test/), and precedes "
    "send/state-change/counter writes in the admin handlers; R19.2 sequence_check's case split on seqnum vs expected covers "
    "'>' (only `return false`/throw reachable; ResendRequest(begin = expected) sent in state continuous), '<' (throw unless "
    "PossDup; OrigSendingTime > SendingTime throws), '=' (returns true); R19.3 the text searched for MsgSeqNum in "
    "Session::process starts at a field boundary (SOH) and parsing starts right after '='; R19.4 exactly the five sequence/identity "
    "exception classes construct f8Exception(force_logoff=true); R19.5 in the f8Exception handler: forcing => Logout sent on every "
    "non-silent path, stop() or rethrow, never `return true`; non-forcing => handle_outbound_reject; handle_application is "
    "dominated by the factory result test. R19.6 in enforce() the CompID comparison is reachable for every established state except logon_received and sequence_check for every established state (enumeration over the state enumerators). R19.7 handle_sequence_reset compares NewSeqNo with the expected inbound number (sequence_check is skipped for SequenceReset). NOT decided: actual delivery for concrete histories; exceptions thrown inside callees.")

S = 'FIX8::Session::'
RECV = S + '_next_receive_seq'
FORCING = {'FIX8::InvalidMsgSequence', 'FIX8::MsgSequenceTooLow', 'FIX8::InvalidVersion', 'FIX8::BadSendingTime', 'FIX8::BadCompidId'}


def origsendingtime_rule(ctx, f, RID, prog=None):
    """PossDup replay: only OrigSendingTime strictly after SendingTime is refused (equal stamps are legal) - also C20 R20.4"""
    cfg = f.cfg
    is_ost = lambda a: a.is_call and a.r.get('op') in ('>', '<', '>=', '<=') and q.reads_local_of_field(a, 122) and q.reads_local_of_field(a, 52)
    ost = q.branches(f, is_ost)
    if not ost and prog is not None:
        # the test may live in a small helper of the unit that is handed the message (it throws from there)
        for c in f.calls():
            if not c.callee_qp or not c.args:
                continue
            for h in prog.fns(c.callee_qp):
                if h.tu is f.tu and 'cfg' in h.raw and q.branches(h, is_ost):
                    ctx.saw(h)
                    ctx.check(any(q.refers_to_decl(a_, f.param_ids[1]) for a_ in c.args), RID, S + 'sequence_check#lt.origsendingtime-helper', c.loc,
                              'the helper that compares the two stamps is given this message')
                    return origsendingtime_rule(ctx, h, RID)
    ctx.check(len(ost) == 1, RID, S + 'sequence_check#lt.origsendingtime-test', f.loc, 'OrigSendingTime(122) is compared with SendingTime(52)')
    for br in ost:
        a = br[1]
        ops = ([a.obj] if a.obj is not None else []) + a.args
        first122 = q.reads_local_of_field(ops[0], 122)
        op = a.r['op']
        after = (op == '>' and first122) or (op == '<' and not first122)
        ctx.check(after, RID, S + 'sequence_check#lt.origsendingtime-op', a.loc, 'the failing relation is strictly OrigSendingTime > SendingTime')
        rs = q.reachable_returns(cfg, q.atom_edge(cfg, br, True))
        ctx.check(not rs, RID, S + 'sequence_check#lt.badtime.throws', a.loc, 'OrigSendingTime after SendingTime: no normal return')


def enforce_gate_rule(ctx, prog, RID):
    """enforce() hands a message on (returns false) exactly when sequence_check accepted it - also C20: a replayed message the counterparty sends to fill a gap
    is accepted by sequence_check and must reach the application"""
    en = prog.fn1(S + 'enforce')
    ctx.saw(en)
    ecfg = en.cfg
    sc = q.branches(en, lambda a: any(x.callee_qp == S + 'sequence_check' for x in q.calls_in(a)) or (a.is_call and a.callee_qp == S + 'sequence_check'))
    if not sc:
        # second idiom: the verdict is returned as an expression of the call (`return !sequence_check(..)`)
        rts = [n for n in en.all_nodes() if n.k == 'ReturnStmt' and n.children and any(x.callee_qp == S + 'sequence_check' for x in q.calls_in(n.children[0]))]
        ctx.need(rts, 'sequence_check is neither a decision nor part of a return expression in enforce')
        for r_ in rts:
            call_ = [x for x in q.calls_in(r_.children[0]) if x.callee_qp == S + 'sequence_check'][0]
            vt = q.eval_int(r_.children[0], {}, atom=lambda n, _c=call_: 1 if n == _c else None)
            vf = q.eval_int(r_.children[0], {}, atom=lambda n, _c=call_: 0 if n == _c else None)
            ctx.check(vt == 0, RID, S + 'enforce#accept', r_.loc, 'sequence_check true (acceptable) => enforce returns false (deliver)')
            ctx.check(vf == 1, RID, S + 'enforce#refuse', r_.loc, 'sequence_check false (gap) => enforce returns true (do not deliver)')
    for br in sc:
        b, atom, pol = br
        if atom.is_call and atom.callee_qp == S + 'sequence_check':
            rs_t = q.reachable_returns(ecfg, q.atom_edge(ecfg, br, True))
            rs_f = q.reachable_returns(ecfg, q.atom_edge(ecfg, br, False))
            ctx.check(rs_t and all(q.return_value(r) == 0 for r in rs_t), RID, S + 'enforce#accept', atom.loc,
                      'sequence_check true (acceptable) => enforce returns false (deliver)')
            ctx.check(rs_f and all(q.return_value(r) == 1 for r in rs_f), RID, S + 'enforce#refuse', atom.loc,
                      'sequence_check false (gap) => enforce returns true (do not deliver)')



def run(ctx):
    thorough = ctx.tier == 'thorough'
    prog = Program(UNITS + APP_UNITS)
    ctx.units.update(UNITS + APP_UNITS)

    # ---------------- R19.1 handle_application overrides
    n_over = 0
    for f in prog.all_functions():
        if f.raw.get('kind') != 'method' or not f.qp.endswith('::handle_application'):
            continue
        d = f.tu.decls[f.raw['decl']]
        if S + 'handle_application' not in d.get('overrides', []):
            continue
        procs = [c for c in f.calls() if c.callee_qp in ('FIX8::Message::process', 'FIX8::MessageBase::process')]
        ctx.saw(f)
        if not procs:
            ctx.note('%s does not dispatch to a router (no delivery): nothing to gate' % f.q)
            continue
        n_over += 1
        for pc in procs:
            atoms = q.controlling_atoms(f, pc)
            ok = any(a.is_call and a.callee_qp == S + 'enforce' and pol is False for a, pol in atoms)
            ctx.check(ok, 'R19.1', f.qp + '#deliver.gated', pc.loc, 'msg->process(router) is reached only when enforce(seqnum,msg) returned false',
                      'application delivery `%s` is not gated by enforce() == false' % pc.text())
            for a, pol in atoms:
                if a.is_call and a.callee_qp == S + 'enforce':
                    pa = f.param_ids
                    ctx.check(len(a.args) == 2 and q.refers_to_decl(a.args[0], pa[0]) and q.refers_to_decl(a.args[1], pa[1]),
                              'R19.1', f.qp + '#enforce.args', a.loc, 'enforce is given this message and its sequence number')
    ctx.need(n_over >= 5, 'fewer than 5 delivering handle_application overrides found (%d)' % n_over)

    # admin handlers
    for h, effects in (('handle_logout', None), ('handle_sequence_reset', None), ('handle_resend_request', None),
                       ('handle_test_request', None), ('handle_heartbeat', None), ('handle_logon', 'continuous')):
        f = prog.fn1(S + h)
        ctx.saw(f)
        cfg = f.cfg
        enf = [c for c in f.calls_to(S + 'enforce')]
        ctx.check(len(enf) >= 1, 'R19.1', S + h + '#enforce.called', f.loc, 'admin handler calls enforce()')
        if not enf:
            continue
        ev = [cfg.vertex_of(e) for e in enf]
        if effects is None:
            sites = f.calls_to(S + 'send', S + 'do_state_change', 'FIX8::Persister::get') + \
                    [w for (w, m) in q.member_writes(f, RECV)] + [w for (w, m) in q.member_writes(f, S + '_next_send_seq')]
        else:
            cont = prog.enum('FIX8::States::SessionStates')
            v = dict(cont['e'])['st_continuous']
            sites = [c for c in f.calls_to(S + 'do_state_change') if c.args and c.args[0].strip(casts=True).value == v]
            ctx.need(len(sites) >= 2, 'do_state_change(st_continuous) sites not found in handle_logon')
        for s in sites:
            sv = cfg.vertex_of(s)
            ctx.check(any(cfg.dominates(e, sv) for e in ev), 'R19.1', S + h + '#enforce.first@' + s.text()[:40], s.loc,
                      'enforce() dominates `%s`' % s.text()[:60])

    # ---------------- R19.2 sequence_check decision table
    f = prog.fn1(S + 'sequence_check')
    ctx.saw(f)
    cfg = f.cfg
    p0 = f.param_ids[0]

    def rel(a):
        s = a.strip(casts=True)
        if s.k != 'BinaryOperator' or s.op not in ('<', '>', '<=', '>=', '==', '!='):
            return None
        l, r = s.children
        if q.refers_to_decl(l, p0) and q.member_value_of(r, RECV):
            return s.op
        if q.refers_to_decl(r, p0) and q.member_value_of(l, RECV):
            return {'<': '>', '>': '<', '<=': '>=', '>=': '<=', '==': '==', '!=': '!='}[s.op]
        return None
    brs = q.branches(f, lambda a: rel(a) is not None)
    ctx.need(brs, 'no comparison of seqnum with the expected number in sequence_check')
    # regions: GT, LT, EQ as sets of start vertices, by abstract interpretation of the two-way tests over the 3 orderings
    regions = {}
    for order in ('GT', 'LT', 'EQ'):
        def truth(op, order=order):
            return {'>': order == 'GT', '<': order == 'LT', '>=': order != 'LT', '<=': order != 'GT', '==': order == 'EQ', '!=': order != 'EQ'}[op]
        def eo(v, w, lab, _truth=truth):
            if lab is None or not isinstance(lab[1], bool):
                return True
            c = cfg.cond_node(lab[0])
            a, pol = q.polar(c, lab[1])
            op = rel(a)
            if op is None:
                return True
            return _truth(op) == pol
        regions[order] = eo
    def rets(order):
        reach = cfg.reach_from(cfg.entry, edge_ok=regions[order]) | {cfg.entry}
        return [n for (v, kind, n) in cfg.exits() if kind == 'return' and v in reach], \
               [n for (v, kind, n) in cfg.exits() if kind == 'throw' and v in reach], reach
    r_gt, t_gt, reach_gt = rets('GT')
    ctx.check(r_gt and all(q.return_value(r) == 0 for r in r_gt), 'R19.2', S + 'sequence_check#gt.returns-false', f.loc,
              'seqnum > expected: only `return false` (no delivery) is reachable')
    rr = [c for c in f.calls_to(S + 'send') if any(x.callee_qp == S + 'generate_resend_request' for x in q.calls_in(c))]
    ctx.check(len(rr) == 1 and cfg.vertex_of(rr[0]) in reach_gt and
              cfg.vertex_of(rr[0]) not in (cfg.reach_from(cfg.entry, edge_ok=regions['LT']) | cfg.reach_from(cfg.entry, edge_ok=regions['EQ'])),
              'R19.2', S + 'sequence_check#gt.resend', f.loc, 'a ResendRequest is sent exactly in the seqnum > expected case')
    for c in rr:
        g = [x for x in q.calls_in(c) if x.callee_qp == S + 'generate_resend_request'][0]
        ctx.check(q.member_value_of(g.args[0], RECV), 'R19.2', S + 'sequence_check#gt.resend.begin', g.loc,
                  'ResendRequest begins at the expected number')
    ctx.check(any('InvalidMsgSequence' in t.children[0].tstr for t in t_gt if t.children), 'R19.2', S + 'sequence_check#gt.throw', f.loc,
              'seqnum > expected outside continuous state throws InvalidMsgSequence')
    r_lt, t_lt, reach_lt = rets('LT')
    ctx.check(r_lt and all(q.return_value(r) == 1 for r in r_lt), 'R19.2', S + 'sequence_check#lt.returns', f.loc,
              'seqnum < expected: the only normal return is `true` (after the PossDup tests)')
    pd = q.branches(f, lambda a: a.is_call and a.r.get('op') == '()' and q.reads_local_of_field(a, 43))
    pd_helper = None
    if not pd:
        # a predicate helper of the unit: single return of the flag it has just read from the header of the message it is given
        def pd_pred(a):
            if not a.is_call or not a.callee_qp or not a.args or not any(q.refers_to_decl(x, f.param_ids[1]) for x in a.args):
                return None
            for h in prog.fns(a.callee_qp):
                rr_ = [x for x in h.all_nodes() if x.k == 'ReturnStmt' and x.children]
                gets_ = [c for c in h.calls() if c.callee_qp == 'FIX8::MessageBase::get' and c.args and q.reads_local_of_field(c.args[0], 43)]
                if h.tu is f.tu and len(rr_) == 1 and q.reads_local_of_field(rr_[0].children[0], 43) and gets_ and \
                        all(h.cfg.dominates(h.cfg.vertex_of(g_), h.cfg.vertex_of(rr_[0])) for g_ in gets_[:1]):
                    return h
            return None
        pd = q.branches(f, lambda a: pd_pred(a) is not None)
        if pd:
            pd_helper = pd_pred(pd[0][1])
            ctx.saw(pd_helper)
    ctx.check(len(pd) == 1 and cfg.block_last[pd[0][0]] in reach_lt, 'R19.2', S + 'sequence_check#lt.possdup-test', f.loc,
              'PossDupFlag(43) is tested in the seqnum < expected case')
    for br in pd:
        st = q.atom_edge(cfg, br, False)
        rs = q.reachable_returns(cfg, st)
        ctx.check(not rs, 'R19.2', S + 'sequence_check#lt.nopossdup.throws', br[1].loc,
                  'without PossDupFlag no normal return is reachable (MsgSequenceTooLow is thrown)')
        thr = [cfg.V[v].node for v in set().union(*[cfg.reach_from(s) | {s} for s in st]) if cfg.V[v].node is not None and cfg.V[v].node.k == 'CXXThrowExpr']
        ctx.check(thr and all('MsgSequenceTooLow' in t.children[0].tstr for t in thr), 'R19.2', S + 'sequence_check#lt.nopossdup.type', br[1].loc,
                  'the exception thrown is MsgSequenceTooLow')
        # the flag is read from this message's header
        got = [c for c in f.calls() if c.callee_qp == 'FIX8::MessageBase::get' and c.args and q.reads_local_of_field(c.args[0], 43)]
        ctx.check(pd_helper is not None or bool(got) and all(cfg.dominates(cfg.vertex_of(g), cfg.block_last[br[0]]) for g in got[:1]), 'R19.2',
                  S + 'sequence_check#lt.possdup-read', br[1].loc, 'PossDupFlag is read from the message header before the test')
    origsendingtime_rule(ctx, f, 'R19.2', prog)
    r_eq, t_eq, reach_eq = rets('EQ')
    ctx.check(r_eq and all(q.return_value(r) == 1 for r in r_eq) and not t_eq, 'R19.2', S + 'sequence_check#eq.accept', f.loc,
              'seqnum = expected: returns true, throws nothing')
    enforce_gate_rule(ctx, prog, 'R19.2')
    en = prog.fn1(S + 'enforce')
    ecfg = en.cfg

    # ---------------- R19.3 provenance of the sequence number in process()
    pr = prog.fn1(S + 'process')
    ctx.saw(pr)
    pcfg = pr.cfg
    seqdefs = []
    for hname in ('handle_application',):
        for c in pr.calls_to(S + hname):
            seqarg = c.args[0].strip(casts=True)
            ctx.need(seqarg.k == 'DeclRefExpr', 'sequence number argument is not a local')
            seqdefs = [(dn, kind, val) for (dn, kind, val) in q.local_defs(pr, seqarg.declid) if kind == 'assign']
    ctx.need(len(seqdefs) == 1, 'expected one assignment of the local seqnum in process()')
    val = seqdefs[0][2].strip(casts=True)
    anchored = False
    why = 'sequence number is not parsed by fast_atoi from the message text nor read from the decoded header'
    if val.is_call and val.callee_qp == 'FIX8::fast_atoi':
        ptr = val.args[0]
        finds = [x for x in pr.calls() if x.callee_qp == 'std::basic_string::find' and x.args and x.args[0].strip(casts=True).k == 'StringLiteral']
        lin = None
        for fc in finds:
            lit = fc.args[0].strip(casts=True)
            raw = bytes.fromhex(lit.r['hex']) if 'hex' in lit.r else lit.r.get('s', '').encode()
            # which local holds the find() result?
            holder = fc.parent
            while holder is not None and holder.k != 'DeclStmt':
                holder = holder.parent
            if holder is None:
                continue
            hd = holder.r['decls'][0][0]
            lf = q.linear(ptr, sym=lambda x: ('POS' if (x.k == 'DeclRefExpr' and x.declid == hd) else x.text()))
            if lf.t.get('POS') == 1:
                k = lf.c
                if raw.startswith(b'\x01') and raw.endswith(b'34=') and k == len(raw):
                    anchored = True
                else:
                    why = 'MsgSeqNum is located with find(%r) and parsed at +%d: the search is not anchored at a field boundary (SOH) — matches inside "134=" or a value' % (raw.decode('latin1'), k) \
                        if not raw.startswith(b'\x01') else 'parse offset %d does not equal the pattern length %d' % (k, len(raw))
    elif any(x.callee_qp == 'FIX8::MessageBase::get' and q.reads_local_of_field(x, 34) for x in q.calls_in(val)):
        anchored = True
    ctx.check(anchored, 'R19.3', S + 'process#seqnum.anchor', seqdefs[0][0].loc,
              'the sequence number used for enforcement is read at a field boundary', why)

    # ---------------- R19.4 exception policy table
    seen = {}
    for t in prog.tus:
        for fn_ in t.functions:
            if fn_.kind != 'ctor' or not fn_.recp or not fn_.recp.startswith('FIX8::'):
                continue
            for (m, e, it) in fn_.inits:
                if 'base' in it and t.types[it['base']]['c'] == 'FIX8::f8Exception':
                    es = e.strip()
                    forcing = False
                    if es.is_call and es.callee is not None:
                        pn = es.callee.get('pn', [])
                        if 'force_logoff' in pn:
                            i = pn.index('force_logoff')
                            if i < len(es.args):
                                forcing = es.args[i].strip(casts=True).value == 1
                        elif len(es.args) == 1 and es.args[0].type and es.args[0].type['k'] == 'bool':
                            forcing = es.args[0].strip(casts=True).value == 1
                    seen.setdefault(fn_.recp, set()).add(forcing)
    ctx.need(len(seen) >= 20, 'fewer than 20 f8Exception subclasses with constructors found (%d)' % len(seen))
    for cls, vals in sorted(seen.items()):
        want = cls in FORCING
        ctx.check(vals == {want}, 'R19.4', cls + '#force_logoff', cls,
                  '%s %s the session' % (cls, 'ends' if want else 'does not end'),
                  '%s constructs f8Exception(force_logoff=%s) but the policy table says %s' % (cls, sorted(vals), want))
    for cls in FORCING:
        ctx.need(cls in seen, 'forcing exception class %s not found' % cls)

    # ---------------- R19.5 the f8Exception handler
    h = pcfg.handler_entry(lambda n: 'exct' in n.r and pr.tu.types[n.r['exct']]['c'] in ('FIX8::f8Exception &', 'const FIX8::f8Exception &'))
    ctx.need(h is not None, 'catch (f8Exception&) not found in Session::process')
    hreach = pcfg.reach_from(h) | {h}
    fl = [b for b in q.branches(pr, lambda a: a.is_call and a.callee_qp == 'FIX8::f8Exception::force_logoff') if pcfg.block_last[b[0]] in hreach]
    ctx.need(len(fl) == 1, 'force_logoff() decision not found in the handler')
    forcing = q.atom_edge(pcfg, fl[0], True)
    nonforcing = q.atom_edge(pcfg, fl[0], False)
    rs = q.reachable_returns(pcfg, forcing)
    ctx.check(all(q.return_value(r) == 0 for r in rs), 'R19.5', S + 'process#forcing.retfalse', fl[0][1].loc, 'forcing exception: never `return true`')
    stops = q.verts(pcfg, pr.calls_to(S + 'stop'))
    p = q.escape_path(pcfg, forcing, stops)
    ctx.check(p is None, 'R19.5', S + 'process#forcing.stop', fl[0][1].loc, 'forcing exception: stop() on every path that returns normally',
              'forcing exception: a path returns without stop()', pcfg.describe_path(p) if p else None)
    louts = q.verts(pcfg, [c for c in pr.calls_to(S + 'send') if any(x.callee_qp == S + 'generate_logout' for x in q.calls_in(c))])
    ctx.need(louts, 'send(generate_logout(..)) not found in process()')
    def not_silent(v, w, lab):
        if lab is None or not isinstance(lab[1], bool):
            return True
        a, pol = q.polar(pcfg.cond_node(lab[0]), lab[1])
        if q.reads_member(a, 'FIX8::LoginParameters::_silent_disconnect') and a.strip(casts=True).k == 'MemberExpr':
            return pol is False
        # accepted idiom: Logout only when the session is established — sequence/CompID exceptions are raised
        # by enforce() only under the same predicate (obligation enforce#established below)
        if a.is_call and a.callee_qp == 'FIX8::States::is_established' and q.reads_member(a, S + '_state'):
            return pol is True
        return True
    exits_all = ('return', 'falloff', 'throw')
    p = q.escape_path(pcfg, forcing, louts, edge_ok=not_silent, exit_kinds=exits_all)
    ctx.check(p is None, 'R19.5', S + 'process#forcing.logout', fl[0][1].loc,
              'forcing exception, not silent: a Logout is sent on every path',
              'forcing exception (too-low sequence number, bad CompID, …): a path ends the session without sending a Logout',
              pcfg.describe_path(p) if p else None)
    for c in en.calls_to(S + 'sequence_check', S + 'compid_check'):
        atoms = q.controlling_atoms(en, c)
        ctx.check(any(a.is_call and a.callee_qp == 'FIX8::States::is_established' and q.reads_member(a, S + '_state') and pol for a, pol in atoms),
                  'R19.5', S + 'enforce#established@' + c.callee['n'], c.loc,
                  '%s runs only while the session is established (so its forcing exceptions arise only then)' % c.callee['n'])
    rej = q.verts(pcfg, pr.calls_to(S + 'handle_outbound_reject'))
    p = q.escape_path(pcfg, nonforcing, rej)
    ctx.check(p is None and bool(rej), 'R19.5', S + 'process#nonforcing.reject', fl[0][1].loc, 'non-forcing exception: a Reject is sent on every path')
    # delivery only after a successful decode
    fac = pr.calls_to('FIX8::Message::factory')
    ctx.need(len(fac) == 1, 'Message::factory call not found in process()')
    for c in pr.calls_to(S + 'handle_application'):
        ctx.check(pcfg.dominates(pcfg.vertex_of(fac[0]), pcfg.vertex_of(c)), 'R19.5', S + 'process#deliver.after-decode', c.loc,
                  'handle_application is dominated by Message::factory')
        ctx.check(q.refers_to_decl(c.args[0], c.args[0].strip(casts=True).declid) and c.args[1].strip(casts=True).k == 'DeclRefExpr',
                  'R19.5', S + 'process#deliver.args', c.loc, 'handle_application(seqnum, msg)')
        atoms = q.controlling_atoms(pr, c)
        ctx.check(any(a.is_call and a.callee_qp == S + 'activation_check' and pol for a, pol in atoms), 'R19.5', S + 'process#deliver.active', c.loc,
                  'delivery only while the session is active')
    # ---------------- R19.6 enforce(): which checks run in which session state (decision table over the state enumerators)
    enf = prog.fn1(S + 'enforce')
    ctx.saw(enf)
    ecfg = enf.cfg
    states = dict(prog.enum('FIX8::States::SessionStates')['e'])
    est = prog.fns('FIX8::States::is_established')
    ctx.need(est, 'States::is_established not found')
    est = est[0]
    erets = [n for n in est.all_nodes() if n.k == 'ReturnStmt']
    ctx.need(len(erets) == 1, 'is_established: single return expected')
    ep = est.param_ids[0]
    cc = [c for c in enf.calls_to(S + 'compid_check')]
    sc = [c for c in enf.calls_to(S + 'sequence_check')]
    ctx.need(len(cc) == 1 and len(sc) == 1, 'enforce: compid_check / sequence_check calls not found')
    bad_c, bad_s, n_est = [], [], 0
    for name, val in sorted(states.items(), key=lambda kv: kv[1]):
        if name == 'st_num_states':
            continue
        def ev_state_fn(fn, v, depth=0):
            rr = [n for n in fn.all_nodes() if n.k == 'ReturnStmt']
            if len(rr) != 1 or depth > 3:
                return None
            def catom(a):
                if a.is_call and (a.callee_qp or '').startswith('FIX8::States::') and a.args:
                    g = prog.fns(a.callee_qp)
                    av = q.eval_int(a.args[0], {fn.param_ids[0]: v})
                    if g and av is not None:
                        return ev_state_fn(g[0], av, depth + 1)
                return None
            return q.eval_int(rr[0].children[0], {fn.param_ids[0]: v}, atom=catom)
        is_est = ev_state_fn(est, val)
        ctx.need(is_est is not None, 'is_established(%s) not evaluable' % name)

        def atom(a, _v=val, _e=is_est):
            if q.member_value_of(a, S + '_state'):
                return _v
            if a.is_call and a.callee_qp == 'FIX8::States::is_established':
                return _e
            return None

        def okedge(v, w, lab, _atom=atom):
            if lab is None or not isinstance(lab[1], bool):
                return True
            c = ecfg.cond_node(lab[0])
            if c is None:
                return True
            r = q.eval_int(c, {}, atom=_atom)
            return True if r is None else (bool(r) == lab[1])
        reach = ecfg.reach_from(ecfg.entry, edge_ok=okedge)
        if is_est:
            n_est += 1
            if (ecfg.vertex_of(cc[0]) in reach) != (name != 'st_logon_received'):
                bad_c.append(name)
            if ecfg.vertex_of(sc[0]) not in reach:
                bad_s.append(name)
    ctx.need(n_est >= 8, 'fewer than 8 established states (%d)' % n_est)
    ctx.check(not bad_c, 'R19.6', S + 'enforce#compid-check-states', cc[0].loc,
              'CompIDs are checked in every established state except logon_received (%d states)' % n_est,
              'in state(s) %s an inbound message reaches the application without its CompIDs being compared with the session\'s: a message with a foreign '
              'SenderCompID/TargetCompID and an acceptable number is delivered' % ', '.join(bad_c))
    ctx.check(not bad_s, 'R19.6', S + 'enforce#sequence-check-states', sc[0].loc, 'the sequence check runs in every established state',
              'sequence_check is skipped in state(s) %s' % ', '.join(bad_s))
    from . import c20 as _c20
    _c20.seqreset_compare_rule(ctx, prog, 'R19.7')
    ctx.floor('R19.7', 1)
    ctx.floor('R19.1', 12)
    ctx.floor('R19.2', 10)
    ctx.floor('R19.4', 20)
    ctx.floor('R19.5', 6)
