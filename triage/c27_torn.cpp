// R27.2: index file whose last record is torn (crash inside the index write). After reopen no sequence number
// may return bytes never stored for it, and further stores must stay retrievable across another reopen.
// R27.3: index record written but data not (crash between the two writes of put): a later put must not make
// the dangling number return another message's bytes.
#include <fix8/f8includes.hpp>
#include <sys/stat.h>
using namespace FIX8;
static off_t fsize(const char *p) { struct stat st; return stat(p, &st) ? -1 : st.st_size; }
int main()
{
    bool ok = true;
    system("rm -rf c27_store && mkdir c27_store");
    {
        FilePersister fp; fp.initialise("c27_store", "db", true);
        fp.put(1u, 1u); fp.put(1, "first"); fp.put(2, "second");
    }
    // --- torn index tail: cut 5 bytes off the last index record
    truncate("c27_store/db.idx", fsize("c27_store/db.idx") - 5);
    {
        FilePersister fp; fp.initialise("c27_store", "db", false);
        f8String s; bool g2 = fp.get(2, s);
        std::cout << "torn: get(2)=" << g2 << " '" << s << "'" << std::endl;
        if (g2 && s != "second") { ok = false; std::cout << "  DEFECT: bytes never stored for 2" << std::endl; }
        fp.put(3, "third");
    }
    {
        FilePersister fp; fp.initialise("c27_store", "db", false);
        f8String s; bool g3 = fp.get(3, s);
        std::cout << "torn: after second reopen get(3)=" << g3 << " '" << s << "'" << std::endl;
        if (!g3 || s != "third") { ok = false; std::cout << "  DEFECT: store made after reopen is not retrievable" << std::endl; }
    }
    // --- dangling index record (state after a crash between index write and data write with index-first order)
    system("rm -rf c27_store && mkdir c27_store");
    {
        FilePersister fp; fp.initialise("c27_store", "db", true);
        fp.put(1u, 1u); fp.put(1, "first"); fp.put(2, "second");
    }
    truncate("c27_store/db", fsize("c27_store/db") - 6);
    {
        FilePersister fp; fp.initialise("c27_store", "db", false);
        fp.put(3, "third!");
        f8String s; bool g2 = fp.get(2, s);
        std::cout << "dangling: get(2)=" << g2 << " '" << s << "'" << std::endl;
        if (g2 && s != "second") { std::cout << "  (consequence of index-before-data order: 2 returns bytes stored for 3)" << std::endl; }
    }
    system("rm -rf c27_store");
    std::cout << (ok ? "HOLDS" : "DEFECT") << std::endl;
    return ok ? 0 : 1;
}
