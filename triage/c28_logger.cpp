// R28.1/R28.2: every accepted line is written exactly once; enqueue reports success when accepted;
// stop() returns after all accepted lines are written.
#include <fix8/f8includes.hpp>
#include <fstream>
using namespace FIX8;
int main()
{
    const char *fn = "c28_test.log";
    unlink(fn);
    Logger::LogFlags flags; flags << Logger::sequence;
    unsigned accepted = 0, N = 2000;
    {
        FileLogger lg(fn, flags, Logger::Levels(Logger::All));
        for (unsigned i = 0; i < N; ++i)
            if (lg.send("line " + std::to_string(i))) ++accepted;
        lg.stop();
    }
    std::ifstream in(fn); std::string l; unsigned lines = 0;
    while (std::getline(in, l)) ++lines;
    unlink(fn);
    std::cout << "submitted=" << N << " reported accepted=" << accepted << " written=" << lines << std::endl;
    bool ok = accepted == N && lines == N;
    std::cout << (ok ? "HOLDS" : "DEFECT: lines lost at stop and/or submit result inverted") << std::endl;
    return ok ? 0 : 1;
}
