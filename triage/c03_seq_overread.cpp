// R03.5: Session::process parsed MsgSeqNum with fast_atoi(…, SOH) without knowing that a SOH follows.
// Build with EXTRA="-fsanitize=address -g" (session.cpp is part of this TU through sess.hpp).
#include "sess.hpp"
int main()
{
    Fix f;
    static const char raw[] = "8=FIX.4.2\0019=40\00135=0\00149=COMPARO\00156=A12345B\00134=12";
    f8String m(raw, sizeof raw - 1);   // ends inside the MsgSeqNum value
    f8String heap(m.begin(), m.end()); heap.shrink_to_fit();
    bool r = f.ss->process(heap);
    std::cout << "process returned " << r << std::endl << "HOLDS (no memory error)" << std::endl;
    return 0;
}
