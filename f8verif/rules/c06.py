"""C06 — length-prefixed data fields carry arbitrary bytes."""
from ..facts import Program, AnalysisBroken, WITNESS_FIELDS
from .. import q, extent
from . import c07

CLAIM = {
    'text': 'Structural preconditions for binary-safe data fields: the fixed-width extraction step (Length field followed by its data field) '
            'must exist in every decoder that can meet such a pair — the section decoder and the repeating-group decoder; the pairing '
            'predicate must not depend on the numeric distance of the two tags (schemas pair SignatureLength 93 with Signature 89); the '
            'hand-off from the decoder to the field constructor must carry the length, because a constructor that measures its argument '
            'with strlen cannot preserve a NUL byte; the renderer of string data must be length-based.',
    'note': 'Trusted: clang CFG, extractor. The schema side of the pairing (which Length/data pairs exist where) is decided in C13\'s '
            'translation validation tables. Undecided: the decoded bytes for concrete inputs.',
    'technique': 'sibling agreement between decoders, predicate shape check, parameter-flow (length carried or not) over resolved calls',
}
UNITS = ['runtime/message.cpp', WITNESS_FIELDS]
EXPLANATION = (
    "Decided: R06.1 the pairing predicate in MessageBase::decode is `type == ft_Length` then next tag must be ft_data — flagged if it also "
    "requires `lasttag + 1 == tag`; R06.2 decode_group contains the same Length→data step (a call of extract_element_fixed_width); R06.3 "
    "the field factory is called with a `const char*` only (no length) and Field<f8String,N>(const char*) builds its value from the "
    "C string; Field<f8String,N>::print copies size() bytes; R06.4 the decoder's bound on the data length equals the value buffer's capacity (not less), and the fixed-width "
    "extractor refuses the copy exactly when value (and separator) do not fit. R06.5 the encoder's order chain (trailer before the BodyLength/CheckSum range, rules of C02 R02.1); R06.6 the checksum routine obeys the C07 rules. NOT decided: byte contents.")

MB = 'FIX8::MessageBase::'


def run(ctx):
    prog = Program(UNITS)
    ctx.units.update(UNITS)
    d = prog.fn1(MB + 'decode')
    ctx.saw(d)
    fw = [c for c in d.calls() if c.callee_qp == MB + 'extract_element_fixed_width']
    ctx.check(len(fw) == 1, 'R06.1', MB + 'decode#fixed-width-step', d.loc, 'the section decoder extracts a data field by the length announced in the preceding Length field')
    if fw:
        atoms = q.controlling_atoms(d, fw[0])
        ft = dict(prog.enum('FIX8::FieldTrait::FieldType')['e'])
        lengate = any(a.strip(casts=True).k == 'BinaryOperator' and a.strip(casts=True).op in ('!=', '==') and
                      a.strip(casts=True).children[1].strip(casts=True).value == ft['ft_Length'] for a, p in atoms)
        ctx.check(lengate, 'R06.1', MB + 'decode#length-type-gate', fw[0].loc, 'the step is taken for fields of type Length')
        n = fw[0].args[2].strip(casts=True)
        # ... i.e. it is computed from the value buffer the extractor filled for the Length token, or from the field object built from it
        ext = [c for c in d.calls() if c.callee_qp == MB + 'extract_element' and len(c.args) >= 4]
        ctx.need(ext, 'decode: extract_element call not found')
        vbuf = ext[0].args[3].strip(casts=True)
        ctx.need(vbuf.k == 'DeclRefExpr', 'decode: value buffer is not a plain local')
        derived = {vbuf.declid}
        for _ in range(3):
            for st in d.all_nodes():
                if st.k == 'DeclStmt':
                    for dd, init in st.r.get('decls', []):
                        if init >= 0 and dd not in derived and any(x.k == 'DeclRefExpr' and x.declid in derived for x in d.node(init).walk()):
                            derived.add(dd)
        okn = n.k == 'DeclRefExpr' and any(kind == 'init' and val is not None and any(x.k == 'DeclRefExpr' and x.declid in derived for x in val.walk())
                                           for (_, kind, val) in q.local_defs(d, n.declid))
        ctx.check(okn, 'R06.1', MB + 'decode#length-value', fw[0].loc, 'the width is the numeric value of the Length field just decoded')
        # the adjacency requirement
        adj = [a for (b, a, p) in q.branches(d, lambda a: any(x.k == 'BinaryOperator' and x.op == '+' and x.children[1].strip(casts=True).value == 1 for x in a.walk()) and
                                                  a.strip(casts=True).k == 'BinaryOperator' and a.strip(casts=True).op in ('!=', '=='))]
        ctx.check(not adj, 'R06.1', MB + 'decode#pairing-by-tag+1', adj[0].loc if adj else d.loc,
                  'the Length/data pairing does not depend on the numeric distance of the tags',
                  'the data field is only accepted when its tag equals the Length tag + 1 (`%s`): schema pairs such as SignatureLength(93)/Signature(89) '
                  'are rejected and the data value is then split at the first SOH' % (adj[0].text() if adj else ''))
    g = prog.fn1(MB + 'decode_group')
    ctx.saw(g)
    gfw = [c for c in g.calls() if c.callee_qp == MB + 'extract_element_fixed_width']
    ctx.check(len(gfw) >= 1, 'R06.2', MB + 'decode_group#fixed-width-step', g.loc, 'the group decoder has the Length→data step too',
              'decode_group never calls extract_element_fixed_width: a data field inside a repeating group (e.g. LinesOfText: EncodedTextLen 354 / EncodedText 355) '
              'is cut at the first SOH or \'=\' it contains')
    # R06.3 hand-off carries no length
    mk = [n for n in d.all_nodes() if n.is_call and n.k != 'CXXConstructExpr' and
          any(x.strip(casts=True).k == 'MemberExpr' and x.strip(casts=True).decl['n'] == '_do' for x in ([n.obj] if n.obj is not None else []) + n.children[:1])]
    ctx.need(mk, 'decode: field factory call not found')
    c = mk[0]
    tys = [a.type['c'] if a.type else '' for a in c.args]
    has_len = any(('unsigned' in t or 'size_t' in t or t == 'int') and i > 0 and not (a.strip(casts=True).value == -1) for i, (t, a) in enumerate(zip(tys, c.args)) if i != 2)
    strctor = [f for f in prog.all_functions() if f.kind == 'ctor' and (f.rec or '').startswith('FIX8::Field<std::basic_string<char>,') and 'const char *' in f.sig and f.tmpl == 'inst']
    ctx.need(strctor, 'Field<f8String,N>(const char*) instantiation not found')
    sc = strctor[0]
    ctx.saw(sc)
    by_cstr = any(m is not None and m['n'] == '_value' and len([a for a in e.strip().args if a.k != 'CXXDefaultArgExpr']) == 1 for (m, e, it) in sc.inits if e.strip().is_call)
    ctx.check(has_len or not by_cstr, 'R06.3', MB + 'decode#handoff-length', c.loc, 'the decoded data bytes reach the field object with their length',
              'the field factory receives only `const char*` (%s) and Field<f8String,N>(const char*) measures it as a C string: a data value is truncated at its first NUL byte' % ', '.join(tys))
    pr = [f for f in prog.all_functions() if f.qp == 'FIX8::Field::print' and (f.rec or '').startswith('FIX8::Field<std::basic_string<char>,') and f.sig.startswith('size_t (char *)')]
    ctx.need(pr, 'Field<f8String,N>::print(char*) not found')
    cp = [x for x in pr[0].calls() if x.callee is not None and x.callee.get('n') == 'copy']
    ctx.check(len(cp) == 1 and any(y.is_call and y.callee is not None and y.callee.get('n') == 'size' for y in cp[0].args[1].walk()), 'R06.3',
              'FIX8::Field<f8String>::print#length-based', pr[0].loc, 'string data is rendered by length (copy(to, size())), not as a C string')

    # ---------------- R06.4 "any length up to the field limit": the two guards of the Length->data step are exact, not merely safe
    fwf = prog.fn1(MB + 'extract_element_fixed_width')
    ctx.saw(fwf)
    if fw:
        summ = extent.summarise(fwf, 4)
        ok, need, cap, why = extent.check_site(d, fw[0], summ, 4)
        ctx.check(ok and need == cap, 'R06.4', MB + 'decode#length-guard-exact', fw[0].loc,
                  'the greatest data length the decoder lets through is exactly what the value buffer holds (%s bytes incl. terminator): %s' % (cap, why),
                  ('the guard on the data length lets through at most %s byte(s) incl. terminator but the buffer holds %s: a data field of exactly the field limit '
                   '(%s bytes) is rejected' % (need, cap, (cap - 1) if cap else '?')) if ok else ('data length not bounded by the buffer: %s' % why))
    cp = [c for c in fwf.calls() if c.callee_qp in ('memcpy', 'std::memcpy', '__builtin_memcpy')]
    ctx.need(len(cp) == 1, 'extract_element_fixed_width: memcpy not found')
    psz, pn = fwf.param_ids[1], fwf.param_ids[2]
    sym = lambda x: 'SZ' if q.refers_to_decl(x, psz) else 'N' if q.refers_to_decl(x, pn) else x.text()
    thr = None
    for (a, pol) in q.controlling_atoms(fwf, cp[0]):
        t = a.strip(casts=True)
        if t.k != 'BinaryOperator' or t.op not in ('<', '<=', '>', '>=') or not any(q.refers_to_decl(x, psz) for x in t.walk() if x.k == 'DeclRefExpr') \
                or not any(q.refers_to_decl(x, pn) for x in t.walk() if x.k == 'DeclRefExpr'):
            continue
        op = t.op if not pol else {'<': '>=', '<=': '>', '>': '<=', '>=': '<'}[t.op]       # the REJECTING condition
        dl = q.linear(t.children[0], sym=sym) - q.linear(t.children[1], sym=sym)
        if op in ('>', '>='):
            dl, op = -dl, {'>': '<', '>=': '<='}[op]
        # now: dl (op) 0 with op in < / <=   ->   dl <= T0
        t0 = -1 if op == '<' else 0
        terms = dict(dl.t)
        if terms.get('SZ') == 1 and terms.get('N') == -1 and len(terms) == 3 and sorted(terms.values()) == [-1, -1, 1]:
            thr = t0 - dl.c
            site = t
    ctx.need(thr is not None, 'extract_element_fixed_width: room test `sz < index + length` before the copy not recognised')
    ctx.check(thr in (-1, 0), 'R06.4', MB + 'extract_element_fixed_width#room-test-exact', site.loc,
              'the copy is refused exactly when the value (or the value and its separator) does not fit the remaining input (remaining - length <= %d)' % thr,
              'the room test `%s` refuses the copy while remaining - length <= %d: a data field %s is rejected although its bytes are there'
              % (site.text(), thr, 'that ends the decoded region (always the case for a Length/data pair in the trailer)' if thr > 0 else 'may be read past the input'))

    # ---------------- R06.5 a data field in the TRAILER is inside the frame: the order rules of the encoder (C02 R02.1: trailer encoded before the
    # BodyLength / CheckSum range is taken) re-stated for this property; R06.6 data bytes >= 0x80 and any length: the checksum routine both sides
    # use obeys the C07 rules (incl. the string overload being a pure forwarder)
    from ..engine import Ctx as _Ctx
    from . import c02 as _c02
    sub = _Ctx('C02', ctx.tier)
    _c02.run(sub)
    n_ord = 0
    for o in sub.obl:
        if o['rule'] == 'R02.1':
            n_ord += 1
            ctx._rec(o['ok'], 'R06.5', o['key'].split('@', 1)[1], o['site'], o['what'], o['detail'])
    ctx.need(n_ord >= 10, 'encoder order chain not evaluated (%d)' % n_ord)
    c07.rules(ctx, prog, rid='R06.6')
