#!/usr/bin/env python3
"""development helper: regenerate the table of DESIGN.md §12 (between the markers) from seeded/*/meta.json and seeded/RESULTS.json"""
import json, os, re
V = os.path.dirname(os.path.dirname(os.path.abspath(__file__)))
sd = os.path.join(V, 'seeded')
res = json.load(open(os.path.join(sd, 'RESULTS.json')))
rows = []
n = {'caught': 0, 'missed': 0, 'broken': 0, 'na': 0}
for i in sorted(d for d in os.listdir(sd) if os.path.isdir(os.path.join(sd, d)) and os.path.exists(os.path.join(sd, d, 'meta.json'))):
    m = json.load(open(os.path.join(sd, i, 'meta.json')))
    r = res.get(i, {})
    own = r.get('own_check_exit')
    if m['property'] == 'C21':
        verdict = 'n/a (C21 not claimed)'
        n['na'] += 1
    elif own == 1:
        verdict = 'caught'
        n['caught'] += 1
    elif own == 2:
        verdict = 'not decided (exit 2)'
        n['broken'] += 1
    else:
        verdict = '**missed**'
        n['missed'] += 1
    rules = sorted({k.split('@')[0] for ks in r.get('reported', {}).values() for k in ks})
    also = [p for p in r.get('caught_by', []) if p != m['property']]
    conf = {True: 'yes', False: 'NO', None: 'pending'}[m.get('confirmed')]
    note = m.get('note', '')
    rows.append('| %s | %s | %s | %s | %s%s | %s |' % (i, m['summary'].replace('|', '/')[:230], conf, verdict, ', '.join(rules) or '—',
                                                       (' (also ' + ', '.join(also) + ')') if also else '', note))
hdr = ('| seed | change (what it needs to manifest is in seeded/<id>/meta.json) | confirmed | own check | rules that report | note |\n|---|---|---|---|---|---|\n')
summary = ('%d kept changes: %d caught by the check of the property they break, %d missed, %d not decided (analysis gives up loudly, exit 2), %d for the unclaimed C21.\n\n'
           % (len(rows), n['caught'], n['missed'], n['broken'], n['na']))
txt = summary + hdr + '\n'.join(rows) + '\n'
p = os.path.join(V, 'DESIGN.md')
s = open(p).read()
a, b = '<!-- SEEDED-TABLE-BEGIN -->', '<!-- SEEDED-TABLE-END -->'
if a in s:
    s = s[:s.index(a) + len(a)] + '\n' + txt + s[s.index(b):]
else:
    s = s.replace('(table filled in below as the campaign proceeds)', a + '\n' + txt + b)
open(p, 'w').write(s)
print(summary)
