// R28.8: a line accepted before stop() must be written even when ANOTHER producer is, at that moment, between claiming its queue slot and
// publishing it.  ff::uMPMC_Ptr_Queue::push is  (1) claim ticket pw by CAS on preadP  (2) buf[pw&mask]->push(data)  (3) seqP[pw&mask] = pw+mask+1;
// pop() at a claimed-but-unpublished ticket reports "empty" although later tickets are complete.  A consumer that takes "empty while stopping" as
// "drained" leaves with those later lines still queued.
// The schedule is produced deterministically by executing producer P1's push in its two real halves (build with -fno-access-control):
//   P1: step (1)                      -- preempted here
//   P2: send("line B") -> true        -- complete, accepted
//   main: stop()                      -- returns: the logger thread has left
//   P1: steps (2),(3)                 -- resumes
// Property: the file holds "line B".
#include <fix8/f8includes.hpp>
#include <fstream>
#include <thread>
using namespace FIX8;
int main()
{
    const char *fn = "c28_ticket.log";
    unlink(fn);
    bool accB = false;
    {
        Logger::LogFlags flags;
        FileLogger lg(fn, flags, Logger::Levels(Logger::All));
        lg.send("line 0");
        hypersleep<h_milliseconds>(20);                      // written; the consumer is at its idle poll
        ff::uMPMC_Ptr_Queue& q = lg._msg_queue._queue;
        // ---- P1, first half of push(): claim the ticket
        unsigned long pw, idx;
        for (;;)
        {
            pw = atomic_long_read(&q.preadP); idx = pw & q.mask;
            if (pw == (unsigned long)atomic_long_read(&q.seqP[idx]) &&
                abstraction_cas((volatile atom_t*)&q.preadP, (atom_t)(pw + 1), (atom_t)pw) == (atom_t)pw)
                break;
        }
        // ---- P2: a complete send
        accB = lg.send("line B");
        // ---- stop() from a third thread (it joins the logger thread)
        std::thread stopper([&lg]() { lg.stop(); });
        hypersleep<h_milliseconds>(50);
        // ---- P1 resumes: second half of push()
        Logger::LogElement *le = new (::ff::ff_malloc(sizeof(Logger::LogElement))) Logger::LogElement(pthread_self(), "line A (in flight at stop)", Logger::Info, nullptr, 0);
        ((ff::uSWSR_Ptr_Buffer*)(q.buf[idx]))->push(le);
        atomic_long_set(&q.seqP[idx], (pw + q.mask + 1));
        stopper.join();
    }
    std::ifstream in(fn); std::string l; bool sawB = false; unsigned n = 0;
    while (std::getline(in, l)) { ++n; if (l.find("line B") != std::string::npos) sawB = true; }
    unlink(fn);
    std::cout << "send(\"line B\") returned " << accB << "; file has " << n << " line(s); line B " << (sawB ? "written" : "MISSING") << std::endl;
    if (accB && !sawB) { std::cout << "DEFECT: a line accepted before stop() was dropped because another producer held a claimed, unpublished slot" << std::endl; return 1; }
    std::cout << "HOLDS" << std::endl;
    return 0;
}
