// Explicit instantiations of the value-type specialisations of FIX8::Field, so that the member functions of the
// class templates in include/fix8/field.hpp are analysed on real instantiations (not on dependent patterns) and
// independently of any generated schema code. Parsed by f8facts with the repo's flags; never compiled or run.
#include <fix8/f8includes.hpp>
namespace FIX8 {
template class Field<int, 9001>;
template class Field<unsigned, 9002>;
template class Field<fp_type, 9003>;
template class Field<f8String, 9004>;
template class Field<char, 9005>;
template class Field<char *, 9006>;
template class Field<UTCTimestamp, 9007>;
template class Field<UTCTimeOnly, 9008>;
template class Field<UTCDateOnly, 9009>;
template class Field<LocalMktDate, 9010>;
template class Field<MonthYear, 9011>;
template class Field<Boolean, 9012>;
template class Field<TZTimeOnly, 9013>;
template class Field<TZTimestamp, 9014>;
}
