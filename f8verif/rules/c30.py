"""C30 — the inter-thread queue never loses, duplicates or reorders."""
from ..facts import Program, AnalysisBroken
from .. import q

CLAIM = {
    'text': 'Publication-order rules on the bundled unbounded MPMC queue (ff::uMPMC_Ptr_Queue) and its fix8 wrapper: in push the ticket '
            'CAS on the producer counter precedes the store into the ticket\'s sub-buffer, which precedes publishing that slot\'s '
            'sequence as ticket + number of sub-queues; in pop the emptiness test (producer sequence <= consumer sequence → false) and '
            'the ticket CAS precede the sub-buffer pop, which precedes publishing the consumer sequence; slot index = ticket & mask in '
            'both; init seeds every slot\'s two sequences with its index and both tickets with 0; the wrapper allocates one element '
            'per push and hands pop\'s pointer to release().',
    'note': 'Trusted: clang CFG, extractor, the atomic primitives and memory barriers of the bundled FastFlow headers. Undecided: all '
            'interleaving claims (loss, duplication, order): only the per-thread program order that the protocol relies on is decided.',
    'technique': 'order (dominance) + linear forms of the published sequence values; constructor-argument binding; forward two-state dataflow; must-pass-through',
}
UNITS = ['runtime/logger.cpp']
EXPLANATION = (
    "Decided: R30.1 push: read ticket pw ≺ idx = pw & mask ≺ read seqP[idx] ≺ (pw == seq) ≺ CAS(preadP, pw+1, pw) success ≺ "
    "sub-buffer push(data) ≺ seqP[idx] := pw + mask + 1, and `return true` only after it; R30.2 pop: read pr ≺ idx ≺ read seqC[idx] ≺ "
    "(pr == seq) ≺ [seqP[idx] <= seq → return false] ≺ CAS(preadC, pr+1, pr) ≺ sub-buffer pop ≺ seqC[idx] := pr + mask + 1; R30.3 init: "
    "seqP[i] = seqC[i] = i, preadP = preadC = 0, mask = nqueues - 1 with nqueues a power of two; R30.4 wrapper: try_push constructs a "
    "copy in fresh memory and pushes its pointer; try_pop passes &target; release destroys and frees. R30.5 BufferPool::release resets a drained segment before publishing it to the producers' cache. R30.6 every sub-queue is constructed growable (fixedsize = false: uMPMC push ignores the sub-queue's result); R30.7 uSWSR_Ptr_Buffer::push returns true only on paths on which the element was stored into the write segment current at the return; R30.8 BufferPool::next_w registers every segment it hands out in `inuse`. NOT decided: interleavings.")

Q = 'ff::uMPMC_Ptr_Queue::'


def _arg_reads(n, member):
    return any(x.k == 'MemberExpr' and x.decl.get('n') == member for x in n.walk())


def run(ctx):
    prog = Program(UNITS)
    ctx.units.update(UNITS)
    for fname, ticket, myseq, rid in (('push', 'preadP', 'seqP', 'R30.1'), ('pop', 'preadC', 'seqC', 'R30.2')):
        f = prog.fn1(Q + fname)
        ctx.saw(f)
        cfg = f.cfg
        reads = [c for c in f.calls_to('ff::atomic_long_read')]
        rt = [c for c in reads if _arg_reads(c.args[0], ticket)]
        rs = [c for c in reads if _arg_reads(c.args[0], myseq)]
        cas = [c for c in f.calls() if c.callee_qp == 'abstraction_cas' and _arg_reads(c.args[0], ticket)]
        sub = [c for c in f.calls() if c.callee_qp == 'ff::uSWSR_Ptr_Buffer::' + fname]
        pub = [c for c in f.calls_to('ff::atomic_long_set') if _arg_reads(c.args[0], myseq)]
        ctx.need(len(rt) == 1 and len(rs) >= 1 and len(cas) == 1 and len(sub) == 1 and len(pub) == 1,
                 '%s: protocol steps not all found (ticket read %d, seq read %d, cas %d, sub-buffer %d, publish %d)' % (fname, len(rt), len(rs), len(cas), len(sub), len(pub)))
        v = cfg.vertex_of
        # ticket local
        holder = rt[0].parent
        while holder is not None and not (holder.k == 'BinaryOperator' and holder.op == '='):
            holder = holder.parent
        ctx.need(holder is not None, fname + ': ticket is not assigned to a local')
        tk = holder.children[0].strip(casts=True).declid
        # idx = ticket & mask
        idxasg = [n for n in f.all_nodes() if n.k == 'BinaryOperator' and n.op == '=' and n.children[1].strip(casts=True).k == 'BinaryOperator' and
                  n.children[1].strip(casts=True).op == '&' and q.refers_to_decl(n.children[1].strip(casts=True).children[0], tk) and
                  _arg_reads(n.children[1].strip(casts=True).children[1], 'mask')]
        ctx.check(len(idxasg) == 1 and cfg.dominates(v(holder), v(idxasg[0])), rid, Q + fname + '#slot', f.loc, 'slot index = ticket & mask, computed after the ticket is read')
        idx = idxasg[0].children[0].strip(casts=True).declid if idxasg else None
        def uses_idx(n, _d=0):
            for x in n.walk():
                if x.k != 'DeclRefExpr':
                    continue
                if x.declid == idx:
                    return True
                # a named pointer to the sub-queue (`subqueue = static_cast<..>(buf[slot])`) stands for its initialiser
                if _d < 2 and x.decl is not None and x.decl.get('sc') == 'local' and x.declid != idx:
                    ds_ = q.local_defs(f, x.declid)
                    if len(ds_) == 1 and ds_[0][1] == 'init' and ds_[0][2] is not None and uses_idx(ds_[0][2], _d + 1):
                        return True
            return False
        ctx.check(all(uses_idx(c.args[0]) for c in rs) and uses_idx(pub[0].args[0]) and uses_idx(sub[0].obj), rid, Q + fname + '#same-slot', f.loc,
                  'sequence read, sub-buffer and publication all use that slot index')
        # order
        chain = [('ticket read', v(holder)), ('slot sequence read', v(rs[0])), ('ticket CAS', v(cas[0])), ('sub-buffer ' + fname, v(sub[0])), ('publish', v(pub[0]))]
        for (na, a), (nb, b) in zip(chain, chain[1:]):
            ctx.check(cfg.dominates(a, b), rid, Q + fname + '#order:%s<%s' % (na, nb), cfg.V[b].node.loc, '%s precedes %s on every path' % (na, nb),
                      '%s does not dominate %s: the protocol publishes/consumes out of order' % (na, nb))
        # CAS arguments: (ticket+1, ticket) and success test == ticket
        a1 = q.linear(cas[0].args[1], sym=lambda x: 'T' if q.refers_to_decl(x, tk) else x.text())
        a2 = q.linear(cas[0].args[2], sym=lambda x: 'T' if q.refers_to_decl(x, tk) else x.text())
        ctx.check(a1.t == {'T': 1} and a1.c == 1 and a2.t == {'T': 1} and a2.c == 0, rid, Q + fname + '#cas.args', cas[0].loc, 'CAS(ticket counter, ticket+1, ticket)')
        br = q.branches(f, lambda a: any(x == cas[0] for x in a.walk()))
        okb = False
        if len(br) == 1:
            s = br[0][1].strip(casts=True)
            if s.k == 'BinaryOperator' and s.op == '==':
                other = s.children[1] if any(x == cas[0] for x in s.children[0].walk()) else s.children[0]
                okb = q.refers_to_decl(other, tk)
                succ = q.atom_edge(cfg, br[0], True)
                fail = q.atom_edge(cfg, br[0], False)
                okb = okb and q.reachable_any(cfg, fail, {v(sub[0])}, edge_ok=lambda a_, b_, lab: True) is not None  # via retry loop only
                # the sub-buffer operation must be dominated by the success edge
                okb = okb and any(a == br[0][1] and pol for a, pol in q.controlling_atoms(f, sub[0]))
        ctx.check(okb, rid, Q + fname + '#cas.success-gates', cas[0].loc, 'the sub-buffer operation is control-dependent on the CAS having returned the expected ticket')
        # ticket == slot sequence test gates the CAS
        eq = [a for a, pol in q.controlling_atoms(f, cas[0]) if pol and a.strip(casts=True).k == 'BinaryOperator' and a.strip(casts=True).op == '==' and
              any(q.refers_to_decl(x, tk) for x in a.strip(casts=True).children)]
        ctx.check(len(eq) >= 1, rid, Q + fname + '#turn', cas[0].loc, 'the CAS is attempted only when the slot\'s sequence equals the ticket (it is this ticket\'s turn)')
        # published value = ticket + mask + 1
        pv = q.linear(pub[0].args[1], sym=lambda x: 'T' if q.refers_to_decl(x, tk) else ('MASK' if _arg_reads(x, 'mask') and x.strip(casts=True).k == 'MemberExpr' else x.text()))
        ctx.check(pv.t == {'T': 1, 'MASK': 1} and pv.c == 1, rid, Q + fname + '#publish.value', pub[0].loc,
                  'published sequence = ticket + mask + 1 (the next ticket that maps to this slot)', 'published sequence is `%s`' % pv)
        # returns
        rets = [(vv, n) for (vv, kind, n) in cfg.exits() if kind == 'return']
        trues = [vv for vv, n in rets if q.return_value(n) == 1]
        ctx.check(bool(trues) and all(cfg.dominates(v(pub[0]), t) for t in trues), rid, Q + fname + '#return.after-publish', f.loc, '`return true` only after publication')
        if fname == 'pop':
            falses = [(vv, n) for vv, n in rets if q.return_value(n) == 0]
            ok = len(falses) == 1
            if ok:
                atoms = q.controlling_atoms(f, falses[0][1])
                emp = [a for a, pol in atoms if pol and a.strip(casts=True).k == 'BinaryOperator' and a.strip(casts=True).op in ('<=', '<') and
                       any(c.callee_qp == 'ff::atomic_long_read' and _arg_reads(c.args[0], 'seqP') for c in q.calls_in(a))]
                ok = len(emp) == 1 and emp[0].strip(casts=True).op == '<=' and cfg.dominates(v(falses[0][1]), v(falses[0][1])) and \
                    not cfg.dominates(v(cas[0]), falses[0][0]) and v(cas[0]) in cfg.reach_from(cfg.block_last[cfg.V[cfg.vertex_of(emp[0])].block])
            ctx.check(ok, rid, Q + 'pop#empty-test', f.loc, 'empty is reported only when the slot\'s producer sequence <= its consumer sequence, tested before the ticket CAS')
            ctx.check(q.refers_to_decl(sub[0].args[0], f.param_ids[0]), rid, Q + 'pop#out', sub[0].loc, 'the popped pointer is stored through the caller\'s out-parameter')
        else:
            ctx.check(q.refers_to_decl(sub[0].args[0], f.param_ids[0]), rid, Q + 'push#in', sub[0].loc, 'the element stored is the caller\'s pointer')
    # ---------------- R30.3 init
    ini = prog.fn1(Q + 'init')
    ctx.saw(ini)
    sets = ini.calls_to('ff::atomic_long_set')
    loop = [n for n in ini.all_nodes() if n.k == 'ForStmt']
    ctx.need(len(loop) == 1, 'init: loop not found')
    lv = loop[0].child('init').r['decls'][0][0]
    inloop = [c for c in sets if c in list(loop[0].walk())]
    seeded = {m: [c for c in inloop if _arg_reads(c.args[0], m) and any(q.refers_to_decl(x, lv) for x in c.args[0].walk() if x.k == 'DeclRefExpr')
                  and q.refers_to_decl(c.args[1].strip(casts=True), lv)] for m in ('seqP', 'seqC')}
    ctx.check(all(len(vv) == 1 for vv in seeded.values()), 'R30.3', Q + 'init#seed-seq', ini.loc, 'seqP[i] = seqC[i] = i for every slot')
    zero = {m: [c for c in sets if _arg_reads(c.args[0], m) and c.args[1].strip(casts=True).value == 0] for m in ('preadP', 'preadC')}
    ctx.check(all(len(vv) == 1 for vv in zero.values()), 'R30.3', Q + 'init#seed-tickets', ini.loc, 'both ticket counters start at 0')
    mk = [w for (w, m) in q.member_writes(ini, Q + 'mask')]
    okm = False
    if len(mk) == 1:
        lf = q.linear(mk[0].children[1], sym=lambda x: 'N' if q.refers_to_decl(x, ini.param_ids[0]) else x.text())
        okm = lf.t == {'N': 1} and lf.c == -1
        p2 = [c for c in ini.calls() if c.callee is not None and c.callee.get('n') in ('isPowerOf2', 'nextPowerOf2')]
        okm = okm and len(p2) == 2 and all(ini.cfg.dominates(ini.cfg.vertex_of(c), ini.cfg.vertex_of(mk[0])) for c in p2[:1])
    ctx.check(okm, 'R30.3', Q + 'init#mask', ini.loc, 'mask = nqueues - 1 after nqueues was rounded up to a power of two')
    bound = loop[0].child('cond').strip(casts=True)
    ctx.check(bound.k == 'BinaryOperator' and bound.op == '<' and q.refers_to_decl(bound.children[1], ini.param_ids[0]), 'R30.3', Q + 'init#all-slots', ini.loc,
              'every slot 0..nqueues-1 is initialised')
    # ---------------- R30.4 wrapper
    W = 'FIX8::ff_unbounded_queue::'
    tp = [f for f in prog.fns(W + 'try_push', tmpl=('inst',))]
    ctx.need(tp, 'ff_unbounded_queue::try_push instantiation not found')
    for f in tp[:2]:
        ctx.saw(f)
        ps = f.calls_to(Q + 'push')
        news = [n for n in f.all_nodes() if n.k == 'CXXNewExpr']
        ok = len(ps) == 1 and len(news) == 1 and any(x == news[0] for x in ps[0].args[0].walk()) and 'placement' in news[0].r and \
            any(q.refers_to_decl(x, f.param_ids[0]) for x in news[0].child('init').walk() if x.k == 'DeclRefExpr')
        ctx.check(ok, 'R30.4', f.q + '#one-copy', f.loc, 'each push enqueues a pointer to one freshly allocated copy of the element')
        rets = [n for n in f.all_nodes() if n.k == 'ReturnStmt']
        ctx.check(len(rets) == 1 and rets[0].children[0].strip(casts=True) == ps[0], 'R30.4', f.q + '#result', f.loc, 'try_push returns the queue\'s result unchanged')
    for f in prog.fns(W + 'try_pop', tmpl=('inst',))[:2]:
        ctx.saw(f)
        ps = f.calls_to(Q + 'pop')
        ok = len(ps) == 1 and any(x.k == 'UnaryOperator' and x.op == '&' and q.refers_to_decl(x.children[0], f.param_ids[0]) for x in ps[0].args[0].walk())
        ctx.check(ok, 'R30.4', f.q + '#out', f.loc, 'try_pop lets the queue store the element pointer into the caller\'s variable')
    for f in prog.fns(W + 'release', tmpl=('inst',))[:2]:
        ctx.saw(f)
        fr = [c for c in f.calls() if c.callee is not None and c.callee.get('n') in ('ff_free', 'free')]
        ctx.check(len(fr) == 1 and q.refers_to_decl(fr[0].args[0], f.param_ids[0]), 'R30.4', f.q + '#free', f.loc, 'release frees exactly the popped element')
    # ---------------- R30.5 segment recycling (unbounded sub-queues): a drained segment is cleared BEFORE it is handed back to the producer side
    br = prog.fns('ff::BufferPool::release')
    ctx.need(len(br) >= 1, 'ff::BufferPool::release not found')
    brf = br[0]
    ctx.saw(brf)
    bcfg = brf.cfg
    rs_ = [c for c in brf.calls() if c.callee_qp == 'ff::SWSR_Ptr_Buffer::reset']
    ps_ = [c for c in brf.calls() if c.callee_qp == 'ff::SWSR_Ptr_Buffer::push' and c.obj is not None and any(x.k == 'MemberExpr' and x.decl.get('n') == 'bufcache' for x in c.obj.walk())]
    ctx.need(len(ps_) == 1, 'BufferPool::release: bufcache.push not found')
    ok5 = len(rs_) >= 1 and any(bcfg.dominates(bcfg.vertex_of(r), bcfg.vertex_of(ps_[0])) for r in rs_) and \
        not any(bcfg.vertex_of(r) in bcfg.reach_from(bcfg.vertex_of(ps_[0])) for r in rs_)
    ctx.check(ok5, 'R30.5', 'ff::BufferPool::release#reset-before-publish', ps_[0].loc,
              'the segment is reset before bufcache.push() makes it available to a producer, and not touched afterwards',
              'the drained segment is pushed to the cache before it is reset (or reset again afterwards): a producer that takes it from the cache at once has its '
              'first stores wiped by the consumer\'s reset — elements are lost and the sub-queue goes out of step')
    subqueue_rules(ctx, prog)
    ctx.floor('R30.6', 1)
    ctx.floor('R30.7', 1)
    ctx.floor('R30.8', 1)
    ctx.floor('R30.5', 1)
    ctx.floor('R30.1', 10)
    ctx.floor('R30.2', 11)
    ctx.floor('R30.3', 4)
    ctx.floor('R30.4', 3)


def subqueue_rules(ctx, prog, rid=None):
    """the unbounded single-producer sub-queues the MPMC queue stripes its tickets over (`uMPMC_Ptr_Queue::push` does not look at their result: "cannot fail").
    rid renames the rule ids when another property (C25 the pipelined writer queue, C28 the logger queue) relies on the same queue."""
    R = (lambda r: rid) if rid else (lambda r: r)
    # ---- R30.6 every sub-queue is created growable: the argument bound to the constructor's `fixedsize` parameter is false
    ini = prog.fn1(Q + 'init')
    ctx.saw(ini)
    news = [n for n in ini.all_nodes() if n.k in ('CXXConstructExpr', 'CXXTemporaryObjectExpr') and n.callee is not None and
            (n.callee.get('qp') or '').startswith('ff::uSWSR_Ptr_Buffer::')]
    ctx.need(len(news) >= 1, 'uMPMC_Ptr_Queue::init: construction of the uSWSR_Ptr_Buffer sub-queues not found')
    for i, n in enumerate(news):
        pn = n.callee.get('pn', [])
        ctx.need('fixedsize' in pn, 'uSWSR_Ptr_Buffer constructor has no `fixedsize` parameter any more')
        k = pn.index('fixedsize')
        v = None
        if k < len(n.args):
            v = n.args[k].strip(casts=True).value
            if v is None:
                v = q.eval_int(n.args[k], {})
        ctx.check(v == 0, R('R30.6'), Q + 'init#subqueue-growable@%d' % i, n.loc,
                  'the sub-queue is constructed with fixedsize = false (it chains a new segment when one is full)',
                  'the sub-queue is constructed as `%s`: the argument in the `fixedsize` position is %s, so its push returns false on a full segment — and '
                  'uMPMC_Ptr_Queue::push ignores that result and publishes the slot: from a backlog of (sub-queues x segment size) on, elements are dropped while '
                  'push reports success, and the matching pop returns true without an element' % (n.text(), 'true' if v else 'not a constant'))
    # ---- R30.7 uSWSR_Ptr_Buffer::push: on every path that returns true the element has been stored into the CURRENT write segment
    pf = prog.fns('ff::uSWSR_Ptr_Buffer::push')
    ctx.need(len(pf) >= 1, 'ff::uSWSR_Ptr_Buffer::push not found')
    f = pf[0]
    ctx.saw(f)
    cfg = f.cfg
    data = f.param_ids[0]
    stores = [c for c in f.calls() if c.callee_qp == 'ff::SWSR_Ptr_Buffer::push' and c.obj is not None and
              any(x.k == 'MemberExpr' and x.decl.get('n') == 'buf_w' for x in c.obj.walk()) and c.args and q.refers_to_decl(c.args[0], data)]
    ctx.need(len(stores) >= 1, 'uSWSR_Ptr_Buffer::push: buf_w->push(data) not found')
    sv = {cfg.vertex_of(c): c for c in stores}
    switch = {cfg.vertex_of(w) for (w, m) in q.member_writes(f, 'ff::uSWSR_Ptr_Buffer::buf_w')}
    # forward states: True = the element is in the current write segment
    state = {cfg.entry: {False}}
    work = [cfg.entry]
    while work:
        v = work.pop()
        for (w, lab) in cfg.succ[v]:
            for st in list(state[v]):
                ns = st
                if v in sv:
                    ns = True
                    if lab is not None and isinstance(lab[1], bool):
                        a, pol = q.polar(cfg.cond_node(lab[0]), lab[1])
                        if a.strip(casts=True) == sv[v] and not pol:
                            ns = False          # the failed edge of a tested store
                if v in switch:
                    ns = False
                if ns not in state.setdefault(w, set()):
                    state[w].add(ns)
                    work.append(w)
    bad = None
    for (v, kind, n) in cfg.exits():
        if kind != 'return' or not n.children:
            continue
        rv = n.children[0].strip(casts=True).value
        if rv == 0:
            continue
        if False in state.get(v, {False}):
            bad = n
    ctx.check(bad is None, R('R30.7'), 'ff::uSWSR_Ptr_Buffer::push#stored-before-true', (bad.loc if bad is not None else f.loc),
              'every path that returns true has stored the element into the write segment current at the return (after any switch to a fresh segment)',
              'push can return true on a path where the element was not stored into the current write segment (the store failed on the full segment, or the segment '
              'was switched after it): the element that makes a sub-queue grow is lost, and the consumer later pops one element too few')
    # ---- R30.8 BufferPool::next_w: every segment handed to the writer is registered in `inuse`, where the reader looks for the next segment
    nw = prog.fns('ff::BufferPool::next_w')
    ctx.need(len(nw) >= 1, 'ff::BufferPool::next_w not found')
    g = nw[0]
    ctx.saw(g)
    gc = g.cfg
    reg = [c for c in g.calls() if c.callee is not None and c.callee.get('n') == 'push' and c.obj is not None and
           any(x.k == 'MemberExpr' and x.decl.get('n') == 'inuse' for x in c.obj.walk())]
    ctx.need(len(reg) >= 1, 'BufferPool::next_w: inuse.push not found')
    regv = {gc.vertex_of(c) for c in reg}
    bad = None
    for (v, kind, n) in gc.exits():
        if kind != 'return' or not n.children:
            continue
        val = n.children[0].strip(casts=True)
        if val.value == 0 or val.k in ('GNUNullExpr', 'CXXNullPtrLiteralExpr'):
            continue            # allocation failed: nothing handed out
        if v in gc.reach_from(gc.entry, avoid=regv) or v == gc.entry:
            bad = n
    ctx.check(bad is None, R('R30.8'), 'ff::BufferPool::next_w#registered', (bad.loc if bad is not None else g.loc),
              'every path that returns a segment passes inuse.push(segment)',
              'a segment is returned to the writer at %s without inuse.push: the reader asks `inuse` for the next segment, never finds this one, and everything '
              'written into it is lost (pop reports an element it does not deliver)' % (bad.loc if bad is not None else ''))
