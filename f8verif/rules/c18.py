"""C18 — resend requests are answered with a complete, faithful replay."""
import itertools
from ..facts import Program, AnalysisBroken
from .. import q
from . import c02

CLAIM = {
    'text': 'Order, provenance and sibling-agreement rules on the resend machinery: a message that already carries MsgSeqNum is resent '
            'with OrigSendingTime := its old SendingTime read before SendingTime is overwritten, and PossDupFlag on every path; both '
            'range-retrieval implementations (memory, file) start at the nearest stored key, stop above the end of range, hand each '
            'record\'s own key and bytes to the callback and signal completion on every exit; every gap fill takes its MsgSeqNum from '
            'the retransmission context (never the live send counter, never by default) and the send counter is set to the announced '
            'NewSeqNo; the request-validation decision table matches (begin > end ∧ end ≠ 0) ∨ begin = 0 → Reject.',
    'note': 'Trusted: clang CFG, extractor. One infeasible exit (store.find(key) missing for a key just returned by '
            'find_nearest_highest_seqnum) is pruned; the supporting fact is checked as its own obligation. Undecided: completeness and '
            'order for concrete stores; std::map iteration order is assumed ascending.',
    'technique': 'dominance/order + reaching-definition provenance + sibling agreement + decision-table enumeration',
}
UNITS = ['runtime/session.cpp', 'runtime/persist.cpp', 'runtime/filepersist.cpp']
EXPLANATION = (
    "Decided: R18.1 (send_process) get(SendingTime) dominates `new OrigSendingTime(that value)`, the fresh SendingTime is added "
    "after both, PossDupFlag present on every non-always_seqnum_assign path for a message that carries MsgSeqNum; R18.2 (both "
    "Persister range get) start = find_nearest_highest_seqnum(from, last), stop test `key > finish` with finish = to==0 ? last : to, "
    "callback receives the iterator's own key (+ record bytes), `_no_more_records = true` followed by a callback on every normal exit; "
    "R18.3 every send(generate_sequence_reset(N,true), destroy, custom) in retrans_callback/handle_resend_request has an explicit "
    "custom sequence number derived from the context (_begin/_last/BeginSeqNo), never from _next_send_seq, and the later store to "
    "_next_send_seq is the announced N; R18.4 reject decision table over (begin>end, end≠0, begin=0). R18.7 FilePersister::put appends at SEEK_END; R18.8 find_nearest_highest_seqnum is the inclusive search in both persisters (rules of C27/C26); R18.6 both persisters seed the RetransmissionContext with session.get_next_send_seq(); R18.5 at the end of the records retrans_callback sends the closing gap fill and returns the session to continuous on every path. NOT decided: concrete stores.")

S = 'FIX8::Session::'
SEND_SEQ = S + '_next_send_seq'
RC = 'FIX8::Session::RetransmissionContext::'


def _memberfn_callback_calls(fn, param_id):
    """calls through the pointer-to-member callback parameter: CallExpr whose callee expression is
    `(session.*callback)`"""
    out = []
    for n in fn.all_nodes():
        if n.k in ('CallExpr', 'CXXMemberCallExpr') and n.callee is None:
            c = n.children[0].strip()
            if c.k == 'BinaryOperator' and c.op in ('.*', '->*') and q.refers_to_decl(c.children[1], param_id):
                out.append(n)
    return out


def range_get_rules(ctx, prog, rid):
    # ---------------- R18.2 sibling range getters
    for cls, store in (('FIX8::MemoryPersister', '_store'), ('FIX8::FilePersister', '_index')):
        g = prog.fn1(cls + '::get', sig='FIX8::Session &')
        ctx.saw(g)
        gc = g.cfg
        pfrom, pto, psess, pcb = g.param_ids
        cbs = _memberfn_callback_calls(g, pcb)
        ctx.need(len(cbs) >= 3, '%s::get: callback invocations not found' % cls)
        nmr = [w for (w, m) in q.member_writes(g, RC + '_no_more_records') if w.children[1].strip(casts=True).value == 1]
        ctx.need(nmr, '%s::get: no store `_no_more_records = true`' % cls)
        # (a) start key
        fnh = g.calls_to(cls + '::find_nearest_highest_seqnum')
        okstart = False
        if len(fnh) == 1:
            a0, a1 = fnh[0].args
            lastdefs = q.origins(g, a1, definite_out_calls=(cls + '::get_last_seqnum',))
            okstart = q.refers_to_decl(a0, pfrom) and bool(lastdefs) and all(k == 'out' and n.callee_qp == cls + '::get_last_seqnum' for k, n in lastdefs)
        ctx.check(okstart, rid, cls + '::get#start', g.loc, 'iteration starts at find_nearest_highest_seqnum(from, get_last_seqnum())')
        holder = fnh[0].parent
        while holder is not None and holder.k != 'DeclStmt':
            holder = holder.parent
        start_decl = None
        if holder is not None:
            for d, init in holder.r['decls']:
                if init >= 0 and any(x == fnh[0] for x in g.node(init).walk()):
                    start_decl = d
        finds = [c for c in g.calls() if c.callee is not None and c.callee.get('n') == 'find' and c.obj is not None and
                 q.refers_to_member(c.obj, cls + '::' + store) and c.args and start_decl is not None and q.refers_to_decl(c.args[0], start_decl)]
        ctx.check(len(finds) == 1, rid, cls + '::get#iter-init', g.loc, 'iterator := %s.find(start key)' % store)
        # infeasible: that find() misses. prune the edge `itr != end()` == false ; `itr == end()` == true
        def feasible(v, w, lab, _g=g, _gc=gc, _store=store, _cls=cls):
            if lab is None or not isinstance(lab[1], bool):
                return True
            a, pol = q.polar(_gc.cond_node(lab[0]), lab[1])
            s = a.strip(casts=True)
            if s.is_call and s.r.get('op') in ('!=', '==') and _gc.blocks[lab[0]].get('tk') == 'IfStmt' and \
                    any(x.is_call and x.callee and x.callee.get('n') in ('end', 'cend') and x.obj is not None and q.refers_to_member(x.obj, _cls + '::' + _store) for x in s.walk()):
                found = pol if s.r['op'] == '!=' else (not pol)
                return found
            return True
        # (c) stop test
        itdecl = None
        if finds:
            h2 = finds[0].parent
            while h2 is not None and h2.k != 'DeclStmt':
                h2 = h2.parent
            itdecl = h2.r['decls'][0][0] if h2 is not None else None
        def ex(n, _g=g, _gc=gc):
            """a const local initialised once inside the loop body stands for its initialiser (it is re-evaluated for every record: the iterator step cannot
            lie between its declaration and a use without the declaration being passed again)"""
            s0 = n.strip(casts=True)
            if s0.k == 'DeclRefExpr' and s0.decl is not None and s0.decl.get('sc') == 'local' and s0.declid != itdecl:
                defs_ = q.local_defs(_g, s0.declid)
                if len(defs_) == 1 and defs_[0][1] == 'init' and defs_[0][2] is not None and _gc.has_vertex(defs_[0][0]) and _gc.has_vertex(s0):
                    dv_, uv_ = _gc.vertex_of(defs_[0][0]), _gc.vertex_of(s0)
                    stepped = [x for x in _g.all_nodes() if x.is_call and x.r.get('op') == '++' and itdecl is not None and
                               ((x.obj is not None and q.refers_to_decl(x.obj, itdecl)) or (x.args and q.refers_to_decl(x.args[0], itdecl)))]
                    if all(not _gc.has_vertex(st_) or _gc.path(_gc.vertex_of(st_), lambda v, _u=uv_: v == _u, avoid={dv_}) is None for st_ in stepped):
                        return defs_[0][2].strip(casts=True)
            return s0

        def walk_ex(n):
            for x in n.walk():
                yield x
                if x.k == 'DeclRefExpr':
                    e_ = ex(x)
                    if e_ != x.strip(casts=True):
                        for y in e_.walk():
                            yield y

        def key_of_iter(n):
            s = ex(n)
            return s.k == 'MemberExpr' and s.decl and s.decl.get('n') == 'first' and itdecl is not None and any(
                x.k == 'DeclRefExpr' and x.declid == itdecl for x in s.walk())
        stops = q.branches(g, lambda a: a.strip(casts=True).k == 'BinaryOperator' and a.strip(casts=True).op in ('>', '>=', '<', '<=') and
                           any(key_of_iter(x) for x in a.strip(casts=True).children))
        # the record callback sites (a pair with a non-zero key), needed to say what "stops" means for any loop form
        rec_cbs = []
        for cb in cbs:
            a0 = cb.args[0].strip(casts=True)
            for (k_, n_) in (q.origins(g, a0) if a0.k == 'DeclRefExpr' else [('expr', a0)]):
                if n_ is not None and n_.strip(casts=True).is_call and len(n_.strip(casts=True).args) == 2 and n_.strip(casts=True).args[0].strip(casts=True).value != 0:
                    rec_cbs.append(cb)
        okstop = False
        for (b, a, pol) in stops:
            s = a.strip(casts=True)
            l, r = s.children
            op = s.op
            if key_of_iter(r) and not key_of_iter(l):
                l, r, op = r, l, {'<': '>', '>': '<', '<=': '>=', '>=': '<='}[op]
            if not key_of_iter(l) or r.strip(casts=True).k != 'DeclRefExpr' or op not in ('>', '<='):
                continue            # `>=` / `<` would stop one record early: not the inclusive bound
            fin = r.strip(casts=True)
            init = [val for (dn, kind, val) in q.local_defs(g, fin.declid) if kind == 'init' and val is not None]
            if len(init) == 1 and init[0].strip(casts=True).k == 'ConditionalOperator':
                co = init[0].strip(casts=True)
                c_, t_, e_ = co.child('cond').strip(casts=True), co.child('then'), co.child('else')
                if c_.k == 'BinaryOperator' and c_.op == '==' and q.refers_to_decl(c_.children[0], pto) and c_.children[1].strip(casts=True).value == 0 \
                        and q.refers_to_decl(e_, pto) and t_.strip(casts=True).k == 'DeclRefExpr':
                    # the edge on which key > finish holds never reaches a record callback (whether it is a break, or the exit of a for/while condition)
                    exceed = q.atom_edge(gc, (b, a, pol), op == '>')

                    def not_within(v, w, lab, _a=a, _op=op):
                        if lab is None or not isinstance(lab[1], bool):
                            return True
                        cn_ = gc.cond_node(lab[0])
                        if cn_ is None:
                            return True
                        a2, pol2 = q.polar(cn_, lab[1])
                        if a2 != _a:
                            return True
                        exceeds = pol2 if _op == '>' else (not pol2)
                        return exceeds          # the edge on which key <= finish is removed
                    # ... and every record callback, the first one included, is reached only through the edge on which key <= finish holds
                    first_untested = finds and q.reachable_any(gc, [gc.vertex_of(finds[0])], q.verts(gc, rec_cbs), edge_ok=not_within) is not None
                    if rec_cbs and q.reachable_any(gc, exceed, q.verts(gc, rec_cbs)) is None and not first_untested:
                        okstop = True
        ctx.check(okstop, rid, cls + '::get#stop', g.loc, 'a record is delivered only after its key was tested <= (to == 0 ? last : to); beyond it the iteration stops')
        # ascending step
        steps = [n for n in g.all_nodes() if n.is_call and n.r.get('op') == '++' and itdecl is not None and n.obj is not None and q.refers_to_decl(n.obj, itdecl) or
                 (n.is_call and n.r.get('op') == '++' and itdecl is not None and n.args and q.refers_to_decl(n.args[0], itdecl))]
        ctx.check(len(steps) == 1, rid, cls + '::get#step', g.loc, 'the iterator only moves forward (++), once per record')
        # (e) callback gets the iterator's own key
        recs = 0
        for cb in cbs:
            a0 = cb.args[0].strip(casts=True)
            org = q.origins(g, a0) if a0.k == 'DeclRefExpr' else [('expr', a0)]
            for (k, n) in org:
                if n is None:
                    continue
                pair = n.strip(casts=True)
                if pair.is_call and len(pair.args) == 2 and pair.args[0].strip(casts=True).value != 0:
                    recs += 1
                    ctx.check(key_of_iter(pair.args[0]), rid, cls + '::get#record.key', cb.loc, 'the callback is given the iterator\'s own key')
                    second = pair.args[1]
                    if cls.endswith('MemoryPersister'):
                        s2 = second.strip(casts=True)
                        ctx.check(s2.k == 'MemberExpr' and s2.decl.get('n') == 'second' and any(x.k == 'DeclRefExpr' and x.declid == itdecl for x in s2.walk()),
                                  rid, cls + '::get#record.bytes', cb.loc, 'the callback is given the bytes stored under that key')
                    else:
                        rd = [c for c in g.calls() if c.callee_qp == 'read']
                        sk = [c for c in g.calls() if c.callee_qp == 'lseek']
                        good = len(rd) == 1 and len(sk) == 1 and gc.dominates(gc.vertex_of(sk[0]), gc.vertex_of(rd[0])) and \
                            gc.dominates(gc.vertex_of(rd[0]), gc.vertex_of(cb))
                        if good and steps:
                            # ... for EVERY record: the seek is repeated after the iterator moved (no path from the step to the read without it)
                            stv = gc.vertex_of(steps[0])
                            good = gc.path(stv, lambda v, _r=gc.vertex_of(rd[0]): v == _r, avoid={gc.vertex_of(sk[0])}) is None
                        if good:
                            buf = rd[0].args[1].strip(casts=True)
                            sz = rd[0].args[2]
                            off = sk[0].args[1]
                            good = (any(x.k == 'MemberExpr' and x.decl.get('n') == '_size' for x in walk_ex(sz)) and
                                    any(x.k == 'MemberExpr' and x.decl.get('n') == '_offset' for x in walk_ex(off)) and
                                    any(x.k == 'DeclRefExpr' and x.declid == itdecl for x in walk_ex(sz)) and
                                    any(x.k == 'DeclRefExpr' and x.declid == itdecl for x in walk_ex(off)) and
                                    any(x.k == 'DeclRefExpr' and x.declid == buf.declid for x in second.walk()) and
                                    any(x.k == 'MemberExpr' and x.decl.get('n') == '_size' for x in walk_ex(second)))
                        ctx.check(good, rid, cls + '::get#record.bytes', cb.loc,
                                  'the callback is given exactly _size bytes read at the record\'s _offset')
        ctx.check(recs == 1, rid, cls + '::get#record.once', g.loc, 'one record callback site')
        # (d) completion on every feasible normal exit
        nv = q.verts(gc, nmr)
        p = q.escape_path(gc, [gc.entry], nv, edge_ok=feasible)
        ctx.check(p is None, rid, cls + '::get#completion.flag', g.loc, '`_no_more_records = true` on every feasible path to a return',
                  'a path returns without signalling completion', gc.describe_path(p) if p else None)
        for w in nmr:
            after = [x for (x, lab) in gc.succ[gc.vertex_of(w)]]
            p = q.escape_path(gc, after, q.verts(gc, cbs), edge_ok=feasible)
            ctx.check(p is None, rid, cls + '::get#completion.call@%d' % nmr.index(w), w.loc, 'the completion flag is delivered through the callback before returning')
        # supporting fact for the pruned exit
        fh = prog.fn1(cls + '::find_nearest_highest_seqnum')
        ctx.saw(fh)
        fc = fh.cfg
        rets = [n for (v, kind, n) in fc.exits() if kind == 'return']
        okf = True
        for r in rets:
            if q.return_value(r) == 0:
                continue
            atoms = q.controlling_atoms(fh, r)
            okf = okf and any(a.is_call and a.r.get('op') == '!=' and pol and any(x.is_call and x.callee and x.callee.get('n') in ('end', 'cend') for x in a.walk())
                              for a, pol in atoms) and r.children[0].strip(casts=True).k == 'MemberExpr'
        ctx.check(okf and len(rets) >= 2, rid, cls + '::find_nearest_highest_seqnum#found-only', fh.loc,
                  'a non-zero result is always the key of an entry that find() located (so the later find() cannot miss)')



def retrans_seed_rule(ctx, prog, RID):
    """both range-get implementations build the RetransmissionContext with the session's CURRENT next send number: retrans_callback assigns
    _next_send_seq from it at the end of the replay (sibling agreement over the persisters)"""
    n = 0
    for f in prog.all_functions():
        if not f.qp.endswith('Persister::get') or len(f.param_ids) < 4:
            continue
        cons = [c for c in f.all_nodes() if c.k in ('CXXConstructExpr', 'CXXTemporaryObjectExpr') and 'RetransmissionContext' in (c.tstr or '') and len(c.args) >= 3]
        if not cons:
            continue
        ctx.saw(f)
        for c in cons:
            n += 1
            a3 = c.args[2].strip(casts=True)
            ok = a3.is_call and a3.callee_qp == 'FIX8::Session::get_next_send_seq' and a3.obj is not None and q.refers_to_decl(a3.obj, f.param_ids[2])
            ctx.check(ok, RID, f.qp + '#retransmission-context.seed', c.loc,
                      'the retransmission context is seeded with session.get_next_send_seq()',
                      'the retransmission context is seeded with `%s` instead of the session\'s next send number: retrans_callback stores it into _next_send_seq when the '
                      'replay ends, so after admin messages (never persisted) or a partial range the counter is rewound and the next new message reuses a sequence number'
                      % c.args[2].text())
    ctx.need(n >= 2, 'fewer than 2 RetransmissionContext constructions found in the persisters (%d)' % n)


def run(ctx):
    prog = Program(UNITS)
    ctx.units.update(UNITS)
    # ---------------- R18.1
    sp = prog.fn1(S + 'send_process')
    ctx.saw(sp)
    cfg = sp.cfg
    have34 = q.branches(sp, lambda a: a.is_call and a.callee_qp == 'FIX8::MessageBase::have' and a.args and a.args[0].strip(casts=True).value == 34)
    ctx.need(len(have34) == 1, 'have(MsgSeqNum) decision not found in send_process')
    carries = q.atom_edge(cfg, have34[0], True)
    def is_header(n, depth=0):
        """the expression is msg->Header(), or a local pointer/reference initialised from it"""
        for y in n.walk():
            if y.is_call and y.callee_qp == 'FIX8::Message::Header':
                return True
            if y.k == 'DeclRefExpr' and y.decl and y.decl.get('sc') == 'local' and depth < 2:
                for (dn_, kind_, val_) in q.local_defs(sp, y.declid):
                    if kind_ == 'init' and val_ is not None and is_header(val_, depth + 1):
                        return True
        return False
    new122 = [n for n in sp.all_nodes() if n.k == 'CXXNewExpr' and q.field_num(sp.tu.types[n.r['alloc']]['c']) == 122]
    new52 = [n for n in sp.all_nodes() if n.k == 'CXXNewExpr' and q.field_num(sp.tu.types[n.r['alloc']]['c']) == 52]
    new43 = [n for n in sp.all_nodes() if n.k == 'CXXNewExpr' and q.field_num(sp.tu.types[n.r['alloc']]['c']) == 43]
    ctx.need(len(new122) == 1 and len(new52) == 1 and len(new43) == 1, 'new OrigSendingTime/SendingTime/PossDupFlag sites not found')
    p = q.escape_path(cfg, carries, q.verts(cfg, new122), exit_kinds=('return', 'falloff'))
    enc = q.verts(cfg, sp.calls_to('FIX8::Message::encode'))
    p = cfg.path(carries[0], lambda x: x in enc, avoid=q.verts(cfg, new122))
    ctx.check(p is None, 'R18.1', S + 'send_process#origsendingtime.always', new122[0].loc,
              'a message that already carries MsgSeqNum gets OrigSendingTime on every path to the encoder')
    arg = new122[0].child('init').strip().args[0]
    ok = False
    for x in arg.walk():
        if x.k == 'DeclRefExpr' and x.decl and q.field_num(sp.tu.types[x.decl['t']]['c']) == 52:
            rd = q.reaching_defs(sp, x.declid, x)
            outs = [dn for (dn, kind, val) in rd if kind == 'out' and dn.callee_qp == 'FIX8::MessageBase::get' and
                    dn.obj is not None and is_header(dn.obj)]
            if outs and all(cfg.dominates(cfg.vertex_of(o), cfg.vertex_of(new122[0])) for o in outs):
                ok = True
                getv = cfg.vertex_of(outs[0])
    ctx.check(ok, 'R18.1', S + 'send_process#origsendingtime.value', new122[0].loc,
              'OrigSendingTime is built from the SendingTime read out of this message\'s header beforehand')
    v52 = cfg.vertex_of(new52[0])
    ctx.check(ok and getv not in cfg.reach_from(v52) and cfg.vertex_of(new122[0]) not in cfg.reach_from(v52) and
              v52 in cfg.reach_from(cfg.vertex_of(new122[0])), 'R18.1', S + 'send_process#sendingtime.after', new52[0].loc,
              'the fresh SendingTime is added only after the old one was read and copied')
    # PossDupFlag: on the paths where _always_seqnum_assign is false
    def not_always(v, w, lab):
        if lab is None or not isinstance(lab[1], bool):
            return True
        a, pol = q.polar(cfg.cond_node(lab[0]), lab[1])
        if a.strip(casts=True).k == 'MemberExpr' and q.reads_member(a, 'FIX8::LoginParameters::_always_seqnum_assign'):
            return pol is False
        return True
    isdup = q.branches(sp, lambda a: a.k == 'DeclRefExpr' and a.decl and a.decl.get('sc') == 'local' and sp.tu.types[a.decl['t']]['k'] == 'bool' and any(
        kind == 'init' and val is not None and any(c.callee_qp == 'FIX8::MessageBase::have' and c.args and c.args[0].strip(casts=True).value == 43
                                                   for c in q.calls_in(val)) for (_, kind, val) in q.local_defs(sp, a.declid)))
    already = set()
    for br in isdup:
        if any(cfg.block_last[br[0]] in (cfg.reach_from(c) | {c}) for c in carries):
            already |= set(q.atom_edge(cfg, br, True))
    p = cfg.path(carries[0], lambda x: x in enc, avoid=q.verts(cfg, new43) | already, edge_ok=not_always)
    ctx.check(p is None, 'R18.1', S + 'send_process#possdup', new43[0].loc,
              'a resent message has PossDupFlag (already present or added) on every path to the encoder',
              None, cfg.describe_path(p) if p else None)
    ctx.check(new43[0].child('init').strip().args[0].strip(casts=True).value == 1, 'R18.1', S + 'send_process#possdup.value', new43[0].loc,
              'the flag added is PossDupFlag=Y')

    range_get_rules(ctx, prog, 'R18.2')

    # ---------------- R18.3 gap fill numbering
    n_gf = 0
    for fq in (S + 'retrans_callback', S + 'handle_resend_request'):
        f = prog.fn1(fq)
        ctx.saw(f)
        fc = f.cfg
        for c in f.calls_to(S + 'send'):
            gs = [x for x in q.calls_in(c) if x.callee_qp == S + 'generate_sequence_reset']
            if not gs:
                continue
            n_gf += 1
            g = gs[0]
            tag = 'gapfill@' + g.args[0].text()[:30] + '/' + str([x for x in f.calls_to(S + 'send') if any(y.callee_qp == S + 'generate_sequence_reset' for y in q.calls_in(x))].index(c))
            ctx.check(len(g.args) >= 2 and g.args[1].strip(casts=True).value == 1, 'R18.3', fq + '#' + tag + '.flag', g.loc, 'GapFillFlag=Y')
            cust = c.args[2] if len(c.args) > 2 else None
            explicit = cust is not None and cust.k != 'CXXDefaultArgExpr'
            if explicit:
                from ..memo import _expand
                cust = _expand(f, cust)          # a named const local stands for its initialiser
            from_counter = cust is not None and q.reads_member(cust, SEND_SEQ)
            from_ctx = cust is not None and (any(x.k == 'MemberExpr' and x.decl and x.decl.get('qp') in (RC + '_begin', RC + '_last') for x in cust.walk())
                                             or q.reads_local_of_field(cust, 7))
            ctx.check(explicit and not from_counter and from_ctx, 'R18.3', fq + '#' + tag + '.seqnum', c.loc,
                      'gap fill MsgSeqNum comes from the retransmission context',
                      'gap fill `%s` takes its MsgSeqNum %s' % (c.text()[:90], 'from the live send counter _next_send_seq' if from_counter
                                                                 else 'by default (the live send counter)' if not explicit else 'from `%s`' % cust.text()))
        # the counter is set to the announced NewSeqNo
        for (w, m) in q.member_writes(f, SEND_SEQ):
            rhs = w.args[-1].strip(casts=True)
            wv = fc.vertex_of(w)
            doms = [c for c in f.calls_to(S + 'send') if any(x.callee_qp == S + 'generate_sequence_reset' for x in q.calls_in(c))
                    and fc.dominates(fc.vertex_of(c), wv)]
            good = False
            for c in doms:
                g = [x for x in q.calls_in(c) if x.callee_qp == S + 'generate_sequence_reset'][0]
                a0 = g.args[0].strip(casts=True)
                if a0.k == 'DeclRefExpr' and rhs.k == 'DeclRefExpr' and a0.declid == rhs.declid:
                    good = True
            ctx.check(good, 'R18.3', fq + '#counter:=announced@%d' % w.line, w.loc, 'send counter := the NewSeqNo just announced')
    ctx.need(n_gf >= 5, 'expected >= 5 gap-fill sends, found %d' % n_gf)

    # ---------------- R18.4 request validation
    f = prog.fn1(S + 'handle_resend_request')
    fc = f.cfg
    def cls4(a):
        s = a.strip(casts=True)
        if s.k == 'BinaryOperator' and s.op in ('>', '<', '>=', '<=') and q.reads_local_of_field(s, 7) and q.reads_local_of_field(s, 16):
            l7 = q.reads_local_of_field(s.children[0], 7)
            return ('b>e', (s.op == '>' and l7) or (s.op == '<' and not l7))
        if s.k == 'BinaryOperator' and s.op in ('==', '!=') and q.reads_local_of_field(s, 7) and s.children[1].strip(casts=True).value == 0:
            return ('b=0', s.op == '==')
        if s.k == 'BinaryOperator' and s.op in ('==', '!=') and q.reads_local_of_field(s, 16) and s.children[1].strip(casts=True).value == 0:
            return ('e!=0', s.op == '!=')
        if s.is_call and s.r.get('op') == '()' and q.reads_local_of_field(s, 16) and not q.reads_local_of_field(s, 7):
            return ('e!=0', True)
        return None
    brs4 = {b: (cls4(a), pol) for (b, a, pol) in q.branches(f, lambda a: cls4(a) is not None)}
    ctx.need({'b>e', 'b=0', 'e!=0'} <= {c[0][0] for c in brs4.values() if c[0][1] in (True, False)} or len(brs4) >= 3,
             'resend request validation atoms not found')
    rej = q.verts(fc, f.calls_to(S + 'handle_outbound_reject'))
    act = q.verts(fc, f.calls_to('FIX8::Persister::get')) | q.verts(fc, [c for c in f.calls_to(S + 'send')])
    ctx.need(rej and act, 'reject / retransmit sites not found in handle_resend_request')
    first = min(brs4, key=lambda b: -b)   # highest block id = earliest in clang numbering
    starts = [fc.block_in[first]]
    for bgt, enz, bz in itertools.product((False, True), repeat=3):
        env = {'b>e': bgt, 'e!=0': enz, 'b=0': bz}
        def eo(v, w, lab):
            if lab is None or not isinstance(lab[1], bool) or lab[0] not in brs4:
                return True
            (key, positive), pol = brs4[lab[0]]
            truth = pol if lab[1] else (not pol)
            return (truth if positive else not truth) == env[key]
        reach = set()
        for s_ in starts:
            reach |= fc.reach_from(s_, edge_ok=eo)
        want_rej = (bgt and enz) or bz
        ctx.check((bool(reach & rej) == want_rej) and (bool(reach & act) == (not want_rej)), 'R18.4',
                  S + 'handle_resend_request#validate@%d%d%d' % (bgt, enz, bz), f.loc,
                  'begin>end:%s end!=0:%s begin=0:%s => %s' % (bgt, enz, bz, 'Reject only' if want_rej else 'replay only'))
    # ---------------- R18.5 the answer is closed: once the persister reports the end of the records, the closing gap fill is sent and the session
    # returns to continuous on every path (otherwise the next ResendRequest is ignored)
    rc = prog.fn1(S + 'retrans_callback')
    ctx.saw(rc)
    rcfg = rc.cfg
    nm = q.branches(rc, lambda a: a.strip(casts=True).k == 'MemberExpr' and a.strip(casts=True).decl.get('n') == '_no_more_records')
    ctx.need(len(nm) == 1, 'retrans_callback: end-of-records decision not found')
    stt = dict(prog.enum('FIX8::States::SessionStates')['e'])
    cont = q.verts(rcfg, [c for c in rc.calls_to(S + 'do_state_change') if c.args and c.args[0].strip(casts=True).value == stt['st_continuous']])
    closing = q.verts(rcfg, [c for c in rc.calls_to(S + 'send') if any(x.callee_qp == S + 'generate_sequence_reset' for x in q.calls_in(c))])
    start = q.atom_edge(rcfg, nm[0], True)
    p1 = q.escape_path(rcfg, start, cont)
    ctx.check(bool(cont) and p1 is None, 'R18.5', S + 'retrans_callback#end.back-to-continuous', nm[0][1].loc,
              'end of records: the session state returns to continuous on every path to the return',
              'after the last record the callback can return without do_state_change(st_continuous): the session stays in resend_request_received and '
              'handle_resend_request ignores every later ResendRequest', rcfg.describe_path(p1) if p1 else None)
    p2 = q.escape_path(rcfg, start, closing)
    ctx.check(bool(closing) and p2 is None, 'R18.5', S + 'retrans_callback#end.closing-gapfill', nm[0][1].loc,
              'end of records: a closing SequenceReset-GapFill is sent on every path', None, rcfg.describe_path(p2) if p2 else None)
    retrans_seed_rule(ctx, prog, 'R18.6')
    # R18.7 / R18.8 the store the replay reads from: records are appended at the end of the data file (rule of C27), and the first record of a range is
    # found by the inclusive nearest-highest search (rule of C26) in both persisters
    from . import c26 as _c26, c27 as _c27
    cand = [f for f in prog.fns('FIX8::FilePersister::put') if 'basic_string' in f.sig or 'f8String' in f.sig]
    ctx.need(len(cand) == 1, 'FilePersister::put(seq, bytes) not found')
    dw = [c for c in cand[0].calls() if c.callee_qp == 'write' and _c27._fd_is(c.args[0], '_fod')]
    ctx.need(len(dw) == 1, 'FilePersister::put: data write not found')
    _c27.append_rule(ctx, cand[0], dw[0], 'R18.7')
    for cls in ('FIX8::MemoryPersister', 'FIX8::FilePersister'):
        _c26.nearest_rule(ctx, prog, cls, 'R18.8')
    # ---------------- R18.9 the replay adds PossDupFlag / OrigSendingTime at their schema positions to a message decoded with arrival positions: the position
    # index must keep two fields that share a position (rule of C02 R02.5 / C01 R01.6: the index is a multimap), or the added field is never encoded
    c02.pos_type_rule(ctx, prog, 'R18.9')
    ctx.floor('R18.7', 1)
    ctx.floor('R18.8', 4)
    ctx.floor('R18.5', 2)
    ctx.floor('R18.1', 5)
    ctx.floor('R18.2', 20)
    ctx.floor('R18.3', 10)
    ctx.floor('R18.4', 8)
