"""C14 — distinct repeating-group definitions never share metadata (translation validation + compiler rule)."""
from ..facts import Program, AnalysisBroken
from .. import q, tv, gen

LEVEL = 'translation_validation'
CLAIM = {
    'text': 'Two parts. (1) Translation validation of every sharing decision the current compiler makes on the compiled schemas: for each '
            'message and each of its repeating groups (nested to any depth) the trait table the generated group class finally points to '
            '— private or a shared `…V<n>_traits` — is compared with that message\'s OWN group definition read independently from the '
            'schema (members, order, mandatory bits, nested groups). (2) A rule on the compiler itself: the key under which group '
            'definitions are merged must depend on everything a trait row encodes beyond what the tag determines (position order and the '
            'mandatory bit), and a key match must be confirmed by a structural comparison before two definitions are merged.',
    'note': 'Part (1) validates the compiler\'s output on the schemas compiled here, not for all schemas; part (2) states the structural '
            'reason any schema can be affected. Adversarial schemas (hash collisions) are not constructed. Trusted: clang, extractor, '
            'independent schema reader.',
    'technique': 'translation validation of shared tables; hashed-attribute ⊇ emitted-attribute check and must-compare-on-match on the compiler AST',
}
UNITS = ['compiler/f8c.cpp', 'compiler/f8cutils.cpp']
EXPLANATION = (
    "Decided: R14.1 per (message, group path): generated table = own schema definition, for FIX42UTEST and FIX42PERF (quick) plus "
    "FIX50SP2/FIXT11 and all stock schemas, shared and --noshared (thorough); R14.2 group_hash reads the members {…} of each field trait: "
    "must include tag, position and trait bits; the merge site (CommonGroups::insert in parse_groups) must be followed by an equality "
    "comparison of the two definitions when the insert did not take place. NOT decided: all schemas.")
extra = {}


def extra_coverage(ctx):
    return extra


def run(ctx):
    names = ['utest', 'perf'] + (['myfix'] if ctx.tier == 'thorough' else [])
    targets = [(n, None) for n in names]
    if ctx.tier == 'thorough':
        import glob, os
        for path in sorted(glob.glob(os.path.join(gen.REPO, 'schema', 'FIX*.xml'))) + sorted(glob.glob(os.path.join(gen.REPO, 'test', 'FIX44*.xml'))):
            rel = os.path.relpath(path, gen.REPO)
            if rel in ('schema/FIXT11.xml', 'schema/FIX42UTEST.xml', 'schema/FIX42PERF.xml'):
                continue
            targets.append((None, gen.stock_target(rel, True)))
        gen.generate([t if n is None else n for n, t in targets])
    import os
    tri = os.path.join(os.path.dirname(os.path.dirname(os.path.dirname(os.path.abspath(__file__)))), 'triage', 'c14')
    targets += [(None, gen.custom_target(os.path.join(tri, 'share.xml'), 'Share', 'SH')), (None, gen.custom_target(os.path.join(tri, 'collide.xml'), 'Collide', 'CO')),
                (None, gen.custom_target(os.path.join(tri, 'chain.xml'), 'Chain', 'CH'))]
    totals = {'definitions': 0, 'shared': 0}
    progs, samples = 0, []
    for n, t in targets:
        try:
            st, m, sc = tv.validate(ctx, n or t['prefix'], target=t, rid='R14.1', gid='R14.1', only_groups=True)
        except AnalysisBroken as e:
            if t is None:
                raise
            ctx.note('skipped %s: %s' % (t['schema'], str(e)[:200]))
            continue
        progs += 1
        totals['definitions'] += st['definitions']
        totals['shared'] += st['shared']
        samples.append({'schema': (t or gen.targets()[n])['schema'], 'group_and_message_definitions': st['definitions'], 'pointing_to_shared_tables': st['shared']})
        ctx.units.add((t or gen.targets()[n])['schema'])
    extra.update({'programs': progs, 'disagreements_checked': len(ctx.obl), 'validated': totals, 'schemas': samples})
    ctx.need(totals['shared'] >= 10, 'fewer than 10 shared group tables validated (%d)' % totals['shared'])

    # ---------------- R14.2 the compiler's merge key
    prog = Program(UNITS)
    ctx.units.update(UNITS)
    gh = prog.fn1('group_hash')
    ctx.saw(gh)
    hashed = sorted({x.decl['n'] for c in gh.calls() if c.callee_qp == 'FIX8::rothash' for a in c.args[1:] for x in a.walk()
                     if x.k == 'MemberExpr' and x.decl.get('parent', '').endswith('FieldTrait')})
    recurses = any(c.callee_qp == 'group_hash' for c in gh.calls())
    need = {'_fnum', '_pos', '_field_traits'}
    ctx.check(need <= set(hashed) and recurses, 'R14.2', 'group_hash#covers-row', gh.loc,
              'the merge key depends on tag, position and trait bits of every member and on nested groups (hashes %s)' % hashed,
              'group definitions are merged under a key that hashes only %s of each member: two definitions of one count field with the same member tags but a '
              'different order or different mandatory flags share one trait table, so one message\'s group is decoded and encoded with the other\'s definition'
              % hashed)
    pg = prog.fn1('parse_groups')
    ctx.saw(pg)
    ins = [c for c in pg.calls() if c.callee is not None and c.callee.get('n') == 'insert' and c.obj is not None and
           'map<unsigned int, FIX8::MessageSpec' in (c.obj.type or {}).get('c', '')]
    hv = [d for n in pg.all_nodes() if n.k == 'DeclStmt' for d, i in n.r['decls'] if i >= 0 and any(c.callee_qp == 'group_hash' for c in q.calls_in(pg.node(i)))]
    ins = [c for c in ins if hv and any(q.refers_to_decl(x, hv[0]) for a in c.args for x in a.walk() if x.k == 'DeclRefExpr')]
    ctx.need(len(ins) >= 1, 'parse_groups: insertion into the common group map under the hash key not found')
    confirmed = False
    for c in ins:
        # is the insert's result examined and, on "already present", the two specs compared?
        par = c.parent
        used = par is not None and par.k not in ('ExprWithCleanups', 'CompoundStmt')
        cmps = [x for x in pg.calls() if x.callee is not None and x.r.get('op') in ('==', '!=') and
                any(((a.type or {}).get('rec') or '').split('::')[-1] in ('MessageSpec', 'FieldTraits', 'Presence') for a in ([x.obj] if x.obj is not None else []) + x.args)]
        cfg = pg.cfg
        fcmp = [x for x in pg.calls() if x.callee is not None and pg.tu.types[x.callee['ret']]['k'] == 'bool' and
                sum(1 for a in x.args if ((a.type or {}).get('rec') or '').split('::')[-1] == 'MessageSpec') >= 2 and cfg.has_vertex(x)]
        # every way from "this key is already taken" to the insert must pass the comparison
        hits = q.branches(pg, lambda a: a.is_call and a.r.get('op') in ('!=', '==') and
                          any(y.is_call and y.callee is not None and y.callee.get('n') == 'find' and y.args and hv and q.refers_to_decl(y.args[0], hv[0]) for y in a.walk()))
        guarded = False
        for br in hits:
            taken = q.atom_edge(cfg, br, br[1].r['op'] == '!=')
            cv = cfg.vertex_of(c)
            if fcmp and all(cfg.path(t, lambda v: v == cv, avoid=q.verts(cfg, fcmp)) is None and t != cv for t in taken):
                guarded = True
        confirmed = confirmed or (used and bool(cmps)) or guarded
    ctx.check(confirmed, 'R14.2', 'parse_groups#confirm-on-match', ins[0].loc,
              'a key match is confirmed by comparing the two definitions before they are merged',
              'parse_groups merges two group definitions whenever their 32-bit keys are equal (the result of CommonGroups::insert is ignored and nothing is '
              'compared): definitions that collide under rothash — GF(2)-linear in its value argument, so collisions are constructible — silently share metadata')
    # the key finally used for the insert was itself tested: no definition of the key reaches the insert without passing the lookup test again
    # (a colliding definition that is moved to another key may collide there as well - probe chains)
    if hv:
        cfg = pg.cfg
        finds = [x for x in pg.calls() if x.callee is not None and x.callee.get('n') == 'find' and x.args and q.refers_to_decl(x.args[0], hv[0]) and cfg.has_vertex(x)]
        for c in ins:
            cv = cfg.vertex_of(c)
            tests = set()
            for (b, a, pol) in q.branches(pg, lambda a: any(y in finds for y in a.walk())):
                tests.add(cfg.block_last[b])
            before = [f for f in finds if cv in cfg.reach_from(cfg.vertex_of(f))]
            bad = None
            for (dn, kind, val) in q.local_defs(pg, hv[0]):
                if kind not in ('init', 'assign', 'incdec') or not cfg.has_vertex(dn):
                    continue            # handing the key to make_pair by reference is not a change of the key
                dv = cfg.vertex_of(dn)
                if cv not in cfg.reach_from(dv):
                    continue
                path = cfg.path(dv, lambda v: v == cv, avoid=tests)
                if path is not None:
                    bad = (dn, path)
                    break
            ctx.check(bool(tests) and bad is None, 'R14.2', 'parse_groups#key-tested-after-every-change', c.loc,
                      'every value the merge key takes is looked up (and a hit compared) before it is used for the insert',
                      'the merge key assigned at %s reaches the insert without being looked up again: a definition moved off a colliding key can land on '
                      'another taken key (three definitions that collide pairwise) and silently share that definition\'s table' % (bad[0].loc if bad else '?'),
                      cfg.describe_path(bad[1]) if bad else None)
    # the confirmation itself must be structural all the way down
    sg = prog.fns('same_group_definition')
    if sg:
        sgf = sg[0]
        ctx.saw(sgf)
        rec = any(c.callee_qp == 'same_group_definition' for c in sgf.calls())
        by_hash = any(c.callee_qp == 'group_hash' for c in sgf.calls()) or any(n.k == 'MemberExpr' and n.decl.get('n') == '_hash' for n in sgf.all_nodes())
        compared = sorted({n.decl['n'] for n in sgf.all_nodes() if n.k == 'MemberExpr' and n.decl.get('parent', '').endswith('FieldTrait')})
        ctx.check(rec and not by_hash and {'_fnum', '_pos', '_field_traits'} <= set(compared), 'R14.2', 'same_group_definition#structural', sgf.loc,
                  'the confirmation compares tag, position and trait bits of every member and recurses into nested groups (no hash involved)',
                  'the confirmation of a key match is not structural: %s' % ('nested groups are compared through group_hash / _hash, so nested definitions that collide '
                  'make two different outer definitions "equal"' if by_hash else ('nested groups are not compared' if not rec else 'members compared only by %s' % compared)))
    ctx.floor('R14.1', 30)
