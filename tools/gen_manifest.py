#!/usr/bin/env python3
"""Regenerates /verif/MANIFEST.json from the rule modules' CLAIM metadata (development-time helper)."""
import importlib, json, os, sys
V = os.path.dirname(os.path.dirname(os.path.abspath(__file__)))
sys.path.insert(0, V)
props = [json.loads(l) for l in open(os.path.join(V, 'properties.jsonl'))]
NA = json.load(open(os.path.join(V, 'tools', 'not_applicable.json')))
checks, na = [], []
for p in props:
    pid = p['id']
    try:
        m = importlib.import_module('f8verif.rules.' + pid.lower())
    except ModuleNotFoundError:
        na.append({'property_id': pid, 'reason': NA.get(pid, 'no static check is registered for this property yet (see DESIGN.md §5 for the planned clauses); not claimed')})
        continue
    c = m.CLAIM
    checks.append({
        'property_id': pid,
        'quick_cmd': './check %s --tier quick' % pid,
        'thorough_cmd': './check %s --tier thorough' % pid,
        'evidence_file': 'evidence/%s.json' % pid,
        'replay_cmd_template': './check --replay {path}',
        'engine': 'f8verif',
        'level_claimed': {'category': getattr(m, 'LEVEL', 'other'), 'text': c['text'], 'design_ref': 'DESIGN.md §5 ' + pid},
        'level_note': c['note'],
        'technique': c['technique'],
    })
man = {
    'version': 1,
    'setup_cmd': 'make -C /verif/tools',
    'hooks': {'guard': 'FIX8_VERIF', 'enable': 'none needed: the analysis reads the unmodified sources; no hook commits exist',
              'baseline_off_cmd': 'cd /repo && make -k check', 'source_commits': [], 'add_only': True},
    'engines': [
        {'name': 'f8facts', 'path': 'tools/f8facts.cc', 'serves_properties': [c['property_id'] for c in checks],
         'kind_free_text': 'libTooling (clang 14) fact extractor: CFG + resolved expression trees + records + static initialisers as JSON; applies no rule'},
        {'name': 'f8verif', 'path': 'f8verif/', 'serves_properties': [c['property_id'] for c in checks],
         'kind_free_text': 'Python rule engine over the extracted facts: dominance, must-pass-through, reaching definitions/provenance, extents, decision tables, sibling/table agreement, lock scopes'},
    ],
    'checks': checks,
    'not_applicable': na,
    'notes': 'Static analysis only. Every check decides structural necessary conditions (clauses) of its property on /repo\'s current source; what is not decided is stated in each evidence file and in DESIGN.md §5. Exit 2 = analysis broken (anchor vanished / unit does not parse), never used as pass or violation.',
}
json.dump(man, open(os.path.join(V, 'MANIFEST.json'), 'w'), indent=1)
print('claimed', len(checks), 'not_applicable', len(na))
