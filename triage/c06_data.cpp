// R06.1/R06.2/R06.3: Length-prefixed data fields.
#include "/repo/runtime/message.cpp"
#include "utest_types.hpp"
#include "utest_router.hpp"
#include "utest_classes.hpp"
using namespace FIX8::UTEST;
static f8String frame(const f8String& body35on)
{
    std::ostringstream o; o << "8=FIX.4.2\0019=" << body35on.size() << '\001' << body35on;
    f8String s(o.str()); unsigned sum = 0; for (unsigned char c : s) sum += c;
    char cs[8]; snprintf(cs, sizeof cs, "10=%03u\001", sum % 256); return s + cs;
}
static std::string show(std::string s) { for (auto& c : s) if (c == 1) c = '|'; else if (c == 0) c = '@'; return s; }
static int trial(const char *name, const f8String& body, const char *must_contain)
{
    f8String out;
    try { std::unique_ptr<Message> m(Message::factory(ctx(), frame(body), false, false)); m->encode(out); }
    catch (f8Exception& e) { out = f8String("rejected: ") + e.what(); }
    bool ok = out.find(must_contain, 0, strlen(must_contain) + (strchr(name, 'N') ? 2 : 0)) != f8String::npos;
    std::cout << name << ": " << show(out).substr(0, 150) << std::endl;
    return ok ? 0 : 1;
}
int main()
{
    int bad = 0;
    const f8String hb("35=0\00149=A\00156=B\00134=1\00152=20200101-00:00:00.000\001");
    bad += trial("SecureData 90/91 (header) with SOH inside", "35=0\00149=A\00156=B\00190=3\00191=a\001b\00134=1\00152=20200101-00:00:00.000\001", "91=a\001b\001");
    bad += trial("Signature 93/89 (trailer) with SOH inside", hb + "93=3\00189=x\001y\001", "89=x\001y\001");
    bad += trial("EncodedText 354/355 inside group 33 with SOH", "35=B\00149=A\00156=B\00134=1\00152=20200101-00:00:00.000\001148=h\00133=1\00158=t\001354=3\001355=p\001q\001", "355=p\001q\001");
    bad += trial("SecureData with NUL inside", f8String("35=0\00149=A\00156=B\00190=3\00191=a\000b\00134=1\00152=20200101-00:00:00.000\001", 62), "91=a");
    std::cout << (bad ? "DEFECT" : "HOLDS") << std::endl;
    return bad ? 1 : 0;
}
