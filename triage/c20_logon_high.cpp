// R20.3: a Logon response whose MsgSeqNum is above the expected number must be recovered with a ResendRequest,
// not by terminating the session.
#include "sess.hpp"
int main()
{
    Fix f;                                   // initiator, logon sent, expected = 1
    f.out();
    Logon *l(new Logon); f.recv_header(l->Header(), 5);
    *l << new HeartBtInt(5) << new EncryptMethod(0);
    f.ss->process(f.enc(l));
    auto o = f.out();
    bool resend = false;
    for (auto s : o) { if (s.find("\00135=2\001") != std::string::npos) resend = true; for (auto& c : s) if (c == 1) c = '|'; std::cout << "out: " << s << std::endl; }
    std::cout << "shutdown=" << f.ss->is_shutdown() << " resend_request=" << resend << " state=" << f.ss->getState() << std::endl;
    bool ok = !f.ss->is_shutdown() && resend;
    std::cout << (ok ? "HOLDS" : "DEFECT: Logon above the expected number terminates the session") << std::endl;
    return ok ? 0 : 1;
}
