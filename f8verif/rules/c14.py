"""C14 — distinct repeating-group definitions never share metadata (translation validation + compiler rule)."""
from ..facts import Program, AnalysisBroken
from .. import q, tv, gen

LEVEL = 'translation_validation'
CLAIM = {
    'text': 'Two parts. (1) Translation validation of every sharing decision the current compiler makes on the compiled schemas: for each '
            'message and each of its repeating groups (nested to any depth) the trait table the generated group class finally points to '
            '— private or a shared `…V<n>_traits` — is compared with that message\'s OWN group definition read independently from the '
            'schema (members, order, mandatory bits, nested groups). (2) A rule on the compiler itself: the key under which group '
            'definitions are merged must depend on everything a trait row encodes beyond what the tag determines (position order and the '
            'mandatory bit), and a key match must be confirmed by a structural comparison before two definitions are merged.',
    'note': 'Part (1) validates the compiler\'s output on the schemas compiled here, not for all schemas; part (2) states the structural '
            'reason any schema can be affected. Adversarial schemas (hash collisions) are not constructed. Trusted: clang, extractor, '
            'independent schema reader.',
    'technique': 'translation validation of shared tables; hashed-attribute ⊇ emitted-attribute check and must-compare-on-match on the compiler AST',
}
UNITS = ['compiler/f8c.cpp', 'compiler/f8cutils.cpp']
EXPLANATION = (
    "Decided: R14.1 per (message, group path): generated table = own schema definition, for FIX42UTEST and FIX42PERF (quick) plus "
    "FIX50SP2/FIXT11 and all stock schemas, shared and --noshared (thorough); R14.2 group_hash reads the members {…} of each field trait: "
    "must include tag, position and trait bits; the merge site (CommonGroups::insert in parse_groups) must be followed by an equality "
    "comparison of the two definitions when the insert did not take place. NOT decided: all schemas.")
extra = {}


def extra_coverage(ctx):
    return extra


def run(ctx):
    names = ['utest', 'perf'] + (['myfix'] if ctx.tier == 'thorough' else [])
    targets = [(n, None) for n in names]
    if ctx.tier == 'thorough':
        import glob, os
        for path in sorted(glob.glob(os.path.join(gen.REPO, 'schema', 'FIX*.xml'))) + sorted(glob.glob(os.path.join(gen.REPO, 'test', 'FIX44*.xml'))):
            rel = os.path.relpath(path, gen.REPO)
            if rel in ('schema/FIXT11.xml', 'schema/FIX42UTEST.xml', 'schema/FIX42PERF.xml'):
                continue
            targets.append((None, gen.stock_target(rel, True)))
        gen.generate([t if n is None else n for n, t in targets])
    import os
    tri = os.path.join(os.path.dirname(os.path.dirname(os.path.dirname(os.path.abspath(__file__)))), 'triage', 'c14')
    targets += [(None, gen.custom_target(os.path.join(tri, 'share.xml'), 'Share', 'SH')), (None, gen.custom_target(os.path.join(tri, 'collide.xml'), 'Collide', 'CO')),
                (None, gen.custom_target(os.path.join(tri, 'chain.xml'), 'Chain', 'CH')),
                (None, gen.custom_fixt_target(os.path.join(tri, 'fixt', 'app.xml'), os.path.join(tri, 'fixt', 'transport.xml'), 'Pair', 'PR'))]
    totals = {'definitions': 0, 'shared': 0}
    progs, samples = 0, []
    for n, t in targets:
        try:
            st, m, sc = tv.validate(ctx, n or t['prefix'], target=t, rid='R14.1', gid='R14.1', only_groups=True)
        except AnalysisBroken as e:
            if t is None:
                raise
            ctx.note('skipped %s: %s' % (t['schema'], str(e)[:200]))
            continue
        progs += 1
        totals['definitions'] += st['definitions']
        totals['shared'] += st['shared']
        samples.append({'schema': (t or gen.targets()[n])['schema'], 'group_and_message_definitions': st['definitions'], 'pointing_to_shared_tables': st['shared']})
        ctx.units.add((t or gen.targets()[n])['schema'])
    extra.update({'programs': progs, 'disagreements_checked': len(ctx.obl), 'validated': totals, 'schemas': samples})
    ctx.need(totals['shared'] >= 10, 'fewer than 10 shared group tables validated (%d)' % totals['shared'])

    # ---------------- R14.2 the compiler's merge decision
    prog = Program(UNITS)
    ctx.units.update(UNITS)

    def sites(fn, keydecl):
        """look-ups of the key (find(key)) that are branch conditions, hit edges, comparison calls in fn"""
        cfg = fn.cfg
        finds = [x for x in fn.calls() if x.callee is not None and x.callee.get('n') == 'find' and x.args and q.refers_to_decl(x.args[0], keydecl) and cfg.has_vertex(x)]
        tests = set()
        hits = []
        for (b_, a_, pol_) in q.branches(fn, lambda a: any(y in finds for y in a.walk())):
            tests.add(cfg.block_last[b_])
            t_ = a_.strip(casts=True)
            opn = t_.r.get('op') if t_.is_call else (t_.op if t_.k == 'BinaryOperator' else None)
            if opn in ('!=', '=='):
                hits.append(((b_, a_, pol_), opn == '!='))
        cmpc = [x for x in fn.calls() if x.callee is not None and fn.tu.types[x.callee['ret']]['k'] == 'bool' and
                sum(1 for a in x.args if ((a.type or {}).get('rec') or '').split('::')[-1] == 'MessageSpec') >= 2 and cfg.has_vertex(x)]
        return finds, tests, hits, cmpc

    def probe_ok(fn, keydecl, sink_vs, use_nodes, depth=0):
        """(tested, confirmed, why): every definition of the key that reaches a sink is followed by a look-up of that value before the sink, or is the result of a
        helper for which the same holds with `return` as the sink; every way from a key hit to a sink passes a structural comparison"""
        cfg = fn.cfg
        finds, tests, hits, cmpc = sites(fn, keydecl)
        why = []
        tested, confirmed = True, True
        helper_confirms = False
        rdefs = []
        for u in use_nodes:
            rdefs += q.reaching_defs(fn, keydecl, u)
        if keydecl in fn.param_ids:
            rdefs.append((None, 'entry', None))
        seen = set()
        for (dn, kind, val) in rdefs:
            key_ = (dn.i if dn is not None else -1)
            if key_ in seen or kind == 'out':
                continue
            seen.add(key_)
            helper = None
            if val is not None and depth < 2:
                for c in q.calls_in(val):
                    g = [h for h in prog.fns(c.callee_qp or '') if h.tu is fn.tu] if c.callee_qp else []
                    idx = [i for i, a in enumerate(c.args) if q.refers_to_decl(a, keydecl)]
                    if g and idx and idx[0] < len(g[0].param_ids) and sites(g[0], g[0].param_ids[idx[0]])[0]:
                        helper = (g[0], idx[0])       # a function of this unit that looks the key up itself: a probing helper
            if helper is not None:
                h, pi = helper
                ctx.saw(h)
                hret = [n for n in h.all_nodes() if n.k == 'ReturnStmt' and h.cfg.has_vertex(n)]
                rets_param = bool(hret) and all(q.refers_to_decl(r.children[0], h.param_ids[pi]) for r in hret if r.children)
                ht, hc, hw = probe_ok(h, h.param_ids[pi], {h.cfg.vertex_of(r) for r in hret}, [r.children[0] for r in hret if r.children], depth + 1)
                if rets_param and ht:
                    helper_confirms = helper_confirms or hc
                    continue
                tested = False
                why.append('the key comes from %s, which %s' % (h.q, '; '.join(hw) or 'does not return the key it tested'))
                continue
            start = cfg.entry if dn is None else cfg.vertex_of(dn)
            for sv in sink_vs:
                if sv == start or sv not in cfg.reach_from(start):
                    continue
                pth = cfg.path(start, lambda v, _sv=sv: v == _sv, avoid=tests)
                if pth is not None or not tests:
                    tested = False
                    why.append('the value the key gets at %s reaches its use at %s without being looked up' % (dn.loc if dn is not None else 'entry of ' + fn.q, cfg.V[sv].node.loc if cfg.V[sv].node is not None else '?'))
        for (br, hit_truth) in hits:
            for t in q.atom_edge(cfg, br, hit_truth):
                for sv in sink_vs:
                    if (sv in cfg.reach_from(t) or sv == t) and cfg.path(t, lambda v, _sv=sv: v == _sv, avoid=q.verts(cfg, cmpc)) is not None and t != sv:
                        confirmed = False
                        why.append('a key hit at %s reaches the use of the key without a structural comparison of the two definitions' % br[1].loc)
        if not hits and not helper_confirms:
            confirmed = False
            why.append('no look-up of the key is tested in ' + fn.q)
        return tested, confirmed, why

    pg = prog.fn1('parse_groups')
    ctx.saw(pg)
    ins = [c for c in pg.calls() if c.callee is not None and c.callee.get('n') == 'insert' and c.obj is not None and
           'map<unsigned int, FIX8::MessageSpec' in (c.obj.type or {}).get('c', '')]
    hv = [d for n in pg.all_nodes() if n.k == 'DeclStmt' for d, i in n.r['decls'] if i >= 0 and any(c.callee_qp == 'group_hash' for c in q.calls_in(pg.node(i)))]
    ins = [c for c in ins if hv and any(q.refers_to_decl(x, hv[0]) for a in c.args for x in a.walk() if x.k == 'DeclRefExpr')]
    ctx.need(len(ins) >= 1 and hv, 'parse_groups: insertion into the common group map under the hash key not found')
    uses = [x for c in ins for a in c.args for x in a.walk() if x.k == 'DeclRefExpr' and x.declid == hv[0]]
    tested, confirmed, why = probe_ok(pg, hv[0], {pg.cfg.vertex_of(c) for c in ins}, uses)
    ctx.check(confirmed, 'R14.2', 'parse_groups#confirm-on-match', ins[0].loc,
              'a key match is confirmed by comparing the two definitions before they are merged',
              'parse_groups merges two group definitions whenever their 32-bit keys are equal: definitions that collide under rothash — GF(2)-linear in its value '
              'argument, so collisions are constructible — silently share metadata (%s)' % '; '.join(why[:2]))
    ctx.check(tested, 'R14.2', 'parse_groups#key-tested-after-every-change', ins[0].loc,
              'every value the merge key takes is looked up (and a hit compared) before it is used for the insert',
              'a value of the merge key reaches the insert without being looked up again: a definition moved off a colliding key can land on another taken key '
              '(three definitions that collide pairwise) and silently share that definition\'s table (%s)' % '; '.join(why[:2]))
    # the confirmation itself must be structural all the way down
    sg = prog.fns('same_group_definition')
    structural = False
    if sg:
        sgf = sg[0]
        ctx.saw(sgf)
        rec = any(c.callee_qp == 'same_group_definition' for c in sgf.calls())
        by_hash = any(c.callee_qp == 'group_hash' for c in sgf.calls()) or any(n.k == 'MemberExpr' and n.decl.get('n') == '_hash' for n in sgf.all_nodes())
        compared = sorted({n.decl['n'] for n in sgf.all_nodes() if n.k == 'MemberExpr' and n.decl.get('parent', '').endswith('FieldTrait')})
        structural = rec and not by_hash and {'_fnum', '_pos', '_field_traits'} <= set(compared)
        ctx.check(structural, 'R14.2', 'same_group_definition#structural', sgf.loc,
                  'the confirmation compares tag, position and trait bits of every member and recurses into nested groups (no hash involved)',
                  'the confirmation of a key match is not structural: %s' % ('nested groups are compared through group_hash / _hash, so nested definitions that collide '
                  'make two different outer definitions "equal"' if by_hash else ('nested groups are not compared' if not rec else 'members compared only by %s' % compared)))
    # what the key hashes matters only when a key match is NOT confirmed structurally (then the key is the whole merge decision)
    gh = prog.fn1('group_hash')
    ctx.saw(gh)
    def hashed_members(fn, depth=0):
        out = {x.decl['n'] for c in fn.calls() if c.callee_qp == 'FIX8::rothash' for a in c.args[1:] for x in a.walk()
               if x.k == 'MemberExpr' and x.decl.get('parent', '').endswith('FieldTrait')}
        if depth < 2:
            for c in fn.calls():
                for h in (prog.fns(c.callee_qp) if c.callee_qp and c.callee_qp not in ('group_hash', 'FIX8::rothash') else []):
                    if h.tu is fn.tu and h.q != fn.q:
                        out |= hashed_members(h, depth + 1)
        return out
    hashed = sorted(hashed_members(gh))
    recurses = any(c.callee_qp == 'group_hash' for c in gh.calls())
    need = {'_fnum', '_pos', '_field_traits'}
    if structural and confirmed and tested:
        ctx.ok('R14.2', 'group_hash#covers-row', gh.loc, 'key matches are confirmed structurally, so the key may hash any subset of a definition (it hashes %s)' % hashed)
    else:
        ctx.check(need <= set(hashed) and recurses, 'R14.2', 'group_hash#covers-row', gh.loc,
                  'the merge key depends on tag, position and trait bits of every member and on nested groups (hashes %s)' % hashed,
                  'group definitions are merged under a key that hashes only %s of each member and a key match is not confirmed structurally: two definitions of one count '
                  'field with the same member tags but a different order or different mandatory flags share one trait table' % hashed)
    ctx.floor('R14.1', 30)
