// R28.7: a line accepted just before stop() must be written. The consumer tests `_stopping` AFTER a failed try_pop: if the line is pushed and
// stop() is requested between those two steps, the thread leaves with the line still queued. Stress: one line, immediate stop, many rounds.
#include <fix8/f8includes.hpp>
#include <fstream>
#include <cstdlib>
using namespace FIX8;
int main(int argc, char **argv)
{
    const unsigned rounds = argc > 1 ? std::atoi(argv[1]) : 30000;
    const char *fn = "c28_race.log";
    unsigned lost = 0, accepted = 0;
    for (unsigned r = 0; r < rounds; ++r)
    {
        unlink(fn);
        Logger::LogFlags flags;
        bool acc;
        {
            FileLogger lg(fn, flags, Logger::Levels(Logger::All));
            if (r % 3) hypersleep<h_microseconds>(190 + r % 23);      // let the consumer reach its idle poll
            acc = lg.send("the only line");
            lg.stop();
        }
        if (!acc) continue;
        ++accepted;
        std::ifstream in(fn); std::string l; unsigned lines = 0;
        while (std::getline(in, l)) ++lines;
        if (lines != 1) { ++lost; if (lost <= 3) std::cout << "round " << r << ": accepted 1 line, file has " << lines << std::endl; }
    }
    unlink(fn);
    std::cout << "rounds=" << rounds << " accepted=" << accepted << " lost=" << lost << std::endl;
    std::cout << (lost ? "DEFECT: a line accepted before stop() was not written" : "no loss observed") << std::endl;
    return lost ? 1 : 0;
}
